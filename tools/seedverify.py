#!/usr/bin/env python3
"""Confirm a seeded change delivered by a sub-agent and file it under seeded/<name>/.
usage: tools/seedverify.py <agent-out-dir> [...]
For each directory with patch.diff + demo.py: in a scratch worktree of /repo HEAD (outside /repo and /verif)
  1. demo on the unchanged build must exit 0,
  2. patch must apply and build, the repository's own tests must pass on the patched build,
  3. demo on the patched build must exit non-zero.
Writes seeded/<name>/{patch.diff, demo.py, notes.txt, meta.json}."""
import os, sys, json, subprocess, tempfile, shutil
HERE = os.path.dirname(os.path.dirname(os.path.abspath(__file__)))
sys.path.insert(0, HERE)
from vlib import build

def run_demo(root, demo):
    env = dict(os.environ, PYTHONPATH=root, OPENBLAS_NUM_THREADS="1")
    try:
        p = subprocess.run(["/venv/bin/python", demo], capture_output=True, text=True, env=env, cwd="/tmp", timeout=600)
        return p.returncode, (p.stdout + p.stderr).strip()[-300:]
    except subprocess.TimeoutExpired:
        return 124, "timeout"

def tests(wt, root):
    j = os.path.join(os.path.dirname(root), "j.xml")
    env = dict(os.environ, PYTHONPATH=root, OPENBLAS_NUM_THREADS="1")
    subprocess.run(["/venv/bin/python", "-m", "pytest", "-p", "no:cacheprovider", "--timeout=900", "--junitxml=" + j, "tests"],
                   capture_output=True, text=True, env=env, cwd=wt)
    import xml.etree.ElementTree as ET
    r = ET.parse(j).getroot(); ts = r if r.tag == "testsuite" else r.find("testsuite")
    t, f, e, s = (int(ts.get(k, 0)) for k in ("tests", "failures", "errors", "skipped"))
    return t - f - e - s, f + e

for src in sys.argv[1:]:
    src = src.rstrip("/")
    name = os.path.basename(src)
    prop = name.split("-")[0]
    scratch = tempfile.mkdtemp(prefix="cvxopt-seedverify-")
    wt = os.path.join(scratch, "wt")
    subprocess.run(["git", "-C", "/repo", "worktree", "add", "-q", "--detach", wt, "HEAD"], check=True)
    try:
        os.environ["VERIF_REPO"] = wt; build.REPO = wt
        base = build.build("plain", os.path.join(scratch, "b0"))
        rc0, out0 = run_demo(base, os.path.join(src, "demo.py"))
        r = subprocess.run(["git", "-C", wt, "apply", os.path.join(src, "patch.diff")], capture_output=True, text=True)
        if r.returncode:
            print(name, "PATCH DOES NOT APPLY", r.stderr[:200]); continue
        try:
            pat = build.build("plain", os.path.join(scratch, "b1"))
        except build.BuildFailed as e:
            print(name, "BUILD FAILED"); continue
        passed, failed = tests(wt, pat)
        rc1, out1 = run_demo(pat, os.path.join(src, "demo.py"))
        ok = rc0 == 0 and rc1 != 0 and failed == 0 and passed >= 36
        print("%s: demo unchanged rc=%d (%s) | patched rc=%d (%s) | tests %d passed %d failed -> %s" %
              (name, rc0, out0[-60:].replace("\n", " "), rc1, out1[-100:].replace("\n", " "), passed, failed, "CONFIRMED" if ok else "REJECTED"))
        if ok:
            dst = os.path.join(HERE, "seeded", name)
            os.makedirs(dst, exist_ok=True)
            for f in ("patch.diff", "demo.py", "notes.txt"):
                if os.path.exists(os.path.join(src, f)):
                    shutil.copy(os.path.join(src, f), dst)
            notes = open(os.path.join(src, "notes.txt")).read() if os.path.exists(os.path.join(src, "notes.txt")) else ""
            json.dump({"property": prop, "origin": "independent sub-agent (saw only the property text and a scratch worktree)",
                       "needs": notes.strip().split("\n\n")[0][:1200],
                       "confirmed": {"demo_unchanged_exit": rc0, "demo_patched_exit": rc1, "demo_patched_output": out1,
                                     "repo_tests_on_patched_build": "%d passed, %d failed" % (passed, failed),
                                     "how": "tools/seedverify.py: scratch worktree of /repo HEAD, vlib/build.py plain build with and without patch.diff"},
                       "checks": [prop]}, open(os.path.join(dst, "meta.json"), "w"), indent=1)
    finally:
        subprocess.run(["git", "-C", "/repo", "worktree", "remove", "--force", wt])
        shutil.rmtree(scratch, ignore_errors=True)
