"""C02  Infeasibility statuses carry valid Farkas certificates."""
LEVEL = "exploration"
TECHNIQUE = "runtime monitoring: Farkas-certificate checker (numpy) on every 'primal infeasible'/'dual infeasible' result over planted infeasible/unbounded cone LPs, all solver paths, plus op.solve"
LEVEL_TEXT = ("every infeasibility status observed is re-verified as a certificate from the caller's own data; "
              "held on the generated executions, not a proof")
RULE = ("planted strictly infeasible / unbounded (and feasible) cone LPs through conelp, lp, socp, sdp and modeling.op.solve; "
        "class signature = entry x cone shape class x kktsolver x storage x start kind x option class x status; "
        "only results with an infeasibility status are judged here")
ASSUMPTIONS = [
    "norms of 's' parts in the symmetric ('L' storage) interpretation",
    "GLPK: documented behaviour is that all entries are None for infeasible/unbounded problems",
]
REQUIRED_COUNTERS = ["homogeneous-equalities", "primal.conelp", "primal.lp", "primal.socp", "primal.sdp", "dual.conelp", "dual.lp", "dual.socp",
                     "dual.sdp", "kkt.ldl", "kkt.ldl2", "kkt.qr", "kkt.chol", "kkt.chol2", "kkt.callable",
                     "start.both", "storage.sparse", "wrapper-block-checks", "op.primal infeasible", "op.dual infeasible"]


def plan(tier):
    if tier == "thorough":
        return [{"variant": "plain", "workers": 16, "cases": 15000}]
    return [{"variant": "plain", "workers": 16, "cases": 150}]


def run(ctx):
    from vlib import solve_cases
    solve_cases.run_conelp_family(ctx, judge_status=("primal infeasible", "dual infeasible"),
                                  mix={"feasible": 0.10, "pinf": 0.45, "dinf": 0.45}, op_fraction=0.12)
