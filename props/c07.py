"""C07  KKT solvers and Nesterov-Todd scalings satisfy their linear-algebra contract."""
import math

LEVEL = "exploration"
TECHNIQUE = ("runtime monitoring: (a) compute/update_scaling histories judged by the numpy definition of W; (b) kkt_* factories "
             "judged by the residual of the documented block system over factor/solve histories; (c) invariant hook on every W "
             "handed to a user kktsolver during real solves, with a read-only peek at the solver's s, z, lmbda")
LEVEL_TEXT = "linear-algebra identities re-checked in numpy on every observed scaling / KKT solve; held on the generated histories, not a proof"
RULE = ("(a) random interior (s,z) per cone structure incl. mnl, then 1..30 updates (random or converging to complementarity); "
        "(b) factories ldl/ldl2/chol/chol2/qr x dense/sparse x with/without H, Df x factor/solve histories; "
        "(c) conelp/coneqp/cpl/cp/gp solves (incl. steep geometric programs that drive cpl through its saved/resumed line-search states) with an observing kktsolver.  class signature = monitor x cone shape class x factory x storage x history class")
ASSUMPTIONS = ["W is reconstructed from (dnl, d, beta, v, r) by its documented definition; di, dnli, rti are checked against it",
               "identities are measured relative to the norms of the factors (threshold 1e-9 for random scalings, scaled by the condition of W in converging histories)"]
REQUIRED_COUNTERS = ["a.compute", "a.update", "a.history>=10", "b.structurally-sparse", "b.structurally-sparse-singular-S", "b.zero-pattern-in-G", "b.ldl", "b.ldl2", "b.chol", "b.chol2", "b.qr", "b.chol2.singular-branch",
                     "b.chol2.refactor", "b.sparse", "b.mnl", "b.H", "b.H-lower-storage", "b.interleaved", "c.W-observed", "c.frame-identity-checked",
                     "c.conelp", "c.coneqp", "c.cpl", "c.cp", "c.gp", "c.gp-steep", "c.nl.frame-identity-checked", "c.nl.W-observed-right-after-restore", "c.nl.injected-factor-failure-in-relaxed-series.q-block"]


def plan(tier):
    if tier == "thorough":
        return [{"variant": "plain", "workers": 16, "cases": 5000}]
    return [{"variant": "plain", "workers": 16, "cases": 90}]


def run(ctx):
    import sys
    import numpy as np
    from cvxopt import matrix, spmatrix, misc, solvers
    from vlib.oracle import cone, certs
    from vlib.oracle.cone import Dims, matL, vecF
    from vlib.gen import coneprob as gp
    from vlib import solverun as sr, solve_cases as sc
    from vlib.conv import to_matrix, to_np, vec

    def gen_dims(rng, mnl_ok=True):
        d = gp.gen_dims(rng)
        if mnl_ok and rng.random() < 0.3:
            d = Dims(d.l, d.q, d.s, mnl=rng.randint(1, 3))
        return d

    def lam_unpacked(lm, dims):
        """lambda (diag storage for 's') -> unpacked vector"""
        lm = np.asarray(lm, dtype=float)
        out = np.zeros(dims.N)
        nd = dims.mnl + dims.l + sum(dims.q)
        out[:nd] = lm[:nd]
        i, j = nd, nd
        for m in dims.s:
            out[j:j + m * m] = vecF(np.diag(lm[i:i + m])); i += m; j += m * m
        return out

    def W_norms(Wn):
        wd = cone.W_dims(Wn)
        if wd.N == 0:
            return 1.0, 1.0
        Pk_, Uk_ = sr.pack_unpack_mats(wd)
        M = Pk_ @ cone.W_matrix(Wn) @ Uk_          # isometric packed coordinates
        sv = np.linalg.svd(M, compute_uv=False)
        return float(sv[0]), float(1.0 / sv[-1]) if sv[-1] > 0 else float("inf")

    def check_scaling(c, W, s, z, lmbda, dims, key, tol=1e-9, tag=""):
        """documented invariants + W z = W^-T s = lambda, relative to the norms of the factors"""
        Wn = cone.npW(W)
        bad, meas = cone.check_W_invariants(Wn, tol=tol)
        for k, v in meas.items():
            ctx.maxobs("W-invariant%s.%s" % (tag, k), v)
        c.check()
        for b in bad:
            c.fail("%s:%s" % (key, b[0]), "scaling invariant violated: %s (measured %r)" % b)
        if bad:
            return False
        wd = cone.W_dims(Wn)
        if not c.require((wd.mnl, wd.l, wd.q, wd.s) == (dims.mnl, dims.l, dims.q, dims.s), key + ":W-dims",
                         "W has the wrong block structure"):
            return False
        if dims.N == 0:
            return True
        nW, nWi = W_norms(Wn)
        lu = lam_unpacked(lmbda[:dims.cdim_diag], dims)
        a = cone.W_apply(Wn, cone.symmetrize(s, dims), "T", "I")
        b = cone.W_apply(Wn, cone.symmetrize(z, dims), "N", "N")
        ea = float(np.linalg.norm(a - lu)) / max(nWi * cone.snrm2(s, dims), 1e-300)
        eb = float(np.linalg.norm(b - lu)) / max(nW * cone.snrm2(z, dims), 1e-300)
        ctx.maxobs("relerr%s.W^-T s - lambda" % tag, ea)
        ctx.maxobs("relerr%s.W z - lambda" % tag, eb)
        ok = c.require(ea <= tol and eb <= tol, key + ":Wz=W^-Ts=lambda",
                       "W z = W^-T s = lambda violated: rel err %.3g (W^-T s), %.3g (W z)" % (ea, eb))
        # the same contract through the library's own applicator: misc.scale(z, W) and misc.scale(s, W, 'T', 'I') are how a
        # caller obtains W z and W^-T s from the dictionary (all four flag pairs are applied to both vectors)
        if ok and key.startswith(("compute_scaling", "update_scaling")):
            for vec_, nm in ((z, "z"), (s, "s")):
                for tr in ("N", "T"):
                    for inv in ("N", "I"):
                        xm = to_matrix(cone.symmetrize(vec_, dims))
                        misc.scale(xm, W, trans=tr, inverse=inv)
                        want = cone.W_apply(Wn, cone.symmetrize(vec_, dims), tr, inv)
                        got = cone.symmetrize(np.array(list(xm), dtype=float), dims)
                        er = float(np.linalg.norm(got - want)) / max((nWi if inv == "I" else nW) * cone.snrm2(vec_, dims), 1e-300)
                        ctx.count("a.scale-applied-to-W")
                        if not c.require(er <= tol, key + ":misc.scale-disagrees-with-W",
                                         "misc.scale(%s, W, trans=%r, inverse=%r) differs from the operator defined by W: rel err %.3g" % (nm, tr, inv, er)):
                            return False
        # lambda itself must be in the cone (it is the scaled point)
        return ok

    # ------------------------------------------------------------------ (a)
    def mon_a(c):
        rng = c.rng
        dims = gen_dims(rng)
        dd = dims.asdict()
        mnl = dims.mnl
        s = cone.random_interior(rng, dims, 0.2, 2.0, junk=rng.random() < 0.3)
        z = cone.random_interior(rng, dims, 0.2, 2.0, junk=rng.random() < 0.3)
        lm = matrix(0.0, (dims.cdim_diag + 1, 1))
        sm = to_matrix(s) if dims.N else matrix(0.0, (0, 1))
        zm = to_matrix(z) if dims.N else matrix(0.0, (0, 1))
        W = misc.compute_scaling(sm, zm, lm, dd, mnl if mnl else None)
        ctx.count("a.compute")
        c.require(np.array_equal(vec(sm), s) and np.array_equal(vec(zm), z), "compute_scaling:arguments-modified", "s or z changed")
        if not check_scaling(c, W, s, z, np.array(list(lm)), dims, "compute_scaling"):
            return
        nsteps = rng.choice([1, 2, 3, 5, 10, 20, 30])
        mode = rng.choice(["random", "converging"])
        cur_s, cur_z = cone.symmetrize(s, dims), cone.symmetrize(z, dims)
        for step in range(nsteps):
            Wn = cone.npW(W)
            if mode == "random":
                # a bounded move (convex combination with a fresh interior point), like successive
                # interior-point iterates; unrelated jumps compound rounding over 30 updates far
                # beyond anything a solve produces
                al = rng.uniform(0.1, 0.7)
                ns = (1 - al) * cur_s + al * cone.symmetrize(cone.random_interior(rng, dims, 0.2, 2.0), dims)
                al = rng.uniform(0.1, 0.7)
                nz = (1 - al) * cur_z + al * cone.symmetrize(cone.random_interior(rng, dims, 0.2, 2.0), dims)
            else:
                # move towards a complementary pair but stay interior (margin shrinks by ~0.6 per step)
                t = max(0.6, 1e-5 ** (1.0 / nsteps))      # overall margin shrink capped at 1e-5
                e = cone.identity(dims)
                ns = cur_s * rng.uniform(0.8, 1.2); nz = cur_z * t
                if rng.random() < 0.5:
                    ns, nz = cur_s * t, cur_z * rng.uniform(0.8, 1.2)
            # the documented inputs of update_scaling: new iterates in the CURRENT scaling
            st = cone.W_apply(Wn, ns, "T", "I")
            zt = cone.W_apply(Wn, nz, "N", "N")
            for kind, a, m in dims.blocks():
                if kind == "s" and m:
                    for arr in (st, zt):
                        M = matL(arr[a:a + m * m], m)
                        M = (M + M.T) / 2
                        try:
                            L = np.linalg.cholesky(M)
                        except np.linalg.LinAlgError:
                            ctx.count("a.skipped-not-pd"); return
                        if rng.random() < 0.5:     # any square factor is a valid input
                            Q, _ = np.linalg.qr(np.array([[rng.gauss(0, 1) for _ in range(m)] for _ in range(m)]))
                            L = L @ Q
                        arr[a:a + m * m] = vecF(L)
            sm2 = to_matrix(st) if dims.N else matrix(0.0, (0, 1))
            zm2 = to_matrix(zt) if dims.N else matrix(0.0, (0, 1))
            misc.update_scaling(W, lm, sm2, zm2)
            ctx.count("a.update")
            tol = 1e-9
            if mode == "converging":
                nW, nWi = W_norms(cone.npW(W))
                tol = 1e-9 * max(1.0, min(nW * nWi, 1e6) ** 0.5)
            if not check_scaling(c, W, ns, nz, np.array(list(lm)), dims, "update_scaling", tol=tol, tag="." + mode):
                c.desc.update({"step": step, "mode": mode})
                return
            cur_s, cur_z = ns, nz
        if nsteps >= 10:
            ctx.count("a.history>=10")
        c.cls("a", dims.shape_class(), mode, "n%d" % nsteps)

    # ------------------------------------------------------------------ (b)
    def gen_W(rng, dims):
        s = cone.random_interior(rng, dims, 0.2, 2.0)
        z = cone.random_interior(rng, dims, 0.2, 2.0)
        lm = matrix(0.0, (dims.cdim_diag + 1, 1))
        sm = to_matrix(s) if dims.N else matrix(0.0, (0, 1))
        zm = to_matrix(z) if dims.N else matrix(0.0, (0, 1))
        return misc.compute_scaling(sm, zm, lm, dims.asdict(), dims.mnl if dims.mnl else None)

    def mon_b(c):
        rng = c.rng
        name = ["ldl", "ldl2", "chol", "chol2", "qr"][(c.k + ctx.worker) % 5]
        for _ in range(30):
            if name == "chol2":
                dims = Dims(rng.randint(0, 6), [], [], mnl=rng.choice([0, 0, 1, 2]))
            elif name == "qr":
                dims = gp.gen_dims(rng)
            else:
                dims = gen_dims(rng)
            n = rng.randint(1, 6); p = min(rng.choice([0, 1, 1, 2]), n)
            withH = name != "qr" and rng.random() < 0.5
            r = rng.choice([1, n, n]) if withH else 0
            if dims.Np + p + r < n:
                continue
            if name == "qr" and dims.Np + p < n:
                continue
            break
        else:
            ctx.count("generator.none"); return
        structural = name != "qr" and rng.random() < 0.3
        dropped = []
        if structural:
            # genuinely sparse pattern (structural zeros, n up to 12): sparse Cholesky orderings become non-trivial
            n = rng.randint(5, 12); p = rng.randint(0, 3); extra = rng.randint(1, n // 2 + 1)
            dims = Dims(n + extra)
            ctx.count("b.structurally-sparse")
            if rng.random() < 0.4:
                # ... and G'W^-2 G singular: some variables occur in no inequality row, only in (sparse) equality rows,
                # so that the pattern of A'A is NOT contained in the pattern of G'G (kkt_chol2's S + A'A fall-back)
                kdrop = rng.randint(1, 3)
                dropped = rng.sample(range(n), kdrop)
                p = rng.randint(kdrop, kdrop + 1)
                extra = 0
                dims = Dims(n - kdrop + rng.randint(0, 2))
                ctx.count("b.structurally-sparse-singular-S")
        zero_pattern = (not structural) and rng.random() < 0.3
        if zero_pattern:
            ctx.count("b.zero-pattern-in-G")
        mnl = dims.mnl
        cdims = Dims(dims.l, dims.q, dims.s)       # linear part
        # GG = [Df; G] of full column rank together with A and H
        for _ in range(30):
            if structural:
                kept = [i for i in range(n) if i not in dropped]
                rows = [[-1.0 if j == i else 0.0 for j in range(n)] for i in kept]
                for _e in range(dims.l - len(kept)):
                    r_ = [0.0] * n
                    for j in rng.sample(kept, min(len(kept), rng.randint(2, 3))): r_[j] = rng.gauss(0, 1)
                    rows.append(r_)
                rng.shuffle(rows)
                GGp = np.array(rows).reshape(len(rows), n)
                A = np.zeros((p, n))
                for i in range(p):
                    for j in rng.sample(range(n), rng.randint(2, 3)): A[i, j] = rng.gauss(0, 1)
                    if i < len(dropped):
                        A[i, dropped[i]] = rng.choice([-1, 1]) * rng.uniform(0.5, 2.0)
            else:
                GGp = gp.rand_sv_matrix(rng, dims.Np, n)
                A = gp.rand_sv_matrix(rng, p, n, 0.5, 2.0)
                if zero_pattern:
                    # structural zeros in G for ALL cone types (the scaled columns W^-T G[:,k] of 'q' and 's' blocks are
                    # dense although G[:,k] is not): code that relies on the sparsity pattern of G surviving the scaling
                    msk = np.array([[1.0 if rng.random() < 0.5 else 0.0 for _ in range(n)] for _ in range(dims.Np)]).reshape(dims.Np, n)
                    msk[:dims.mnl, :] = 1.0            # the rows of Df stay dense: only G has the pattern
                    if rng.random() < 0.5 and n > 1:
                        msk[dims.mnl:, rng.randrange(n)] = 0.0      # a variable that occurs in no linear inequality (empty column of G)
                    GGp = GGp * msk
            B = gp.rand_sv_matrix(rng, n, r, 0.5, 2.0) if r else np.zeros((n, 0))
            stack = np.vstack([B.T, GGp, A])
            if stack.shape[0] >= n and np.linalg.svd(stack, compute_uv=False)[-1] >= 0.2 and \
                    (p == 0 or np.linalg.svd(A, compute_uv=False)[-1] >= 0.2):
                break
        else:
            ctx.count("generator.none"); return
        GG = gp.unpack_iso(GGp, dims)
        Df, G = GG[:mnl], GG[mnl:]
        H = B @ B.T if withH else None
        sparse = rng.random() < 0.4 or structural or (zero_pattern and rng.random() < 0.8)
        if withH and structural:
            H = np.diag(np.diag(H))          # keep S = H + G'W^-2 G sparse
            if np.linalg.svd(np.vstack([np.sqrt(np.abs(H)), GGp, A]), compute_uv=False)[-1] < 0.2:
                H = None; withH = False
        Gm, Am = sr.mk(G, sparse), sr.mk(A, sparse and rng.random() < 0.6)
        Dfm = sr.mk(Df, sparse and rng.random() < 0.5) if mnl else None
        Hstore = H
        if withH and not structural and rng.random() < 0.6:
            # "only the lower triangular part of H is referenced" (solvers.rst, coneprog.rst): the strict upper
            # triangle holds zeros or unrelated numbers
            Hstore = np.tril(H)
            if rng.random() < 0.6:
                Hstore = Hstore + np.triu(np.array([[rng.uniform(-50, 50) for _ in range(n)] for _ in range(n)]), 1)
            ctx.count("b.H-lower-storage")
        Hm = sr.mk(Hstore, sparse and rng.random() < 0.5) if withH else None
        imgs = [to_np(Gm).copy(), to_np(Am).copy()]
        try:
            if name == "qr":
                factory = misc.kkt_qr(Gm, cdims.asdict(), Am)
            else:
                factory = getattr(misc, "kkt_" + name)(Gm, cdims.asdict(), Am, mnl)
        except Exception as e:
            c.check(); c.fail("kkt_%s:factory-exception" % name, "%s: %s" % (type(e).__name__, e)); return
        ctx.count("b." + name)
        if sparse: ctx.count("b.sparse")
        if mnl: ctx.count("b.mnl")
        if withH: ctx.count("b.H")
        singular_branch = name == "chol2" and p > 0 and not withH and dims.Np < n
        if singular_branch: ctx.count("b.chol2.singular-branch")
        # optional second factory interleaved (own state must not interfere)
        other = None
        if rng.random() < 0.3:
            G2 = gp.unpack_iso(gp.rand_sv_matrix(rng, cdims.Np, n), cdims)
            try:
                if name == "qr":
                    other = misc.kkt_qr(sr.mk(G2), cdims.asdict(), Am)
                else:
                    other = getattr(misc, "kkt_" + name)(sr.mk(G2), cdims.asdict(), Am, mnl)
                ctx.count("b.interleaved")
            except Exception:
                other = None
        nfac = rng.choice([1, 2, 3, 4])
        Pk, Uk = sr.pack_unpack_mats(dims)
        for fi in range(nfac):
            W = gen_W(rng, dims)
            Wn = cone.npW(W)
            try:
                if name == "qr":
                    solve = factory(W)
                else:
                    solve = factory(W, Hm, Dfm) if (withH or mnl) else (factory(W) if rng.random() < 0.5 else factory(W, None, None))
            except ArithmeticError as e:
                c.check(); c.fail("kkt_%s:ArithmeticError-on-well-posed" % name,
                                  "factor raised ArithmeticError on a full-rank system: %s" % e); return
            if fi >= 1 and name == "chol2": ctx.count("b.chol2.refactor")
            if other is not None:
                try:
                    other(gen_W(rng, dims), Hm, Dfm) if name != "qr" else other(gen_W(rng, dims))
                except ArithmeticError:
                    pass
            Wm = cone.W_matrix(Wn); Wp = Pk @ Wm @ Uk
            nW, nWi = W_norms(Wn)
            for si in range(rng.choice([1, 2, 3])):
                bx = np.array([rng.gauss(0, 1) for _ in range(n)])
                by = np.array([rng.gauss(0, 1) for _ in range(p)])
                bz = cone.random_vector(rng, dims, symmetric=rng.random() < 0.5)
                x, y = to_matrix(bx), (to_matrix(by) if p else matrix(0.0, (0, 1)))
                z = to_matrix(bz) if dims.N else matrix(0.0, (0, 1))
                try:
                    solve(x, y, z)
                except ArithmeticError as e:
                    c.check(); c.fail("kkt_%s:solve-ArithmeticError" % name, str(e)); return
                ux, uy = vec(x), vec(y)
                wz = cone.symmetrize(vec(z), dims)            # W*uz, 'L' storage
                wzp = Pk @ wz
                uzp = np.linalg.solve(Wp, wzp) if dims.Np else wzp
                bzp = Pk @ bz
                r1 = (H @ ux if withH else 0) + A.T @ uy + GGp.T @ uzp - bx
                r2 = A @ ux - by
                r3 = GGp @ ux - Wp.T @ wzp - bzp
                sc1 = (np.linalg.norm(H) if withH else 0) * np.linalg.norm(ux) + np.linalg.norm(A) * np.linalg.norm(uy) + \
                    np.linalg.norm(GGp) * np.linalg.norm(uzp) + np.linalg.norm(bx)
                sc2 = np.linalg.norm(A) * np.linalg.norm(ux) + np.linalg.norm(by)
                sc3 = np.linalg.norm(GGp) * np.linalg.norm(ux) + nW * np.linalg.norm(wzp) + np.linalg.norm(bzp)
                errs = [float(np.linalg.norm(r1)) / max(sc1, 1e-300), float(np.linalg.norm(r2)) / max(sc2, 1e-300),
                        float(np.linalg.norm(r3)) / max(sc3, 1e-300)]
                ctx.maxobs("kkt-residual." + name, max(errs))
                c.require(max(errs) <= 1e-9, "kkt_%s:block-system-residual" % name,
                          "residual of the documented block system: %r (relative)" % (errs,), factor_call=fi, solve_call=si)
                # agreement with the oracle's dense solve of the same system
                K = np.zeros((n + p + dims.Np,) * 2)
                if withH: K[:n, :n] = H
                K[:n, n:n + p] = A.T; K[n:n + p, :n] = A
                K[:n, n + p:] = GGp.T; K[n + p:, :n] = GGp
                K[n + p:, n + p:] = -Wp.T @ Wp
                ref = np.linalg.solve(K, np.concatenate([bx, by, bzp]))
                got = np.concatenate([ux, uy, uzp])
                e2 = float(np.linalg.norm(got - ref)) / max(float(np.linalg.norm(ref)), 1e-300)
                ctx.maxobs("kkt-solution-vs-dense." + name, e2 / max(np.linalg.cond(K), 1.0))
                c.require(e2 <= 1e-10 * max(np.linalg.cond(K), 10.0), "kkt_%s:solution" % name,
                          "solution differs from the dense solve: rel %.3g (cond %.3g)" % (e2, np.linalg.cond(K)))
        c.require(np.array_equal(to_np(Gm), imgs[0]) and np.array_equal(to_np(Am), imgs[1]), "kkt_%s:G-or-A-modified" % name,
                  "factory modified G or A")
        c.cls("b", name, dims.shape_class(), "sp" if sparse else "de", "H" if withH else "", "nf%d" % nfac,
              "sing" if singular_branch else "", "inter" if other else "")

    # ------------------------------------------------------------------ (c)
    def mon_c(c):
        rng = c.rng
        entry = rng.choice(["conelp", "coneqp"])
        if entry == "conelp":
            pr = sc.gen_instance(rng, "conelp", rng.choice(["feasible", "feasible", "pinf", "dinf"]))
        else:
            pr = sc.gen_qp_instance(rng, "coneqp")
        if pr is None:
            ctx.count("generator.none"); return
        d = pr.dims
        names = ["ldl", "ldl2", "chol"] + (["qr"] if entry == "conelp" else [])
        nm = rng.choice(names)
        sparse = rng.random() < 0.3
        args = sr.cvx_args(pr, rng, sparseG=sparse)
        fac = getattr(misc, "kkt_" + nm)(args["G"], args["dims"], args["A"])
        seen = {"n": 0, "frame": 0}

        def kkt(W):
            seen["n"] += 1
            ctx.count("c.W-observed")
            fr = sys._getframe(1)
            loc = fr.f_locals
            Wn = cone.npW(W)
            bad, meas = cone.check_W_invariants(Wn, tol=1e-9)
            for k_, v_ in meas.items():
                ctx.maxobs("W-invariant-in-solve." + ("after-20-updates." if seen["n"] > 20 else "") + k_, v_)
            c.check()
            if seen["n"] > 20:
                # update_scaling propagates the deviation from v'Jv = 1 (r'rti = I) of the scaling it is given and amplifies
                # it by a factor ~1.65 per update even for well-conditioned scalings (traced on thorough seed 41 worker 5 case
                # 2433: 3e-16 at update 1, 1.3e-9 at update 30, 7.8e-8 at update 39 with v'v <= 1.8).  Solves of ordinary
                # length never get near 1e-9; a deviation that first appears after more than 20 updates is reported under
                # its own mechanism key (recorded finding), any deviation in the first 20 updates under the plain key.
                ctx.count("c.scalings-after-20-updates")
                for b in bad:
                    c.fail("in-solve-drift-after-20-updates:%s:%s" % (entry, b[0]), "W handed to kktsolver violates invariant %s (%r) at call %d" % (b[0], b[1], seen["n"]))
                if bad or seen["n"] > 40:
                    return fac(W, args["P"]) if entry == "coneqp" else fac(W)
            else:
              for b in bad:
                c.fail("in-solve:%s:%s" % (entry, b[0]), "W handed to kktsolver violates invariant %s (%r) at call %d" % (b[0], b[1], seen["n"]))
            if "iters" in loc and "lmbda" in loc and "s" in loc and "z" in loc and not bad:
                s_, z_, lm_ = vec(loc["s"]), vec(loc["z"]), np.array(list(loc["lmbda"]))
                if len(s_) == d.N and len(lm_) >= d.cdim_diag:
                    nW, nWi = W_norms(Wn)
                    lu = lam_unpacked(lm_[:d.cdim_diag], d)
                    a = cone.W_apply(Wn, cone.symmetrize(s_, d), "T", "I")
                    b_ = cone.W_apply(Wn, cone.symmetrize(z_, d), "N", "N")
                    ea = float(np.linalg.norm(a - lu)) / max(nWi * cone.snrm2(s_, d), 1e-300)
                    eb = float(np.linalg.norm(b_ - lu)) / max(nW * cone.snrm2(z_, d), 1e-300)
                    ctx.maxobs("in-solve.relerr.W^-T s - lambda", ea)
                    ctx.maxobs("in-solve.relerr.W z - lambda", eb)
                    seen["frame"] += 1
                    ctx.count("c.frame-identity-checked")
                    c.require(ea <= 1e-7 and eb <= 1e-7, "in-solve:%s:Wz=W^-Ts=lambda" % entry,
                              "iteration %r: W z = W^-T s = lambda violated: %.3g, %.3g" % (loc.get("iters"), ea, eb))
            if entry == "coneqp":
                return fac(W, args["P"])
            return fac(W)
        opts = {"show_progress": False}
        if rng.random() < 0.3:
            opts["refinement"] = rng.choice([0, 1, 2])
        start = rng.choice(["none", "none", "both", "primal", "dual"])
        ps = ds = None
        if start != "none" and pr.kind == "feasible":
            ps, ds, _, _ = sr.start_dicts(entry, pr, start, rng)
        sol, inner, exc = sr.call_entry(entry, pr, args, kktsolver=kkt, ps=ps, ds=ds, options=opts)
        ctx.count("c." + entry)
        c.desc.update({"entry": entry, "dims": d.key(), "kkt": nm, "W-seen": seen["n"], "exc": repr(exc) if exc else None,
                       "status": sol.get("status") if sol else None})
        c.cls("c", entry, d.shape_class(), nm, start, sol.get("status") if sol else "exception")

    # ------------------------------------------------------------------ (c) nonlinear solvers
    from vlib.gen import nlprob as nl
    from vlib import linemon
    from cvxopt import cvxprog
    bm = linemon.BranchMonitor(cvxprog.cpl, linemon.CPL_MARKERS)
    bm_on = bm.start()
    for m_ in bm.missing:
        ctx.count("c.cpl-branch-marker-not-found." + m_)

    def mon_c_nl(c):
        """cpl / cp / gp with a user kktsolver that delegates to a built-in factory: every W handed to it must satisfy the
        documented invariants, and the solver's own s, z, lmbda (read-only frame peek) must satisfy W z = W^-T s = lmbda -
        also right after cpl restored a saved line-search state (steep geometric programs reach those branches)."""
        rng = c.rng
        entry = rng.choice(["cpl", "cp", "gp", "gp"])
        steep = entry == "gp" and rng.random() < 0.75
        pr = nl.gen_cpl(rng) if entry == "cpl" else nl.gen_gp(rng, steep=steep) if entry == "gp" else nl.gen_cp(rng)
        d = pr.dims
        mnl_user = len(pr.funcs) - (0 if entry == "cpl" else 1)
        nm = rng.choice(["ldl", "ldl2", "chol"])
        spG = rng.random() < 0.3
        Gm, Am = sr.mk(pr.G, spG), sr.mk(pr.A)
        fac = getattr(misc, "kkt_" + nm)(Gm, d.asdict(), Am, mnl_user)
        log = []
        F = pr.make_F(log)
        seen = {"n": 0, "frame": 0}

        inject = rng.random() < 0.5

        def kkt(x, z, W):
            seen["n"] += 1
            ctx.count("c.W-observed")
            ctx.count("c.nl.W-observed")
            if inject and not seen.get("injected"):
                # one-shot failure of the factorization while a series of relaxed line searches is open: cpl restores the
                # saved state and calls the kktsolver again - with a scaling that must match the restored s, z, lmbda
                fr_ = sys._getframe(1)
                dp_ = 0
                while fr_ is not None and fr_.f_code.co_name != "cpl" and dp_ < 6:
                    fr_ = fr_.f_back; dp_ += 1
                if fr_ is not None and fr_.f_code.co_name == "cpl":
                    ri_ = fr_.f_locals.get("relaxed_iters")
                    if isinstance(ri_, int) and 0 < ri_ < 8 and fr_.f_locals.get("iters", 0) > 0:
                        seen["injected"] = seen["n"]
                        ctx.count("c.nl.injected-factor-failure-in-relaxed-series")
                        if d.q: ctx.count("c.nl.injected-factor-failure-in-relaxed-series.q-block")
                        raise ArithmeticError("injected")
            if seen.get("injected") == seen["n"] - 1:
                ctx.count("c.nl.W-observed-right-after-restore")
            Wn = cone.npW(W)
            f_, Df_, H_ = F(x, z)
            solve = fac(W, H_, Df_ if entry == "cpl" else Df_[1:, :])
            bad, meas = cone.check_W_invariants(Wn, tol=1e-9)
            for k_, v_ in meas.items():
                ctx.maxobs("W-invariant-in-nl-solve." + ("after-20-updates." if seen["n"] > 20 else "") + k_, v_)
            c.check()
            if seen["n"] > 20:
                ctx.count("c.scalings-after-20-updates")
                for b in bad:
                    c.fail("in-solve-drift-after-20-updates:%s:%s" % (entry, b[0]), "W handed to kktsolver violates invariant %s (%r) at call %d" % (b[0], b[1], seen["n"]))
                if bad or seen["n"] > 40:
                    return solve
            c.require(len(Wn.get("dnl", ())) == mnl_user and len(Wn.get("dnli", ())) == mnl_user, "in-solve:%s:W-dnl-length" % entry,
                      "W['dnl'] handed to the user kktsolver has length %d, mnl is %d" % (len(Wn.get("dnl", ())), mnl_user))
            for b in bad:
                c.fail("in-solve:%s:%s" % (entry, b[0]), "W handed to kktsolver violates invariant %s (%r) at call %d" % (b[0], b[1], seen["n"]))
            # the solver's own iterates: frame of cpl (directly above for cpl, above cp's kktsolver_e otherwise)
            fr = sys._getframe(1)
            depth = 0
            while fr is not None and fr.f_code.co_name != "cpl" and depth < 6:
                fr = fr.f_back; depth += 1
            if fr is None or fr.f_code.co_name != "cpl" or bad:
                return solve
            loc = fr.f_locals
            if not all(k_ in loc for k_ in ("s", "z", "lmbda", "W", "mnl", "dims")):
                return solve
            Wf = cone.npW(loc["W"])
            if entry != "cpl":
                # what the user sees must be the solver's scaling without the epigraph component
                same = (np.array_equal(Wf["dnl"][1:], Wn["dnl"]) and np.array_equal(Wf["dnli"][1:], Wn["dnli"]) and
                        np.array_equal(Wf["d"], Wn["d"]) and all(np.array_equal(a_, b_) for a_, b_ in zip(Wf["r"], Wn["r"])))
                c.require(same, "in-solve:%s:user-W-differs-from-solver-W" % entry, "W handed to the user kktsolver is not the solver's W minus the epigraph row")
                badf, _ = cone.check_W_invariants(Wf, tol=1e-9)
                for b in badf:
                    c.fail("in-solve:%s:full-%s" % (entry, b[0]), "cpl's own scaling violates invariant %s (%r) at call %d" % (b[0], b[1], seen["n"]))
                if badf:
                    return solve
            df = cone.W_dims(Wf)
            s_, z_, lm_ = vec(loc["s"]), vec(loc["z"]), np.array(list(loc["lmbda"]))
            if len(s_) == df.N and len(lm_) >= df.cdim_diag:
                nW, nWi = W_norms(Wf)
                lu = lam_unpacked(lm_[:df.cdim_diag], df)
                a = cone.W_apply(Wf, cone.symmetrize(s_, df), "T", "I")
                b_ = cone.W_apply(Wf, cone.symmetrize(z_, df), "N", "N")
                ea = float(np.linalg.norm(a - lu)) / max(nWi * cone.snrm2(s_, df), 1e-300)
                eb = float(np.linalg.norm(b_ - lu)) / max(nW * cone.snrm2(z_, df), 1e-300)
                ctx.maxobs("in-nl-solve.relerr.W^-T s - lambda", ea)
                ctx.maxobs("in-nl-solve.relerr.W z - lambda", eb)
                seen["frame"] += 1
                ctx.count("c.frame-identity-checked")
                ctx.count("c.nl.frame-identity-checked")
                c.require(ea <= 1e-7 and eb <= 1e-7, "in-solve:%s:Wz=W^-Ts=lambda" % entry,
                          "iteration %r (relaxed_iters %r): W z = W^-T s = lambda violated: %.3g, %.3g" % (loc.get("iters"), loc.get("relaxed_iters"), ea, eb))
            return solve
        opts = {"show_progress": False}
        if rng.random() < 0.3:
            opts["refinement"] = rng.choice([0, 1, 2])
        bm.take()
        sol = exc = None
        try:
            if entry == "cpl":
                sol = solvers.cpl(sr.mk(pr.c), F, Gm, sr.mk(pr.h), d.asdict(), Am, sr.mk(pr.b), kktsolver=kkt, options=opts)
            else:
                sol = solvers.cp(F, Gm, sr.mk(pr.h), d.asdict(), Am, sr.mk(pr.b), kktsolver=kkt, options=opts)
        except (ValueError, ArithmeticError) as e:
            exc = e
        for k_, v_ in bm.take().items():
            ctx.count("c.cpl-branch." + k_)
            if steep: ctx.count("c.cpl-branch.steep-gp." + k_)
        ctx.count("c." + entry)
        if steep: ctx.count("c.gp-steep")
        ctx.count("c.nl-status.%s" % (sol.get("status") if sol else "exception"))
        c.desc.update({"entry": entry, "family": pr.family, "dims": d.key(), "kkt": nm, "W-seen": seen["n"], "exc": repr(exc) if exc else None,
                       "status": sol.get("status") if sol else None})
        c.cls("c", entry, pr.family, d.shape_class(), nm, sol.get("status") if sol else "exception")

    def one(c):
        m = (c.k + ctx.worker) % 3
        c.desc["monitor"] = "abc"[m]
        if m == 2 and c.rng.random() < 0.4:
            c.desc["monitor"] = "c-nl"
            mon_c_nl(c)
        else:
            [mon_a, mon_b, mon_c][m](c)
        if c.k < 3:
            ctx.sample(dict(c.desc))

    for k in ctx.cases():
        ctx.run_case(k, {}, one)
    bm.stop()
