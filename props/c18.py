"""C18  LAPACK wrappers return results that satisfy their defining equations.

Every one of the 60 functions of cvxopt.lapack is called on generated,
well-conditioned (cond <= 1e3) or exactly singular inputs; the result is judged
with numpy against the ORIGINAL inputs by the equation the manual gives for the
routine (doc/source/lapack.rst, docstrings).  Matrices are either 'natural'
(exact shape, all optional size arguments defaulted) or 'embedded' (flat buffer
pre-filled with a bit pattern, explicit sizes / leading dimensions / offsets);
bytes outside the addressed block are compared before/after.  Before a valid
embedded call, a size-inconsistent variant of the same call is tried on copies
and must raise TypeError/ValueError leaving its arguments bit-identical."""
import math

LEVEL = "exploration"
TECHNIQUE = "randomised differential testing against the defining equations (numpy), footprint canaries, negative-argument mutation"
LEVEL_TEXT = ("every cvxopt.lapack function exercised on random well-conditioned and constructed singular inputs over "
              "orders 0..8, nrhs 0..3, 'd'/'z', all option letters, band widths, leading dimensions and offsets; "
              "no proof of absence beyond the explored cases")
RULE = ("each case = one routine family (driver, factor/solve/invert chain) on generated (typecode, sizes, options, "
        "storage mode, data); judged by residual/orthogonality/ordering equations on the original data, "
        "bit-identity of unaddressed bytes and of arguments after rejected calls. "
        "distinct = family x typecode x option letters x size class x storage mode")
ASSUMPTIONS = [
    "numpy (own bundled OpenBLAS) is the reference linear algebra; generators keep 2-norm condition numbers <= 1e3",
    "contents of unreferenced triangles, band corners, workspace rows (gbtrf/gbsv fill rows), destroyed inputs and "
    "W/Z/U/Vt columns beyond the returned count are unspecified and not compared",
    "elementary reflectors use the LAPACK Users' Guide storage (v(i)=1 implicit, Q = H1..Hk for QR, Q = Hk^H..H1^H for LQ)",
    "size-inconsistent variants are only tried when all dimensions of the call are positive (zero dimensions require nothing); in half of "
    "those calls the one-element-too-short variant is tried for every buffer argument in turn",
    "a quarter of the embedded matrix operands are 'host' matrices: the block is the top-left corner of a 2-D matrix with more rows and the "
    "ld keyword is omitted, so that the documented default max(1, X.size[0]) addresses it",
    "invalid option letters are not part of the property and are not tried",
    "gges with a select call-back: the sign of the diagonal of T / of b after the reordering is left to the reference "
    "LAPACK (it is only demanded without select)",
    "a buffer of exactly offset + (cols-1)*ld + rows elements (band: + band rows) holds the addressed block "
    "(DESIGN.md Appendix B); a call that is rejected although all its buffers satisfy this is reported",
]

FUNCS = ("getrf getrs getri gesv gbtrf gbtrs gbsv gttrf gttrs gtsv potrf potrs potri posv pbtrf pbtrs pbsv pttrf "
         "pttrs ptsv sytrf hetrf sytrs hetrs sytri hetri sysv hesv trtrs trtri tbtrs gels geqrf ormqr unmqr orgqr "
         "ungqr gelqf ormlq unmlq orglq unglq geqp3 syev heev syevx heevx syevd heevd syevr heevr sygv hegv gesvd "
         "gesdd gees gges lacpy larfg larfx").split()
assert len(FUNCS) == 60

REQUIRED_COUNTERS = ["blk.host-default-ld"] + ["fn." + f for f in FUNCS] + [
    "mode.nat", "mode.emb", "tc.d", "tc.z", "order.0", "order.1", "nrhs.0", "nrhs.3",
    "singular.raised", "invalid.rejected", "mut.short", "mut.ld", "mut.negoff", "mut.tci", "mut.flip", "mut.grow",
    "footprint.checked", "unmodified-A.checked", "select.used", "range.I", "range.V", "range.A"]

WATCHDOG = {"quick": 600, "thorough": 3000}


def plan(tier):
    if tier == "thorough":
        return [{"variant": "plain", "workers": 16, "cases": 80000}]
    return [{"variant": "plain", "workers": 8, "cases": 1000}]


# thresholds on the normalised residuals  r = ||R|| / (u * max(1,n) * scale),  u = 2^-53  (i.e. c(n) = THR * n).
# Maxima observed on the unchanged tree over seeds 0,1,2,3,7,12345, both tiers (4.9 million cases):
#   solve 7.4 (hesv)   factor 2.0   inverse 4.0 (potri)   equal 1.7 (hetrs vs hesv, scale includes cond(A))
#   qr 5.1   orth 29 (syevr)   mult 2.2   ls 866 (gels normal equations)   eigval 20 (syevr)   eigvec 20 (syevr)
#   geig 4.2 (sygv)   svd 45 (gesvd)   schur 13 (gees)   aux 8 (larfg)
# every threshold is >= 100 x the maximum; a wrong transpose / triangle / offset / factor 2 gives r >= 1e12.
THR = {
    "solve": 2e3, "factor": 1e3, "inverse": 1e4, "equal": 1e3, "qr": 1e3, "orth": 1e4, "mult": 1e3,
    "ls": 1e6, "eigval": 1e4, "eigvec": 1e4, "geig": 1e4, "svd": 1e4, "schur": 1e4, "aux": 2e3,
}


class Env:
    """everything a family needs (built once per worker inside run())"""
    pass


def make_env(ctx):
    import numpy as np
    from cvxopt import matrix, lapack
    from vlib.oracle import lapackref as R

    E = Env()
    E.np, E.matrix, E.lapack, E.R, E.ctx = np, matrix, lapack, R, ctx
    U = R.U

    def mk(flat, shape, tc):
        conv = {"d": float, "z": complex, "i": int}[tc]
        return matrix([conv(v) for v in flat], shape, tc)

    def flat_of(mat):
        return np.array(list(mat), dtype=R.dtype_of(mat.typecode))

    class Blk:
        """a rows x cols column-major block inside a cvxopt matrix.
        mode 'nat': the matrix IS the block; mode 'emb': flat buffer with ld/offset/slack"""
        def __init__(self, rng, data, tc, mode, name, nooff=False, tcrule="same", ldmin=None, minlen=0):
            data = np.asarray(data, dtype=R.dtype_of(tc))
            if data.ndim == 1:
                data = data.reshape((-1, 1))
            self.rows, self.cols = data.shape
            self.tc, self.mode, self.name, self.tcrule = tc, mode, name, tcrule
            self.ldmin = max(1, self.rows) if ldmin is None else max(1, ldmin)
            self.ldkw = self.offkw = None
            self.hostld = False
            r, cl = self.rows, self.cols
            if mode == "nat":
                self.ld, self.off = max(1, r), 0
                self.req = r * cl
                self.shape = (r, cl)
                L = r * cl
            else:
                self.ld = self.ldmin + rng.choice([0, 0, 1, 3])
                self.off = 0 if nooff else rng.choice([0, 0, 1, 5])
                extra = rng.choice([0, 0, 2, -1, -1])
                self.req = self.off + (cl - 1) * self.ld + r if (r > 0 and cl > 0) else 0
                if r == 0 or cl == 0:
                    extra = -1       # an empty block requires nothing; the buffer is kept generous all the same
                if extra < 0:        # every column padded to the full leading dimension (sub-block of a host matrix)
                    minlen = max(minlen, self.off + cl * self.ld)
                    extra = rng.choice([0, 2])
                L = max(self.req, self.off, minlen) + extra
                self.shape = (L, 1)
                if data.shape[1] >= 1 and r > 0 and name.isupper() and len(name) <= 2 and rng.random() < 0.25:
                    # 'host' variant: the block is the top-left corner of a 2-D matrix with more rows; the ld keyword
                    # is omitted, so the wrapper's default max(1, X.size[0]) must address it (dimensions stay explicit)
                    self.hostld = True
                    self.off = 0
                    self.req = (cl - 1) * self.ld + r
                    hc = max(cl + rng.choice([0, 1]), -(-max(minlen, 1) // self.ld))
                    L = self.ld * hc
                    self.shape = (self.ld, hc)
                    self._omit_off = rng.random() < 0.5
                    ctx.count("blk.host-default-ld")
            self.L = L
            self.idx = (self.off + np.arange(r)[:, None] + self.ld * np.arange(cl)[None, :]).astype(int) \
                if mode == "emb" else (np.arange(r)[:, None] + r * np.arange(cl)[None, :]).astype(int)
            flat = np.full(L, R.pat_of(tc), dtype=R.dtype_of(tc))
            if r and cl:
                flat[self.idx.reshape(-1)] = data.reshape(-1)
            self.mask = np.zeros(L, dtype=bool)
            self.mask[self.idx.reshape(-1)] = True
            self.flat0 = flat
            self.mat = mk(flat, self.shape, tc)
            self.img0 = bytes(memoryview(self.mat))

        def kw(self, ldname=None, offname=None):
            self.ldkw, self.offkw = ldname, offname
            if self.mode == "nat":
                return {}
            d = {}
            if self.hostld:
                self.ldkw = None
                if offname and not self._omit_off:
                    d[offname] = 0
                return d
            if ldname:
                d[ldname] = self.ld
            if offname:
                d[offname] = self.off
            return d

        def flat(self):
            return flat_of(self.mat)

        def get(self):
            f = self.flat()
            if self.rows == 0 or self.cols == 0:
                return np.zeros((self.rows, self.cols), dtype=f.dtype)
            return f[self.idx]

        def vec(self):
            return self.get().reshape(-1, order="F")

        def set(self, data):
            """overwrite the block (used to hand a computed factor to the next routine in fresh storage)"""
            data = np.asarray(data, dtype=R.dtype_of(self.tc)).reshape((self.rows, self.cols))
            conv = {"d": float, "z": complex, "i": int}[self.tc]
            for i in range(self.rows):
                for j in range(self.cols):
                    self.mat[int(self.idx[i, j])] = conv(data[i, j])

        def outside_same(self):
            f = self.flat()
            return f[~self.mask].tobytes() == self.flat0[~self.mask].tobytes()

        def unchanged(self):
            return bytes(memoryview(self.mat)) == self.img0

        def rebase(self):
            """take the current contents as the new reference image"""
            self.flat0 = self.flat()
            self.img0 = bytes(memoryview(self.mat))

    E.Blk = Blk
    E.mk = mk

    def nrm(a):
        return R.fro(a)
    E.nrm = nrm

    def resid(c, fam, key, Rm, scale, n, what, **detail):
        Rm = np.asarray(Rm)
        num = nrm(Rm) if Rm.size else 0.0
        if Rm.size and not np.all(np.isfinite(Rm)):
            r = float("inf")
        elif num == 0.0:
            r = 0.0
        elif scale <= 0 or not math.isfinite(scale):
            r = float("inf")
        else:
            r = num / (U * max(1, n) * scale)
        ctx.maxobs("r." + fam + "." + key.split(":")[0], r)
        ctx.maxobs("R." + fam, r)
        return c.require(r <= THR[fam], key, "%s: normalised residual %.3g > %.3g (n=%d)" % (what, r, THR[fam], n),
                         residual_norm=num, scale=scale, **detail)
    E.resid = resid

    def foot(c, fname, *blks):
        for b in blks:
            if b is None:
                continue
            ctx.count("footprint.checked")
            c.require(b.outside_same(), "%s:footprint" % fname,
                      "%s modified %s outside the addressed block (ld=%d, offset=%d, %dx%d)" %
                      (fname, b.name, b.ld, b.off, b.rows, b.cols), before=b.flat0, after=b.flat())
    E.foot = foot

    def untouched(c, fname, key, *blks):
        for b in blks:
            if b is None:
                continue
            c.require(b.unchanged(), "%s:%s" % (fname, key), "%s changed argument %s" % (fname, b.name),
                      before=b.flat0, after=b.flat())
    E.untouched = untouched

    def dims(mode, **kw):
        return dict(kw) if mode == "emb" else {}
    E.dims = dims

    # ------------------------------------------------------------------
    # calls: valid call + (sometimes) one size-inconsistent variant first
    # ------------------------------------------------------------------
    def _clone(b):
        return mk(b.flat(), b.shape, b.tc)

    def _try_invalid(c, fname, args, kw, grow):
        rng = c.rng
        blks = [a for a in args if isinstance(a, Blk)] + [v for v in kw.values() if isinstance(v, Blk)]
        if not blks or any(b.mode != "emb" or b.hostld for b in blks):
            return
        same = [b for b in blks if b.tcrule == "same" and b.tc in "dz"]
        cands = []
        for b in blks:
            if b.req >= 1:
                cands.append(("short", b))
            if b.ldkw and b.ldmin >= 2:
                cands.append(("ld", b))
            if b.offkw:
                cands.append(("negoff", b))
            cands.append(("tci", b))
            if b.tc in "dz" and (b.tcrule == "fixed" or (b.tcrule == "same" and len(same) >= 2)):
                cands.append(("flip", b))
        for g in grow:
            if g in kw:
                cands.append(("grow", g))
        if not cands:
            return
        kinds = sorted(set(k for k, _ in cands))
        kind = rng.choice(kinds)
        kind, tgt = rng.choice([cd for cd in cands if cd[0] == kind])
        todo = [(kind, tgt)]
        if rng.random() < 0.5:
            # the length test of EVERY buffer argument (each wrapper has one hand-written test per buffer and per option
            # value; a single random target per call leaves most (function, option, buffer) triples unvisited)
            todo += [cd for cd in cands if cd[0] == "short" and cd != (kind, tgt)]
            ctx.count("mut.short-sweep")
        for kind, tgt in todo:
            _run_invalid(c, fname, args, kw, blks, kind, tgt)

    def _run_invalid(c, fname, args, kw, blks, kind, tgt):
        copies = {id(b): _clone(b) for b in blks}
        kw2 = dict(kw)
        if kind == "short":
            copies[id(tgt)] = mk(tgt.flat()[:tgt.req - 1], (tgt.req - 1, 1), tgt.tc)
        elif kind == "ld":
            kw2[tgt.ldkw] = tgt.ldmin - 1
        elif kind == "negoff":
            kw2[tgt.offkw] = -1
        elif kind == "tci":
            ntc = "d" if tgt.tc == "i" else "i"
            copies[id(tgt)] = matrix(0, tgt.shape, ntc) if ntc == "i" else matrix(0.0, tgt.shape, "d")
        elif kind == "flip":
            ntc = "z" if tgt.tc == "d" else "d"
            copies[id(tgt)] = mk(np.real(tgt.flat()), tgt.shape, ntc)
        elif kind == "grow":
            kw2[tgt] = kw2[tgt] + 40
        a2 = [copies[id(a)] if isinstance(a, Blk) else a for a in args]
        k2 = {k: (copies[id(v)] if isinstance(v, Blk) else v) for k, v in kw2.items()}
        _trace("invalid-" + kind, fname, args, kw2)
        ctx.count("mut." + kind)
        what = "%s with %s" % (fname, {"short": "buffer of %s one element too short", "ld": "ld of %s below its minimum",
                                       "negoff": "negative offset for %s", "tci": "wrong typecode for %s",
                                       "flip": "typecode of %s flipped d<->z", "grow": "%s increased by 40"}[kind]
                               % (tgt if kind == "grow" else tgt.name))
        # size-inconsistent calls run in the canary only: a wrapper that accepts one may write out of bounds
        outcome, msg, modified = _remote(fname, a2, k2)
        kwshow = {k: v for k, v in kw2.items() if not isinstance(v, Blk)}
        lens = {b.name: {"len": len(copies[id(b)]), "needs": b.req} for b in blks}
        if outcome in ("TypeError", "ValueError"):
            ctx.count("invalid.rejected")
            ctx.count("rej." + fname)
            c.require(not modified, "%s:invalid-%s-args-modified" % (fname, kind),
                      what + ": rejected, but an argument was modified")
            return
        c.check()
        if outcome == "died":
            c.fail("%s:crash-on-invalid-%s" % (fname, kind), what + ": kills the interpreter (%s)" % msg, kwargs=kwshow, buffers=lens)
        elif outcome == "returned":
            _canary_stop(kill=True)        # its heap may be damaged now
            c.fail("%s:invalid-%s-accepted" % (fname, kind), what + ": accepted", kwargs=kwshow, buffers=lens)
        else:
            _canary_stop(kill=True)
            c.fail("%s:invalid-%s-wrong-exception" % (fname, kind),
                   what + ": raised %s (%s) instead of TypeError/ValueError" % (outcome, msg), kwargs=kwshow, buffers=lens)

    # A long-lived forked "canary" child executes, on pickled copies of the arguments, (a) every
    # size-inconsistent call (never run in this process: a wrapper that accepts one writes out of bounds) and
    # (b) the first valid call of every (function, keyword names, typecodes) signature, so that a wrapper
    # that kills the interpreter on a class of calls (e.g. a keyword parsed into a wild pointer) costs one
    # violation per call, not the worker.  When the canary dies the call is reported and skipped here and a
    # new canary is forked.  (select call-backs are not sent.)  Data-dependent crashes of valid calls still
    # take the worker down and are reported by the driver from the journal.
    import os, pickle, faulthandler, signal as _signal
    can = {"pid": None, "fin": None, "fout": None}

    def _canary_start():
        r1, w1 = os.pipe(); r2, w2 = os.pipe()
        ctx.jf.flush()
        pid = os.fork()
        if pid == 0:
            try:
                os.close(w1); os.close(r2)
                faulthandler.disable()
                _signal.alarm(0)
                fin, fout = os.fdopen(r1, "rb"), os.fdopen(w2, "wb")
                while True:
                    try:
                        fname, a, k = pickle.load(fin)
                    except EOFError:
                        break
                    mats = [v for v in list(a) + list(k.values()) if type(v).__name__ == "matrix"]
                    imgs = [bytes(memoryview(v)) for v in mats]
                    out = ["returned", "", False]
                    try:
                        getattr(lapack, fname)(*a, **k)
                    except BaseException as e:
                        out = [type(e).__name__, str(e)[:300], False]
                    out[2] = any(bytes(memoryview(v)) != im for v, im in zip(mats, imgs))
                    pickle.dump(out, fout, protocol=2); fout.flush()
            finally:
                os._exit(0)
        os.close(r1); os.close(w2)
        can["pid"], can["fin"], can["fout"] = pid, os.fdopen(r2, "rb"), os.fdopen(w1, "wb")
        ctx.count("probe.canaries")

    def _canary_stop(kill=False):
        pid = can["pid"]
        if pid is None:
            return None
        if kill:
            try:
                os.kill(pid, _signal.SIGKILL)
            except OSError:
                pass
        for f in (can["fin"], can["fout"]):
            try:
                f.close()
            except Exception:
                pass
        _, status = os.waitpid(pid, 0)
        can["pid"] = None
        return status

    def _remote(fname, a2, k2):
        """run the call in the canary: ('died', how) or (outcome, message, args_modified)"""
        if can["pid"] is None:
            _canary_start()
        k3 = {k: v for k, v in k2.items() if not callable(v)}
        out = None
        try:
            pickle.dump((fname, a2, k3), can["fout"], protocol=pickle.HIGHEST_PROTOCOL)
            can["fout"].flush()
            out = pickle.load(can["fin"])
        except (BrokenPipeError, EOFError, pickle.UnpicklingError):
            out = None
        except BaseException:
            _canary_stop(kill=True)
            raise
        if out is not None:
            return tuple(out)
        status = _canary_stop()
        if status is not None and os.WIFSIGNALED(status):
            return ("died", "signal %d" % os.WTERMSIG(status), False)
        return ("died", "status %r" % (status,), False)

    probe_cache = {}

    def _probe(fname, a2, k2, sig=None):
        """valid calls: the canary tries each new (function, keyword names, typecodes) signature once"""
        if sig in probe_cache:
            return probe_cache[sig]
        out = _remote(fname, a2, k2)
        res = out[1] if out[0] == "died" else None
        probe_cache[sig] = res
        return res
    E.probe = _probe

    TRACE = bool(os.environ.get("C18_TRACE"))

    def _trace(tag, fname, args, kw):
        if TRACE:
            import sys
            d = lambda v: ("<%s %s %dx%d ld=%d off=%d len=%d %s>" % (v.name, v.tc, v.rows, v.cols, v.ld, v.off, v.L, v.mode)) if isinstance(v, Blk) else repr(v)
            sys.stderr.write("C18 %s %s(%s; %s)\n" % (tag, fname, ", ".join(d(a) for a in args),
                                                       ", ".join("%s=%s" % (k, d(v)) for k, v in kw.items())))
            sys.stderr.flush()

    def _sig(fname, args, kw, extra=""):
        tcs = "".join(a.tc for a in list(args) + list(kw.values()) if isinstance(a, Blk))
        return (fname, tuple(sorted(kw)), tcs, extra)

    def call(c, fname, args, kw, mutable=False, grow=(), expect=None):
        """returns (ok, return value).  expect = exception class that the VALID call must raise"""
        a2 = [a.mat if isinstance(a, Blk) else a for a in args]
        k2 = {k: (v.mat if isinstance(v, Blk) else v) for k, v in kw.items()}
        _trace("valid", fname, args, kw)
        died = _probe(fname, a2, k2, _sig(fname, args, kw))
        if died:
            ctx.count("fn." + fname)
            ctx.count("crash." + fname)
            c.check()
            c.fail("%s:crash" % fname, "%s kills the interpreter (%s) on a valid call with keywords %s"
                   % (fname, died, sorted(kw)), kwargs={k: v for k, v in kw.items() if not isinstance(v, Blk)})
            return False, None
        if mutable and c.rng.random() < 0.4:
            _try_invalid(c, fname, args, kw, grow)
        ctx.count("fn." + fname)
        for k_, v_ in kw.items():
            if isinstance(v_, str) and len(v_) == 1:
                ctx.count("opt.%s.%s=%s" % (fname, k_, v_))
        try:
            ret = getattr(lapack, fname)(*a2, **k2)
        except Exception as e:
            if expect is not None and isinstance(e, expect):
                ctx.count("singular.raised")
                c.check()
                return True, None
            c.check()
            if isinstance(e, TypeError) and ("invalid keyword" in str(e) or "takes at most" in str(e)):
                c.fail("%s:documented-keyword-rejected" % fname,
                       "%s rejects a documented keyword: %s" % (fname, e), keywords=sorted(kw))
            elif isinstance(e, TypeError) and "is too small" in str(e) and \
                    any(b.req == 0 and ("of %s is" % b.name) in str(e) for b in list(args) + list(kw.values()) if isinstance(b, Blk)):
                c.fail("%s:empty-matrix-rejected" % fname,
                       "%s raises on an empty (zero rows or columns) matrix argument: %s" % (fname, e),
                       kwargs={k: v for k, v in kw.items() if not isinstance(v, Blk)},
                       shapes={b.name: [b.rows, b.cols, b.mode] for b in list(args) + list(kw.values()) if isinstance(b, Blk)})
            elif isinstance(e, TypeError) and "is too small" in str(e) and fname in (
                    "orgqr", "ungqr", "orglq", "unglq", "ormqr", "unmqr", "ormlq", "unmlq"):
                # these wrappers require offset + cols*ld elements (a full last column); the documentation is
                # silent on the buffer length, so the stricter test is not judged
                ctx.count("either.stricter-length-check." + fname)
            elif isinstance(e, TypeError) and "is too small" in str(e):
                c.fail("%s:valid-buffer-rejected-as-too-short" % fname,
                       "%s rejects a buffer that holds the addressed block (offset + (cols-1)*ld + rows elements): %s" % (fname, e),
                       kwargs={k: v for k, v in kw.items() if not isinstance(v, Blk)},
                       lengths={b.name: [b.L, b.req] for b in list(args) + list(kw.values()) if isinstance(b, Blk)})
            elif expect is not None:
                c.fail("%s:singular-wrong-exception" % fname,
                       "%s raised %s (%s) instead of %s" % (fname, type(e).__name__, e, expect.__name__))
            else:
                c.fail("%s:valid-call-raised-%s" % (fname, type(e).__name__),
                       "%s raised %s: %s on a valid call" % (fname, type(e).__name__, e),
                       kwargs={k: v for k, v in kw.items() if not isinstance(v, Blk)})
            return False, None
        if expect is not None:
            c.check()
            c.fail("%s:singular-not-reported" % fname,
                   "%s returned normally on an exactly singular / non-positive-definite input" % fname)
            return False, ret
        return True, ret
    E.call = call

    def pick_n(rng):
        n = rng.choice([0, 1, 1, 2, 2, 3, 3, 4, 5, 6, 7, 8])
        ctx.count("order.%d" % n)
        return n
    E.pick_n = pick_n

    def pick_nrhs(rng):
        k = rng.choice([0, 1, 1, 2, 3])
        ctx.count("nrhs.%d" % k)
        return k
    E.pick_nrhs = pick_nrhs

    def pick_mode(rng):
        m = rng.choice(["nat", "emb", "emb"])
        ctx.count("mode." + m)
        return m
    E.pick_mode = pick_mode

    def pick_tc(rng, allowed="dz"):
        t = rng.choice(allowed)
        ctx.count("tc." + t)
        return t
    E.pick_tc = pick_tc

    def sz(n):
        return "0" if n == 0 else ("1" if n == 1 else ("s" if n <= 4 else "l"))
    E.sz = sz
    return E


# ============================================================================
# general dense:  getrf getrs getri gesv
# ============================================================================
def _op(np, A, trans):
    return A if trans == "N" else (A.T if trans == "T" else np.conj(A).T)


def fam_ge(E, c):
    np, R, Blk, call, resid, foot = E.np, E.R, E.Blk, E.call, E.resid, E.foot
    rng = c.rng
    tc, n, nrhs, mode = E.pick_tc(rng), E.pick_n(rng), E.pick_nrhs(rng), E.pick_mode(rng)
    A0 = R.wellcond(rng, n, n, tc)
    B0 = R.rnd(rng, n, nrhs, tc)
    pos = n > 0 and nrhs > 0
    cond = R.cond2(A0)
    nA = E.nrm(A0)
    grow = ["n"] + (["nrhs"] if n else [])
    # --- gesv without ipiv: A must stay bit-identical
    A, B = Blk(rng, A0, tc, mode, "A"), Blk(rng, B0, tc, mode, "B")
    kw = E.dims(mode, n=n, nrhs=nrhs); kw.update(A.kw("ldA", "offsetA")); kw.update(B.kw("ldB", "offsetB"))
    ok, _ = call(c, "gesv", [A, B], kw, mutable=pos, grow=grow)
    X1 = None
    if ok:
        E.ctx.count("unmodified-A.checked")
        E.untouched(c, "gesv", "A-modified-without-ipiv", A)
        X1 = B.get()
        resid(c, "solve", "gesv:residual", A0 @ X1 - B0, nA * E.nrm(X1), n, "gesv(A,B): A X - B")
        foot(c, "gesv", B)
    # --- gesv with ipiv: factors returned
    A, B = Blk(rng, A0, tc, mode, "A"), Blk(rng, B0, tc, mode, "B")
    ip = Blk(rng, np.zeros(n), "i", mode, "ipiv", nooff=True)
    kw = E.dims(mode, n=n, nrhs=nrhs); kw.update(A.kw("ldA", "offsetA")); kw.update(B.kw("ldB", "offsetB"))
    ok, _ = call(c, "gesv", [A, B, ip], kw, mutable=pos, grow=grow)
    if ok:
        X2 = B.get()
        resid(c, "solve", "gesv:residual", A0 @ X2 - B0, nA * E.nrm(X2), n, "gesv(A,B,ipiv): A X - B")
        foot(c, "gesv", A, B, ip)
        if X1 is not None:
            resid(c, "equal", "gesv:ipiv-vs-no-ipiv", X2 - X1, cond * E.nrm(X1), n, "gesv with and without ipiv")
    if ok and pos:
        _check_plu(E, c, "gesv", A0, A.get(), ip.vec()[:n], n, n)
        # getrs on these factors, every trans
        for trans in (["N", "T", "C"] if rng.random() < 0.5 else [rng.choice("NTC")]):
            Bt = Blk(rng, B0, tc, mode, "B")
            A.rebase(); ip.rebase()
            kw = E.dims(mode, n=n, nrhs=nrhs); kw.update(A.kw("ldA", "offsetA")); kw.update(Bt.kw("ldB", "offsetB"))
            if trans != "N" or rng.random() < 0.5:
                kw["trans"] = trans
            ok2, _ = call(c, "getrs", [A, ip, Bt], kw, mutable=pos, grow=grow)
            if ok2:
                X = Bt.get()
                resid(c, "solve", "getrs:residual", _op(np, A0, trans) @ X - B0, nA * E.nrm(X), n,
                      "getrs(trans=%s): op(A) X - B" % trans)
                E.untouched(c, "getrs", "factor-modified", A, ip)
                foot(c, "getrs", Bt)
                if trans == "N":
                    resid(c, "equal", "getrs:differs-from-gesv", X - X2, cond * E.nrm(X2), n, "getrf/gesv factors + getrs vs gesv")
        # getri on the factors
        A.rebase(); ip.rebase()
        kw = E.dims(mode, n=n); kw.update(A.kw("ldA", "offsetA"))
        ok3, _ = call(c, "getri", [A, ip], kw, mutable=n > 0, grow=["n"])
        if ok3 and n:
            Ai = A.get()
            resid(c, "inverse", "getri:residual", A0 @ Ai - np.eye(n), nA * E.nrm(Ai), n, "getri: A A^-1 - I")
            foot(c, "getri", A)
            E.untouched(c, "getri", "ipiv-modified", ip)
    # --- getrf, possibly rectangular, then getrs if square
    m = n if rng.random() < 0.5 else E.pick_n(rng)
    k = min(m, n)
    A0r = A0 if m == n else R.wellcond(rng, m, n, tc)
    A = Blk(rng, A0r, tc, mode, "A")
    ip = Blk(rng, np.zeros(k), "i", mode, "ipiv", nooff=True)
    kw = E.dims(mode, m=m, n=n); kw.update(A.kw("ldA", "offsetA"))
    ok, _ = call(c, "getrf", [A, ip], kw, mutable=m > 0 and n > 0, grow=["m", "n"])
    if ok:
        foot(c, "getrf", A, ip)
        _check_plu(E, c, "getrf", A0r, A.get(), ip.vec()[:k], m, n)
        if m == n:
            Bt = Blk(rng, B0, tc, mode, "B")
            A.rebase()
            kw = E.dims(mode, n=n, nrhs=nrhs); kw.update(A.kw("ldA", "offsetA")); kw.update(Bt.kw("ldB", "offsetB"))
            ok2, _ = call(c, "getrs", [A, ip, Bt], kw, mutable=pos, grow=grow)
            if ok2 and X1 is not None:
                resid(c, "equal", "getrs:differs-from-gesv", Bt.get() - X1, cond * E.nrm(X1), n, "getrf+getrs vs gesv")
    c.cls("ge", tc, mode, E.sz(n), "r%d" % min(nrhs, 2), "rect" if m != n else "sq")


def _check_plu(E, c, fname, A0, LU, ipiv, m, n):
    np, R = E.np, E.R
    k = min(m, n)
    if k == 0:
        return
    ok = all(i + 1 <= int(p) <= m for i, p in enumerate(ipiv))
    c.require(ok, "%s:ipiv-out-of-range" % fname, "ipiv entries must satisfy i <= ipiv[i] <= m", ipiv=[int(p) for p in ipiv])
    if not ok:
        return
    L = np.tril(LU[:, :k], -1) + np.eye(m, k)
    Um = np.triu(LU[:k, :])
    p = R.ipiv_to_perm(ipiv, m)
    E.resid(c, "factor", "%s:PLU-reconstruct" % fname, L @ Um - A0[p, :], E.nrm(A0), max(m, n),
            "%s: L U - P A" % fname)


# ============================================================================
# general band:  gbtrf gbtrs gbsv
# ============================================================================
def fam_gb(E, c):
    np, R, Blk, call, resid, foot = E.np, E.R, E.Blk, E.call, E.resid, E.foot
    rng = c.rng
    tc, n, nrhs, mode = E.pick_tc(rng), E.pick_n(rng), E.pick_nrhs(rng), E.pick_mode(rng)
    kl, ku = rng.choice([0, 1, 1, 2, 3]), rng.choice([0, 1, 1, 2, 3])
    A0 = R.band_general(rng, n, n, kl, ku, tc)
    B0 = R.rnd(rng, n, nrhs, tc)
    nA = E.nrm(A0)
    cond = R.cond2(A0)
    pos = n > 0 and nrhs > 0
    grow = ["n"] + (["nrhs"] if n else [])
    junk = lambda p, j: complex(rng.uniform(5, 9), rng.uniform(5, 9)) if tc == "z" else rng.uniform(5, 9)
    ABs = R.gb_pack(A0, kl, ku, 0, junk)          # kl+ku+1 rows
    ABp = R.gb_pack(A0, kl, ku, kl, junk)         # 2kl+ku+1 rows, data in rows kl..
    # --- gbsv without ipiv  (half of the embedded calls leave the offsets at their default 0)
    useoff = rng.random() < 0.5
    oA_, oB_ = ("offsetA", "offsetB") if useoff else (None, None)
    A, B = Blk(rng, ABs, tc, mode, "A", nooff=not useoff), Blk(rng, B0, tc, mode, "B", nooff=not useoff)
    kw = E.dims(mode, n=n, nrhs=nrhs, ku=ku); kw.update(A.kw("ldA", oA_)); kw.update(B.kw("ldB", oB_))
    ok, _ = call(c, "gbsv", [A, kl, B], kw, mutable=pos, grow=grow)
    X1 = None
    if ok:
        E.ctx.count("unmodified-A.checked")
        E.untouched(c, "gbsv", "A-modified-without-ipiv", A)
        X1 = B.get()
        resid(c, "solve", "gbsv:residual", A0 @ X1 - B0, nA * E.nrm(X1), n, "gbsv(A,kl,B): A X - B")
        foot(c, "gbsv", B)
    # --- gbsv with ipiv
    A, B = Blk(rng, ABp, tc, mode, "A", nooff=not useoff), Blk(rng, B0, tc, mode, "B", nooff=not useoff)
    ip = Blk(rng, np.zeros(n), "i", mode, "ipiv", nooff=True)
    kw = E.dims(mode, n=n, nrhs=nrhs, ku=ku); kw.update(A.kw("ldA", oA_)); kw.update(B.kw("ldB", oB_))
    ok, _ = call(c, "gbsv", [A, kl, B, ip], kw, mutable=pos, grow=grow)
    facs = []
    if ok:
        X2 = B.get()
        resid(c, "solve", "gbsv:residual", A0 @ X2 - B0, nA * E.nrm(X2), n, "gbsv(A,kl,B,ipiv): A X - B")
        foot(c, "gbsv", A, B, ip)
        if X1 is not None:
            resid(c, "equal", "gbsv:ipiv-vs-no-ipiv", X2 - X1, cond * E.nrm(X1), n, "gbsv with and without ipiv")
        if pos:
            facs.append(("gbsv", A, ip))      # with n==0 or nrhs==0 gbsv need not have factored
    # --- gbtrf (square here; rectangular below)
    A = Blk(rng, ABp, tc, mode, "A")
    ip = Blk(rng, np.zeros(n), "i", mode, "ipiv", nooff=True)
    kw = E.dims(mode, n=n, ku=ku); kw.update(A.kw("ldA", "offsetA"))
    ok, _ = call(c, "gbtrf", [A, n, kl, ip], kw, mutable=n > 0, grow=["n"])
    if ok:
        foot(c, "gbtrf", A, ip)
        facs.append(("gbtrf", A, ip))
    for src, A, ip in facs:
        for trans in (["N", "T", "C"] if rng.random() < 0.4 else [rng.choice("NTC")]):
            Bt = Blk(rng, B0, tc, mode, "B")
            A.rebase(); ip.rebase()
            kw = E.dims(mode, n=n, nrhs=nrhs, ku=ku); kw.update(A.kw("ldA", "offsetA")); kw.update(Bt.kw("ldB", "offsetB"))
            kw["trans"] = trans
            ok2, _ = call(c, "gbtrs", [A, kl, ip, Bt], kw, mutable=pos, grow=grow)
            if ok2:
                X = Bt.get()
                resid(c, "solve", "gbtrs:residual", _op(np, A0, trans) @ X - B0, nA * E.nrm(X), n,
                      "gbtrs(trans=%s) on %s factors: op(A) X - B" % (trans, src))
                E.untouched(c, "gbtrs", "factor-modified", A, ip)
                foot(c, "gbtrs", Bt)
                if trans == "N" and X1 is not None:
                    resid(c, "equal", "gbtrs:differs-from-gbsv", X - X1, cond * E.nrm(X1), n, "factor+gbtrs vs gbsv")
    # --- rectangular gbtrf: footprint and pivot range only
    m = E.pick_n(rng)
    if m != n:
        Ar = R.band_general(rng, m, n, kl, ku, tc)
        if m and n and np.linalg.matrix_rank(Ar) == min(m, n) and R.cond2(Ar) < 1e3:
            A = Blk(rng, R.gb_pack(Ar, kl, ku, kl, junk), tc, mode, "A")
            ip = Blk(rng, np.zeros(min(m, n)), "i", mode, "ipiv", nooff=True)
            kw = E.dims(mode, n=n, ku=ku); kw.update(A.kw("ldA", "offsetA"))
            ok, _ = call(c, "gbtrf", [A, m, kl, ip], kw, mutable=True, grow=["n"])
            if ok:
                foot(c, "gbtrf", A, ip)
                piv = ip.vec()[:min(m, n)]
                c.require(all(i + 1 <= int(p) <= min(m, i + 1 + kl) for i, p in enumerate(piv)), "gbtrf:ipiv-out-of-range",
                          "pivot row must lie within kl rows below the diagonal", ipiv=[int(p) for p in piv])
    c.cls("gb", tc, mode, E.sz(n), "kl%d" % min(kl, 2), "ku%d" % min(ku, 2), "r%d" % min(nrhs, 2))


# ============================================================================
# general tridiagonal:  gttrf gttrs gtsv
# ============================================================================
def fam_gt(E, c):
    np, R, Blk, call, resid, foot = E.np, E.R, E.Blk, E.call, E.resid, E.foot
    rng = c.rng
    tc, n, nrhs, mode = E.pick_tc(rng), E.pick_n(rng), E.pick_nrhs(rng), E.pick_mode(rng)
    A0 = R.band_general(rng, n, n, 1, 1, tc)
    dl0 = np.array([A0[i + 1, i] for i in range(n - 1)], dtype=A0.dtype)
    d0 = np.array([A0[i, i] for i in range(n)], dtype=A0.dtype)
    du0 = np.array([A0[i, i + 1] for i in range(n - 1)], dtype=A0.dtype)
    B0 = R.rnd(rng, n, nrhs, tc)
    nA, cond = E.nrm(A0), R.cond2(A0)
    pos = n > 0 and nrhs > 0
    grow = ["n"] + (["nrhs"] if n else [])

    def diag_blks():
        return (Blk(rng, dl0, tc, mode, "dl"), Blk(rng, d0, tc, mode, "d"), Blk(rng, du0, tc, mode, "du"))

    def offkw(dl, d, du):
        kw = {}
        kw.update(dl.kw(None, "offsetdl")); kw.update(d.kw(None, "offsetd")); kw.update(du.kw(None, "offsetdu"))
        return kw
    # --- gtsv
    dl, d, du = diag_blks()
    B = Blk(rng, B0, tc, mode, "B")
    kw = E.dims(mode, n=n, nrhs=nrhs); kw.update(offkw(dl, d, du)); kw.update(B.kw("ldB", "offsetB"))
    ok, _ = call(c, "gtsv", [dl, d, du, B], kw, mutable=pos and n > 1, grow=grow)
    X1 = None
    if ok:
        X1 = B.get()
        resid(c, "solve", "gtsv:residual", A0 @ X1 - B0, nA * E.nrm(X1), n, "gtsv: A X - B")
        foot(c, "gtsv", dl, d, du, B)
    # --- gttrf + gttrs
    dl, d, du = diag_blks()
    du2 = Blk(rng, np.zeros(max(0, n - 2)), tc, mode, "du2", nooff=True)
    ip = Blk(rng, np.zeros(n), "i", mode, "ipiv", nooff=True)
    kw = E.dims(mode, n=n); kw.update(offkw(dl, d, du))
    ok, _ = call(c, "gttrf", [dl, d, du, du2, ip], kw, mutable=n > 2, grow=["n"])
    if ok:
        foot(c, "gttrf", dl, d, du, du2, ip)
        for trans in (["N", "T", "C"] if rng.random() < 0.5 else [rng.choice("NTC")]):
            Bt = Blk(rng, B0, tc, mode, "B")
            for b in (dl, d, du, du2, ip):
                b.rebase()
            kw = E.dims(mode, n=n, nrhs=nrhs); kw.update(offkw(dl, d, du)); kw.update(Bt.kw("ldB", "offsetB"))
            if trans != "N" or rng.random() < 0.5:
                kw["trans"] = trans
            ok2, _ = call(c, "gttrs", [dl, d, du, du2, ip, Bt], kw, mutable=pos and n > 2, grow=grow)
            if ok2:
                X = Bt.get()
                resid(c, "solve", "gttrs:residual", _op(np, A0, trans) @ X - B0, nA * E.nrm(X), n,
                      "gttrs(trans=%s): op(A) X - B" % trans)
                E.untouched(c, "gttrs", "factor-modified", dl, d, du, du2, ip)
                foot(c, "gttrs", Bt)
                if trans == "N" and X1 is not None:
                    resid(c, "equal", "gttrs:differs-from-gtsv", X - X1, cond * E.nrm(X1), n, "gttrf+gttrs vs gtsv")
    c.cls("gt", tc, mode, E.sz(n), "r%d" % min(nrhs, 2))


# ============================================================================
# positive definite dense:  potrf potrs potri posv
# ============================================================================
def fam_po(E, c):
    np, R, Blk, call, resid, foot = E.np, E.R, E.Blk, E.call, E.resid, E.foot
    rng = c.rng
    tc, n, nrhs, mode = E.pick_tc(rng), E.pick_n(rng), E.pick_nrhs(rng), E.pick_mode(rng)
    uplo = rng.choice("LU")
    A0 = R.herm_posdef(rng, n, tc)
    As = R.junk_other_triangle(rng, A0, uplo, tc)     # only the uplo triangle carries A
    B0 = R.rnd(rng, n, nrhs, tc)
    nA, cond = E.nrm(A0), R.cond2(A0)
    pos = n > 0 and nrhs > 0
    grow = ["n"] + (["nrhs"] if n else [])
    ukw = {} if (uplo == "L" and rng.random() < 0.5) else {"uplo": uplo}
    tri = (lambda M: np.tril(M)) if uplo == "L" else (lambda M: np.triu(M))

    def chol_ok(fname, F):
        T = tri(F)
        rec = T @ R.H(T) if uplo == "L" else R.H(T) @ T
        resid(c, "factor", "%s:cholesky-reconstruct" % fname, rec - A0, nA, n, "%s: L L^H - A (uplo=%s)" % (fname, uplo))
    # --- posv
    A, B = Blk(rng, As, tc, mode, "A"), Blk(rng, B0, tc, mode, "B")
    kw = E.dims(mode, n=n, nrhs=nrhs); kw.update(A.kw("ldA", "offsetA")); kw.update(B.kw("ldB", "offsetB")); kw.update(ukw)
    ok, _ = call(c, "posv", [A, B], kw, mutable=pos, grow=grow)
    X1 = None
    if ok:
        X1 = B.get()
        resid(c, "solve", "posv:residual", A0 @ X1 - B0, nA * E.nrm(X1), n, "posv(uplo=%s): A X - B" % uplo)
        foot(c, "posv", A, B)
        if pos:
            chol_ok("posv", A.get())
    # --- potrf, potrs, potri
    A = Blk(rng, As, tc, mode, "A")
    kw = E.dims(mode, n=n); kw.update(A.kw("ldA", "offsetA")); kw.update(ukw)
    ok, _ = call(c, "potrf", [A], kw, mutable=n > 0, grow=["n"])
    if ok:
        foot(c, "potrf", A)
        chol_ok("potrf", A.get())
        Bt = Blk(rng, B0, tc, mode, "B")
        A.rebase()
        kw = E.dims(mode, n=n, nrhs=nrhs); kw.update(A.kw("ldA", "offsetA")); kw.update(Bt.kw("ldB", "offsetB")); kw.update(ukw)
        ok2, _ = call(c, "potrs", [A, Bt], kw, mutable=pos, grow=grow)
        if ok2:
            X = Bt.get()
            resid(c, "solve", "potrs:residual", A0 @ X - B0, nA * E.nrm(X), n, "potrs(uplo=%s): A X - B" % uplo)
            E.untouched(c, "potrs", "factor-modified", A)
            foot(c, "potrs", Bt)
            if X1 is not None:
                resid(c, "equal", "potrs:differs-from-posv", X - X1, cond * E.nrm(X1), n, "potrf+potrs vs posv")
        kw = E.dims(mode, n=n); kw.update(A.kw("ldA", "offsetA")); kw.update(ukw)
        ok3, _ = call(c, "potri", [A], kw, mutable=n > 0, grow=["n"])
        if ok3 and n:
            Ai = R.from_triangle(A.get(), uplo, True)
            resid(c, "inverse", "potri:residual", A0 @ Ai - np.eye(n), nA * E.nrm(Ai), n, "potri(uplo=%s): A A^-1 - I" % uplo)
            foot(c, "potri", A)
    c.cls("po", tc, mode, uplo, E.sz(n), "r%d" % min(nrhs, 2))


# ============================================================================
# positive definite band:  pbtrf pbtrs pbsv
# ============================================================================
def fam_pb(E, c):
    np, R, Blk, call, resid, foot = E.np, E.R, E.Blk, E.call, E.resid, E.foot
    rng = c.rng
    tc, n, nrhs, mode = E.pick_tc(rng), E.pick_n(rng), E.pick_nrhs(rng), E.pick_mode(rng)
    uplo, kd = rng.choice("LU"), rng.choice([0, 1, 1, 2, 3])
    A0 = R.band_posdef(rng, n, kd, tc)
    B0 = R.rnd(rng, n, nrhs, tc)
    nA, cond = E.nrm(A0), R.cond2(A0)
    junk = lambda p, j: complex(rng.uniform(5, 9), rng.uniform(5, 9)) if tc == "z" else rng.uniform(5, 9)
    AB = R.sb_pack(A0, kd, uplo, junk)
    pos = n > 0 and nrhs > 0
    grow = ["n"] + (["nrhs"] if n else [])
    ukw = {} if (uplo == "L" and rng.random() < 0.5) else {"uplo": uplo}

    def chol_ok(fname, F):
        T = R.sb_unpack_tri(F, n, kd, uplo)
        rec = T @ R.H(T) if uplo == "L" else R.H(T) @ T
        resid(c, "factor", "%s:cholesky-reconstruct" % fname, rec - A0, nA, n, "%s: band L L^H - A (uplo=%s,kd=%d)" % (fname, uplo, kd))
    useoffB = rng.random() < 0.5
    oB_ = "offsetB" if useoffB else None
    A, B = Blk(rng, AB, tc, mode, "A"), Blk(rng, B0, tc, mode, "B", nooff=not useoffB)
    kw = E.dims(mode, n=n, kd=kd, nrhs=nrhs); kw.update(A.kw("ldA", "offsetA")); kw.update(B.kw("ldB", oB_)); kw.update(ukw)
    ok, _ = call(c, "pbsv", [A, B], kw, mutable=pos, grow=grow)
    X1 = None
    if ok:
        X1 = B.get()
        resid(c, "solve", "pbsv:residual", A0 @ X1 - B0, nA * E.nrm(X1), n, "pbsv(uplo=%s,kd=%d): A X - B" % (uplo, kd))
        foot(c, "pbsv", A, B)
        if pos:
            chol_ok("pbsv", A.get())
    A = Blk(rng, AB, tc, mode, "A")
    kw = E.dims(mode, n=n, kd=kd); kw.update(A.kw("ldA", "offsetA")); kw.update(ukw)
    ok, _ = call(c, "pbtrf", [A], kw, mutable=n > 0, grow=["n"])
    if ok:
        foot(c, "pbtrf", A)
        chol_ok("pbtrf", A.get())
        Bt = Blk(rng, B0, tc, mode, "B", nooff=not useoffB)
        A.rebase()
        kw = E.dims(mode, n=n, kd=kd, nrhs=nrhs); kw.update(A.kw("ldA", "offsetA")); kw.update(Bt.kw("ldB", oB_)); kw.update(ukw)
        ok2, _ = call(c, "pbtrs", [A, Bt], kw, mutable=pos, grow=grow)
        if ok2:
            X = Bt.get()
            resid(c, "solve", "pbtrs:residual", A0 @ X - B0, nA * E.nrm(X), n, "pbtrs(uplo=%s,kd=%d): A X - B" % (uplo, kd))
            E.untouched(c, "pbtrs", "factor-modified", A)
            foot(c, "pbtrs", Bt)
            if X1 is not None:
                resid(c, "equal", "pbtrs:differs-from-pbsv", X - X1, cond * E.nrm(X1), n, "pbtrf+pbtrs vs pbsv")
    c.cls("pb", tc, mode, uplo, E.sz(n), "kd%d" % min(kd, 2), "r%d" % min(nrhs, 2))


# ============================================================================
# positive definite tridiagonal:  pttrf pttrs ptsv
# ============================================================================
def fam_pt(E, c):
    np, R, Blk, call, resid, foot = E.np, E.R, E.Blk, E.call, E.resid, E.foot
    rng = c.rng
    tc, n, nrhs, mode = E.pick_tc(rng), E.pick_n(rng), E.pick_nrhs(rng), E.pick_mode(rng)
    A0 = R.band_posdef(rng, n, 1, tc)
    d0 = np.array([A0[i, i].real for i in range(n)], dtype=float)
    e0 = np.array([A0[i + 1, i] for i in range(n - 1)], dtype=A0.dtype)       # subdiagonal
    B0 = R.rnd(rng, n, nrhs, tc)
    nA, cond = E.nrm(A0), R.cond2(A0)
    pos = n > 1 and nrhs > 0
    grow = ["n"] + (["nrhs"] if n else [])

    def blks():
        return Blk(rng, d0, "d", mode, "d", tcrule="fixed"), Blk(rng, e0, tc, mode, "e")

    def okw(d, e):
        kw = {}
        kw.update(d.kw(None, "offsetd")); kw.update(e.kw(None, "offsete"))
        return kw
    d, e = blks()
    B = Blk(rng, B0, tc, mode, "B")
    kw = E.dims(mode, n=n, nrhs=nrhs); kw.update(okw(d, e)); kw.update(B.kw("ldB", "offsetB"))
    ok, _ = call(c, "ptsv", [d, e, B], kw, mutable=pos, grow=grow)
    X1 = None
    if ok:
        X1 = B.get()
        resid(c, "solve", "ptsv:residual", A0 @ X1 - B0, nA * E.nrm(X1), n, "ptsv: A X - B")
        foot(c, "ptsv", d, e, B)
    d, e = blks()
    kw = E.dims(mode, n=n); kw.update(okw(d, e))
    ok, _ = call(c, "pttrf", [d, e], kw, mutable=n > 1, grow=["n"])
    if ok:
        foot(c, "pttrf", d, e)
        dd, ll = d.vec()[:n], e.vec()[:max(0, n - 1)]
        L = np.eye(n, dtype=A0.dtype)
        for i in range(n - 1):
            L[i + 1, i] = ll[i]
        resid(c, "factor", "pttrf:LDL-reconstruct", L @ np.diag(dd) @ R.H(L) - A0, nA, n, "pttrf: L D L^H - A")
        for uplo in ("L", "U"):
            # uplo='L': e = subdiagonal of L;  uplo='U': e = conj(subdiagonal of L) (superdiagonal of L^H)
            e2 = Blk(rng, ll if uplo == "L" else np.conj(ll), tc, mode, "e")
            d2 = Blk(rng, dd, "d", mode, "d", tcrule="fixed")
            Bt = Blk(rng, B0, tc, mode, "B")
            kw = E.dims(mode, n=n, nrhs=nrhs); kw.update(okw(d2, e2)); kw.update(Bt.kw("ldB", "offsetB"))
            if uplo == "U" or rng.random() < 0.5:
                kw["uplo"] = uplo
            ok2, _ = call(c, "pttrs", [d2, e2, Bt], kw, mutable=pos, grow=grow)
            if ok2:
                X = Bt.get()
                resid(c, "solve", "pttrs:residual", A0 @ X - B0, nA * E.nrm(X), n, "pttrs(uplo=%s): A X - B" % uplo)
                E.untouched(c, "pttrs", "factor-modified", d2, e2)
                foot(c, "pttrs", Bt)
                if X1 is not None:
                    resid(c, "equal", "pttrs:differs-from-ptsv", X - X1, cond * E.nrm(X1), n, "pttrf+pttrs vs ptsv")
    c.cls("pt", tc, mode, E.sz(n), "r%d" % min(nrhs, 2))


# ============================================================================
# symmetric / Hermitian indefinite:  sytrf sytrs sytri sysv | hetrf hetrs hetri hesv
# ============================================================================
def fam_sy(E, c, kind=None):
    np, R, Blk, call, resid, foot = E.np, E.R, E.Blk, E.call, E.resid, E.foot
    rng = c.rng
    kind = kind or rng.choice(["sy", "he"])
    tc, n, nrhs, mode = E.pick_tc(rng), E.pick_n(rng), E.pick_nrhs(rng), E.pick_mode(rng)
    uplo = rng.choice("LU")
    herm = (kind == "he")
    A0 = R.sym_for(rng, n, tc, kind)
    As = R.junk_other_triangle(rng, A0, uplo, tc)
    B0 = R.rnd(rng, n, nrhs, tc)
    nA, cond = E.nrm(A0), R.cond2(A0)
    pos = n > 0 and nrhs > 0
    grow = ["n"] + (["nrhs"] if n else [])
    ukw = {} if (uplo == "L" and rng.random() < 0.5) else {"uplo": uplo}
    sv, trf, trs, tri = kind + "sv", kind + "trf", kind + "trs", kind + "tri"
    # --- driver without ipiv
    A, B = Blk(rng, As, tc, mode, "A"), Blk(rng, B0, tc, mode, "B")
    kw = E.dims(mode, n=n, nrhs=nrhs); kw.update(A.kw("ldA", "offsetA")); kw.update(B.kw("ldB", "offsetB")); kw.update(ukw)
    ok, _ = call(c, sv, [A, B], kw, mutable=pos, grow=grow)
    X1 = None
    if ok:
        E.ctx.count("unmodified-A.checked")
        E.untouched(c, sv, "A-modified-without-ipiv", A)
        X1 = B.get()
        resid(c, "solve", sv + ":residual", A0 @ X1 - B0, nA * E.nrm(X1), n, "%s(uplo=%s): A X - B" % (sv, uplo))
        foot(c, sv, B)
    # --- driver with ipiv, or factor routine
    facs = []
    A, B = Blk(rng, As, tc, mode, "A"), Blk(rng, B0, tc, mode, "B")
    ip = Blk(rng, np.zeros(n), "i", mode, "ipiv", nooff=True)
    kw = E.dims(mode, n=n, nrhs=nrhs); kw.update(A.kw("ldA", "offsetA")); kw.update(B.kw("ldB", "offsetB")); kw.update(ukw)
    ok, _ = call(c, sv, [A, B, ip], kw, mutable=pos, grow=grow)
    if ok:
        X2 = B.get()
        resid(c, "solve", sv + ":residual", A0 @ X2 - B0, nA * E.nrm(X2), n, "%s(ipiv,uplo=%s): A X - B" % (sv, uplo))
        foot(c, sv, A, B, ip)
        if X1 is not None:
            resid(c, "equal", sv + ":ipiv-vs-no-ipiv", X2 - X1, cond * E.nrm(X1), n, "%s with and without ipiv" % sv)
        if pos:
            facs.append((sv, A, ip))
    A = Blk(rng, As, tc, mode, "A")
    ip = Blk(rng, np.zeros(n), "i", mode, "ipiv", nooff=True)
    kw = E.dims(mode, n=n); kw.update(A.kw("ldA", "offsetA")); kw.update(ukw)
    ok, _ = call(c, trf, [A, ip], kw, mutable=n > 0, grow=["n"])
    if ok:
        foot(c, trf, A, ip)
        facs.append((trf, A, ip))
    for src, A, ip in facs:
        Bt = Blk(rng, B0, tc, mode, "B")
        A.rebase(); ip.rebase()
        kw = E.dims(mode, n=n, nrhs=nrhs); kw.update(A.kw("ldA", "offsetA")); kw.update(Bt.kw("ldB", "offsetB")); kw.update(ukw)
        ok2, _ = call(c, trs, [A, ip, Bt], kw, mutable=pos, grow=grow)
        if ok2:
            X = Bt.get()
            resid(c, "solve", trs + ":residual", A0 @ X - B0, nA * E.nrm(X), n, "%s(uplo=%s) on %s factors: A X - B" % (trs, uplo, src))
            E.untouched(c, trs, "factor-modified", A, ip)
            foot(c, trs, Bt)
            if X1 is not None:
                resid(c, "equal", trs + ":differs-from-driver", X - X1, cond * E.nrm(X1), n, "%s+%s vs %s" % (src, trs, sv))
        kw = E.dims(mode, n=n); kw.update(A.kw("ldA", "offsetA")); kw.update(ukw)
        ok3, _ = call(c, tri, [A, ip], kw, mutable=n > 0, grow=["n"])
        if ok3 and n:
            Ai = R.from_triangle(A.get(), uplo, herm)
            resid(c, "inverse", tri + ":residual", A0 @ Ai - np.eye(n), nA * E.nrm(Ai), n, "%s(uplo=%s): A A^-1 - I" % (tri, uplo))
            foot(c, tri, A)
            E.untouched(c, tri, "ipiv-modified", ip)
    c.cls(kind, tc, mode, uplo, E.sz(n), "r%d" % min(nrhs, 2))


def fam_he(E, c):
    fam_sy(E, c, "he")


def fam_sy_(E, c):
    fam_sy(E, c, "sy")


# ============================================================================
# triangular:  trtrs trtri tbtrs
# ============================================================================
def fam_tr(E, c):
    np, R, Blk, call, resid, foot = E.np, E.R, E.Blk, E.call, E.resid, E.foot
    rng = c.rng
    tc, n, nrhs, mode = E.pick_tc(rng), E.pick_n(rng), E.pick_nrhs(rng), E.pick_mode(rng)
    uplo, trans, diag = rng.choice("LU"), rng.choice("NTC"), rng.choice("NNU")
    pos = n > 0 and nrhs > 0
    grow = ["n"] + (["nrhs"] if n else [])
    okw = {"uplo": uplo, "trans": trans, "diag": diag}
    if rng.random() < 0.3:
        okw = {k: v for k, v in okw.items() if v != {"uplo": "L", "trans": "N", "diag": "N"}[k]}
    B0 = R.rnd(rng, n, nrhs, tc)
    # dense triangular; the other triangle (and the diagonal when diag='U') holds unrelated values
    T0 = R.tri_wellcond(rng, n, tc, uplo, diag)
    Ts = R.junk_other_triangle(rng, T0, uplo, tc)
    if diag == "U":
        for i in range(n):
            Ts[i, i] = rng.uniform(5, 9)
    nT = E.nrm(T0)
    A, B = Blk(rng, Ts, tc, mode, "A"), Blk(rng, B0, tc, mode, "B")
    kw = E.dims(mode, n=n, nrhs=nrhs); kw.update(A.kw("ldA", "offsetA")); kw.update(B.kw("ldB", "offsetB")); kw.update(okw)
    ok, _ = call(c, "trtrs", [A, B], kw, mutable=pos, grow=grow)
    if ok:
        X = B.get()
        resid(c, "solve", "trtrs:residual", _op(np, T0, trans) @ X - B0, nT * E.nrm(X), n,
              "trtrs(uplo=%s,trans=%s,diag=%s): op(A) X - B" % (uplo, trans, diag))
        E.untouched(c, "trtrs", "A-modified", A)
        foot(c, "trtrs", B)
    # trtri
    A = Blk(rng, Ts, tc, mode, "A")
    kw = E.dims(mode, n=n); kw.update(A.kw("ldA", "offsetA")); kw.update({k: v for k, v in okw.items() if k != "trans"})
    ok, _ = call(c, "trtri", [A], kw, mutable=n > 0, grow=["n"])
    if ok and n:
        G = A.get()
        Ti = np.tril(G) if uplo == "L" else np.triu(G)
        if diag == "U":
            Ti[np.diag_indices(n)] = 1.0
        resid(c, "inverse", "trtri:residual", T0 @ Ti - np.eye(n), nT * E.nrm(Ti), n, "trtri(uplo=%s,diag=%s): A A^-1 - I" % (uplo, diag))
        foot(c, "trtri", A)
    # tbtrs
    kd = rng.choice([0, 1, 1, 2, 3])
    Tb = R.tri_wellcond(rng, n, tc, uplo, diag, kd=kd)
    junk = lambda p, j: complex(rng.uniform(5, 9), rng.uniform(5, 9)) if tc == "z" else rng.uniform(5, 9)
    AB = R.sb_pack(Tb, kd, uplo, junk)
    if diag == "U" and n:
        AB[0 if uplo == "L" else kd, :] = rng.uniform(5, 9)
    A, B = Blk(rng, AB, tc, mode, "A"), Blk(rng, B0, tc, mode, "B")
    kw = E.dims(mode, n=n, kd=kd, nrhs=nrhs); kw.update(A.kw("ldA", "offsetA")); kw.update(B.kw("ldB", "offsetB")); kw.update(okw)
    kw["trans"] = trans        # the manual and the docstring disagree on the default: always explicit
    ok, _ = call(c, "tbtrs", [A, B], kw, mutable=pos, grow=grow)
    if ok:
        X = B.get()
        resid(c, "solve", "tbtrs:residual", _op(np, Tb, trans) @ X - B0, E.nrm(Tb) * E.nrm(X), n,
              "tbtrs(uplo=%s,trans=%s,diag=%s,kd=%d): op(A) X - B" % (uplo, trans, diag, kd))
        E.untouched(c, "tbtrs", "A-modified", A)
        foot(c, "tbtrs", B)
    c.cls("tr", tc, mode, uplo, trans, diag, E.sz(n), "r%d" % min(nrhs, 2))


# ============================================================================
# least squares / least norm:  gels
# ============================================================================
def fam_gels(E, c):
    np, R, Blk, call, resid, foot = E.np, E.R, E.Blk, E.call, E.resid, E.foot
    rng = c.rng
    tc, m, n, nrhs, mode = E.pick_tc(rng), E.pick_n(rng), E.pick_n(rng), E.pick_nrhs(rng), E.pick_mode(rng)
    trans = rng.choice("NTC" if tc == "d" else "NC")
    A0 = R.wellcond(rng, m, n, tc)
    opA = _op(np, A0, trans)            # p x q
    p, q = opA.shape
    Brhs = R.rnd(rng, p, nrhs, tc)
    Bs = np.zeros((max(m, n), nrhs), dtype=A0.dtype)
    Bs[:, :] = R.rnd(rng, max(m, n), nrhs, tc, 5, 9)     # rows beyond p are not part of the right-hand side
    Bs[:p, :] = Brhs
    A, B = Blk(rng, A0, tc, mode, "A"), Blk(rng, Bs, tc, mode, "B")
    kw = E.dims(mode, m=m, n=n, nrhs=nrhs); kw.update(A.kw("ldA", "offsetA")); kw.update(B.kw("ldB", "offsetB"))
    if trans != "N" or rng.random() < 0.5:
        kw["trans"] = trans
    pos = m > 0 and n > 0 and nrhs > 0
    ok, _ = call(c, "gels", [A, B], kw, mutable=pos, grow=["m", "n"] + (["nrhs"] if pos else []))
    if ok:
        foot(c, "gels", A, B)
        if m and n and nrhs:
            X = B.get()[:q, :]
            nA = E.nrm(A0)
            Rs = opA @ X - Brhs
            if p >= q:
                # least squares: normal equations op(A)^H (op(A) X - B) = 0
                resid(c, "ls", "gels:normal-equations", R.H(opA) @ Rs, nA * (nA * E.nrm(X) + E.nrm(Brhs)), max(m, n),
                      "gels(trans=%s,%dx%d): op(A)^H (op(A) X - B)" % (trans, m, n))
            if p <= q:
                resid(c, "ls", "gels:constraint-residual", Rs, nA * E.nrm(X), max(m, n), "gels(trans=%s,%dx%d): op(A) X - B" % (trans, m, n))
                # minimum norm: X in range(op(A)^H)
                Pn = np.eye(q) - np.linalg.pinv(opA) @ opA
                resid(c, "ls", "gels:not-minimum-norm", Pn @ X, E.nrm(X), max(m, n), "gels: component of X in null(op(A))")
    c.cls("gels", tc, mode, trans, E.sz(m), E.sz(n), "ge" if m >= n else "lt", "r%d" % min(nrhs, 2))


# ============================================================================
# QR:  geqrf ormqr unmqr orgqr ungqr      LQ: gelqf ormlq unmlq orglq unglq
# ============================================================================
def fam_qr(E, c, lq=False):
    np, R, Blk, call, resid, foot = E.np, E.R, E.Blk, E.call, E.resid, E.foot
    rng = c.rng
    tc, m, n, mode = E.pick_tc(rng), E.pick_n(rng), E.pick_n(rng), E.pick_mode(rng)
    fac = "gelqf" if lq else "geqrf"
    k = min(m, n)
    A0 = R.wellcond(rng, m, n, tc) if rng.random() < 0.8 else R.rnd(rng, m, n, tc)
    A = Blk(rng, A0, tc, mode, "A")
    tau = Blk(rng, np.zeros(k), tc, mode, "tau", nooff=True)
    kw = E.dims(mode, m=m, n=n); kw.update(A.kw("ldA", "offsetA"))
    ok, _ = call(c, fac, [A, tau], kw, mutable=m > 0 and n > 0, grow=["m", "n"])
    if not ok:
        return
    foot(c, fac, A, tau)
    F, t = A.get(), tau.vec()[:k]
    order = n if lq else m
    Q = (R.q_from_lq if lq else R.q_from_qr)(F, t, order, k)
    nA = E.nrm(A0)
    if lq:
        Lm = np.tril(F)                       # m x n lower trapezoidal
        resid(c, "qr", "gelqf:LQ-reconstruct", Lm @ Q - A0, nA, max(m, n), "gelqf: L Q - A")
    else:
        Rm = np.triu(F)
        resid(c, "qr", "geqrf:QR-reconstruct", Q @ Rm - A0, nA, max(m, n), "geqrf: Q R - A")
    resid(c, "orth", fac + ":Q-not-unitary", R.H(Q) @ Q - np.eye(order), 1.0, order, fac + ": Q^H Q - I")
    # --- generate Q explicitly
    gen = ("orglq" if lq else "orgqr") if (tc == "d" and rng.random() < 0.6) else ("unglq" if lq else "ungqr")
    if lq:
        # first mq rows of Q (order nq), defined by kq reflectors: kq <= mq <= nq
        kq = rng.randint(0, k); mq = rng.randint(kq, n); nq = n
        G0 = np.zeros((mq, nq), dtype=A0.dtype); G0[:, :] = R.rnd(rng, mq, nq, tc, 5, 9)
        G0[:min(kq, mq), :] = F[:min(kq, mq), :]
        Qk = R.q_from_lq(F, t, nq, kq)
        want = Qk[:mq, :]
    else:
        kq = rng.randint(0, k); nq = rng.randint(kq, m); mq = m
        G0 = np.zeros((mq, nq), dtype=A0.dtype); G0[:, :] = R.rnd(rng, mq, nq, tc, 5, 9)
        G0[:, :min(kq, nq)] = F[:, :min(kq, nq)]
        Qk = R.q_from_qr(F, t, mq, kq)
        want = Qk[:, :nq]
    G = Blk(rng, G0, tc, mode, "A")
    tq = Blk(rng, t[:kq], tc, mode, "tau", nooff=True)
    natural_ok = (mode == "nat") and ((mq == min(mq, nq)) if lq else (nq == min(mq, nq)))
    kw = {} if natural_ok else {"m": mq, "n": nq, "k": kq}
    kw.update(G.kw("ldA", "offsetA"))
    ok2, _ = call(c, gen, [G, tq], kw, mutable=mq > 0 and nq > 0 and kq > 0, grow=["n"] if lq else ["m"])
    if ok2:
        foot(c, gen, G, tq)
        E.untouched(c, gen, "tau-modified", tq)
        resid(c, "mult", gen + ":wrong-Q", G.get() - want, 1.0, max(mq, nq), "%s(m=%d,n=%d,k=%d) vs product of reflectors" % (gen, mq, nq, kq))
        Gq = G.get()
        I_ = (Gq @ R.H(Gq) - np.eye(mq)) if lq else (R.H(Gq) @ Gq - np.eye(nq))
        resid(c, "orth", gen + ":not-orthonormal", I_, 1.0, max(mq, nq), gen + ": orthonormality")
    # --- multiply by Q
    mul = ("ormlq" if lq else "ormqr") if (tc == "d" and rng.random() < 0.6) else ("unmlq" if lq else "unmqr")
    side = rng.choice("LR")
    if mul.startswith("or"):
        trans = rng.choice("NT")
    else:
        trans = rng.choice("NTC") if tc == "d" else rng.choice("NC")
    # Q of order `order` from the factorisation above with kk <= k reflectors; C is mc x nc
    kk = rng.randint(0, k)
    other = E.pick_n(rng)
    mc, nc = (order, other) if side == "L" else (other, order)
    C0 = R.rnd(rng, mc, nc, tc)
    Qm = (R.q_from_lq if lq else R.q_from_qr)(F, t, order, kk)
    opQ = _op(np, Qm, trans)
    want = opQ @ C0 if side == "L" else C0 @ opQ
    # reflector storage handed over: for QR the first kk columns (order rows), for LQ the first kk rows (order columns)
    Fs = F[:, :kk] if not lq else F[:kk, :]
    Af = Blk(rng, Fs, tc, mode, "A")
    tm = Blk(rng, t[:kk], tc, mode, "tau", nooff=True)
    Cb = Blk(rng, C0, tc, mode, "C")
    if mode == "nat" and (lq or True):
        # natural defaults: ormqr k=len(tau), ormlq k=min(A.size) -- explicit k keeps both meanings identical
        kw = {"k": kk}
    else:
        kw = {"m": mc, "n": nc, "k": kk}
    kw.update(Af.kw("ldA", "offsetA")); kw.update(Cb.kw("ldC", "offsetC"))
    kw["side"] = side; kw["trans"] = trans
    if side == "L" and trans == "N" and rng.random() < 0.3:
        del kw["side"]; del kw["trans"]
    ok3, _ = call(c, mul, [Af, tm, Cb], kw, mutable=mc > 0 and nc > 0 and kk > 0, grow=["m", "n"])
    if ok3:
        foot(c, mul, Cb)
        E.untouched(c, mul, "reflectors-modified", Af, tm)
        resid(c, "mult", mul + ":wrong-product", Cb.get() - want, E.nrm(C0), max(mc, nc, 1),
              "%s(side=%s,trans=%s,m=%d,n=%d,k=%d): op(Q) C" % (mul, side, trans, mc, nc, kk))
    c.cls("lq" if lq else "qr", tc, mode, E.sz(m), E.sz(n), gen, mul, side, trans)


def fam_lq(E, c):
    fam_qr(E, c, lq=True)


# ============================================================================
# QR with column pivoting:  geqp3
# ============================================================================
def fam_qp3(E, c):
    np, R, Blk, call, resid, foot = E.np, E.R, E.Blk, E.call, E.resid, E.foot
    rng = c.rng
    tc, m, n, mode = E.pick_tc(rng), E.pick_n(rng), E.pick_n(rng), E.pick_mode(rng)
    k = min(m, n)
    A0 = R.wellcond(rng, m, n, tc)
    fixed = [j for j in range(n) if rng.random() < 0.25]
    jp0 = np.zeros(n, dtype=int)
    for j in fixed:
        jp0[j] = rng.choice([1, j + 1, 7])
    A = Blk(rng, A0, tc, mode, "A")
    jp = Blk(rng, jp0, "i", mode, "jpvt", nooff=True)
    tau = Blk(rng, np.zeros(k), tc, mode, "tau", nooff=True)
    kw = E.dims(mode, m=m, n=n); kw.update(A.kw("ldA", "offsetA"))
    ok, _ = call(c, "geqp3", [A, jp, tau], kw, mutable=m > 0 and n > 0, grow=["m", "n"])
    if ok:
        foot(c, "geqp3", A, jp, tau)
        if m and n:
            perm = [int(v) for v in jp.vec()[:n]]
            isperm = sorted(perm) == list(range(1, n + 1))
            c.require(isperm, "geqp3:jpvt-not-permutation", "jpvt on exit is not a permutation of 1..n", jpvt=perm)
            if isperm:
                F, t = A.get(), tau.vec()[:k]
                Q = R.q_from_qr(F, t, m, k)
                P = [v - 1 for v in perm]
                resid(c, "qr", "geqp3:QR-reconstruct", Q @ np.triu(F) - A0[:, P], E.nrm(A0), max(m, n), "geqp3: Q R - A[:, jpvt-1]")
                resid(c, "orth", "geqp3:Q-not-unitary", R.H(Q) @ Q - np.eye(m), 1.0, m, "geqp3: Q^H Q - I")
                c.require(set(P[:len(fixed)]) == set(fixed), "geqp3:fixed-columns-not-in-front",
                          "columns with jpvt[j] != 0 on entry must lead A*P", fixed=fixed, jpvt=perm)
    c.cls("qp3", tc, mode, E.sz(m), E.sz(n), "fix%d" % min(len(fixed), 2))


# ============================================================================
# symmetric eigenvalue problems:  syev heev syevd heevd | syevx heevx syevr heevr
# ============================================================================
def _eig_checks(E, c, fname, A0, w, V, wref, n, what):
    np, R = E.np, E.R
    nA = max(float(np.linalg.norm(A0, 2)) if n else 0.0, 1e-300)
    c.require(bool(np.all(np.diff(w) >= 0)), fname + ":eigenvalues-not-ascending", what + ": W not ascending", W=w)
    E.resid(c, "eigval", fname + ":eigenvalues", w - wref, nA, n, what + ": W vs numpy.linalg.eigvalsh")
    if V is not None:
        E.resid(c, "eigvec", fname + ":eigen-residual", A0 @ V - V * w, nA, n, what + ": A V - V diag(W)")
        E.resid(c, "orth", fname + ":eigenvectors-not-orthonormal", R.H(V) @ V - np.eye(V.shape[1]), 1.0, n, what + ": V^H V - I")


def fam_ev(E, c):
    np, R, Blk, call, foot = E.np, E.R, E.Blk, E.call, E.foot
    rng = c.rng
    fname = rng.choice(["syev", "heev", "syevd", "heevd"])
    tc = E.pick_tc(rng, "d" if fname.startswith("sy") else "dz")
    n, mode = E.pick_n(rng), E.pick_mode(rng)
    jobz, uplo = rng.choice("NV"), rng.choice("LU")
    lam = R.separated(rng, n, repeat=rng.random() < 0.3)
    A0 = R.herm_with_eigs(rng, lam, tc)
    wref = np.linalg.eigvalsh(A0) if n else np.zeros(0)
    A = Blk(rng, R.junk_other_triangle(rng, A0, uplo, tc), tc, mode, "A")
    W = Blk(rng, np.zeros(n), "d", mode, "W", tcrule="fixed")
    kw = E.dims(mode, n=n); kw.update(A.kw("ldA", "offsetA")); kw.update(W.kw(None, "offsetW"))
    if jobz == "V" or rng.random() < 0.5:
        kw["jobz"] = jobz
    if uplo == "U" or rng.random() < 0.5:
        kw["uplo"] = uplo
    ok, _ = call(c, fname, [A, W], kw, mutable=n > 0, grow=["n"])
    if ok:
        foot(c, fname, A, W)
        if n:
            _eig_checks(E, c, fname, A0, W.vec()[:n], A.get() if jobz == "V" else None, wref, n,
                        "%s(jobz=%s,uplo=%s)" % (fname, jobz, uplo))
    c.cls("ev", fname, tc, mode, jobz, uplo, E.sz(n))


def fam_evx(E, c):
    np, R, Blk, call, foot = E.np, E.R, E.Blk, E.call, E.foot
    rng = c.rng
    fname = rng.choice(["syevx", "heevx", "syevr", "heevr"])
    tc = E.pick_tc(rng, "d" if fname.startswith("sy") else "dz")
    n, mode = E.pick_n(rng), E.pick_mode(rng)
    jobz, uplo = rng.choice("NV"), rng.choice("LU")
    rangek = rng.choice("AVI") if n else rng.choice("AV")
    E.ctx.count("range." + rangek)
    lam = R.separated(rng, n, repeat=(rangek == "A" and rng.random() < 0.3))
    A0 = R.herm_with_eigs(rng, lam, tc)
    wref = np.linalg.eigvalsh(A0) if n else np.zeros(0)
    kw = {}
    sel = list(range(n))
    ncolZ = n
    if rangek == "V":
        # interval ends in the middle of gaps (or outside the spectrum) so that the count is unambiguous
        cuts = [(-9.0)] + [0.5 * (wref[i] + wref[i + 1]) for i in range(n - 1)] + [9.0]
        a = rng.randrange(len(cuts)); b = rng.randrange(len(cuts))
        a, b = min(a, b), max(a, b)
        vl, vu = cuts[a], cuts[b]
        if a == b:
            vu = vl + 1e-3                 # empty interval (no eigenvalue within 0.05 of a cut)
        sel = [i for i in range(n) if vl < wref[i] <= vu]
        kw["vl"], kw["vu"] = float(vl), float(vu)
    elif rangek == "I":
        il = rng.randint(1, n); iu = rng.randint(il, n)
        sel = list(range(il - 1, iu))
        kw["il"], kw["iu"] = il, iu
        ncolZ = iu - il + 1
    mexp = len(sel)
    A = Blk(rng, R.junk_other_triangle(rng, A0, uplo, tc), tc, mode, "A")
    W = Blk(rng, np.zeros(n), "d", mode, "W", tcrule="fixed")
    Z = None
    giveZ = (jobz == "V") or rng.random() < 0.3
    if giveZ:
        Z = Blk(rng, R.rnd(rng, n, ncolZ, tc, 5, 9), tc, mode, "Z")
        kw["Z"] = Z
        kw.update(Z.kw("ldZ", "offsetZ"))
    kw.update(E.dims(mode, n=n)); kw.update(A.kw("ldA", "offsetA")); kw.update(W.kw(None, "offsetW"))
    kw["range"] = rangek
    if rangek == "A" and rng.random() < 0.5:
        del kw["range"]
    if jobz == "V" or rng.random() < 0.5:
        kw["jobz"] = jobz
    if uplo == "U" or rng.random() < 0.5:
        kw["uplo"] = uplo
    if rng.random() < 0.2:
        kw["abstol"] = rng.choice([0.0, -1.0, 1e-15])
    ok, mret = call(c, fname, [A, W], kw, mutable=n > 0 and (jobz == "V" or Z is None), grow=["n"])
    if ok:
        foot(c, fname, A, W, Z)
        what = "%s(jobz=%s,range=%s,uplo=%s)" % (fname, jobz, rangek, uplo)
        if n:
            good = c.require(mret == mexp, fname + ":range-count", "%s returned m=%r, %d eigenvalues lie in the requested range"
                             % (what, mret, mexp), wref=wref, kwargs={k: v for k, v in kw.items() if not isinstance(v, Blk)})
            if good and mexp:
                V = Z.get()[:, :mexp] if jobz == "V" else None
                _eig_checks(E, c, fname, A0, W.vec()[:mexp], V, wref[sel], n, what)
        else:
            c.require(mret in (0, None), fname + ":range-count", "n=0 but m=%r" % (mret,))
        if jobz == "N" and Z is not None:
            E.untouched(c, fname, "Z-referenced-with-jobz-N", Z)
    c.cls("evx", fname, tc, mode, jobz, rangek, uplo, E.sz(n))


# ============================================================================
# generalised symmetric-definite:  sygv hegv
# ============================================================================
def fam_gv(E, c):
    np, R, Blk, call, resid, foot = E.np, E.R, E.Blk, E.call, E.resid, E.foot
    rng = c.rng
    fname = rng.choice(["sygv", "hegv"])
    tc = E.pick_tc(rng, "d" if fname == "sygv" else "dz")
    n, mode = E.pick_n(rng), E.pick_mode(rng)
    itype, jobz, uplo = rng.choice([1, 2, 3]), rng.choice("NV"), rng.choice("LU")
    A0 = R.herm_with_eigs(rng, R.separated(rng, n), tc)
    B0 = R.herm_posdef(rng, n, tc, cond=30.0)
    variant = rng.choice(["full", "ldA", "ldA+offsetA"]) if mode == "emb" else "nat"
    if variant in ("ldA", "ldA+offsetA"):
        # only A embedded; B and W natural (their size arguments defaulted)
        A = Blk(rng, R.junk_other_triangle(rng, A0, uplo, tc), tc, "emb", "A", nooff=(variant == "ldA"))
        B = Blk(rng, R.junk_other_triangle(rng, B0, uplo, tc), tc, "nat", "B")
        W = Blk(rng, np.zeros(n), "d", "nat", "W", tcrule="fixed")
        kw = {"n": n}; kw.update(A.kw("ldA", None if variant == "ldA" else "offsetA")); B.kw(None, None); W.kw(None, None)
    else:
        A = Blk(rng, R.junk_other_triangle(rng, A0, uplo, tc), tc, mode, "A")
        B = Blk(rng, R.junk_other_triangle(rng, B0, uplo, tc), tc, mode, "B")
        W = Blk(rng, np.zeros(n), "d", mode, "W", tcrule="fixed")
        kw = E.dims(mode, n=n); kw.update(A.kw("ldA", "offsetA")); kw.update(B.kw("ldB", "offsetB")); kw.update(W.kw(None, "offsetW"))
    if itype != 1 or rng.random() < 0.5:
        kw["itype"] = itype
    if jobz == "V" or rng.random() < 0.5:
        kw["jobz"] = jobz
    if uplo == "U" or rng.random() < 0.5:
        kw["uplo"] = uplo
    nfail0 = len(c.failed)
    ok, _ = call(c, fname, [A, B, W], kw, mutable=n > 0 and variant in ("full", "nat"), grow=["n"])
    if ok:
        foot(c, fname, A, B, W)
        if n:
            what = "%s(itype=%d,jobz=%s,uplo=%s,storage=%s)" % (fname, itype, jobz, uplo, variant)
            Lc = np.linalg.cholesky(B0)
            Li = np.linalg.inv(Lc)
            Cm = Li @ A0 @ R.H(Li) if itype == 1 else R.H(Lc) @ A0 @ Lc
            wref = np.linalg.eigvalsh(0.5 * (Cm + R.H(Cm)))
            w = W.vec()[:n]
            nA, nB = E.nrm(A0), E.nrm(B0)
            scale = nA * (E.nrm(np.linalg.inv(B0)) if itype == 1 else nB)
            c.require(bool(np.all(np.diff(w) >= 0)), fname + ":eigenvalues-not-ascending", what + ": W not ascending", W=w)
            resid(c, "geig", fname + ":eigenvalues", w - wref, scale, n, what + ": W vs reference")
            # B on exit: Cholesky factor in the uplo triangle
            T = np.tril(B.get()) if uplo == "L" else np.triu(B.get())
            rec = T @ R.H(T) if uplo == "L" else R.H(T) @ T
            resid(c, "factor", fname + ":B-not-cholesky-factor", rec - B0, nB, n, what + ": B on exit is not the Cholesky factor")
            if jobz == "V":
                Zm = A.get()
                if itype == 1:
                    Rs = A0 @ Zm - (B0 @ Zm) * w; sc = nA * E.nrm(Zm) + nB * E.nrm(Zm) * float(np.max(np.abs(w)))
                    Or = R.H(Zm) @ B0 @ Zm - np.eye(n); so = nB * E.nrm(Zm) ** 2
                elif itype == 2:
                    Rs = A0 @ (B0 @ Zm) - Zm * w; sc = nA * nB * E.nrm(Zm)
                    Or = R.H(Zm) @ B0 @ Zm - np.eye(n); so = nB * E.nrm(Zm) ** 2
                else:
                    Rs = B0 @ (A0 @ Zm) - Zm * w; sc = nA * nB * E.nrm(Zm)
                    Bi = np.linalg.inv(B0)
                    Or = R.H(Zm) @ Bi @ Zm - np.eye(n); so = E.nrm(Bi) * E.nrm(Zm) ** 2
                resid(c, "geig", fname + ":eigen-residual", Rs, sc, n, what + ": generalised eigen equation")
                resid(c, "geig", fname + ":eigenvectors-not-B-orthonormal", Or, so, n, what + ": Z^H B Z - I (resp. B^-1)")
    if variant == "ldA+offsetA" and len(c.failed) > nfail0:
        # one mechanism, many symptoms (exception, wrong values, writes outside A): a single stable key
        sub = c.failed[nfail0:]
        del c.failed[nfail0:]
        c.fail("%s:wrong-with-offsetA-and-default-ldB" % fname,
               "%s(A, B, W, n=, ldA=, offsetA=%d) with B, W natural misbehaves: %s" % (fname, A.off, "; ".join(f["key"] for f in sub)),
               symptoms=[{"key": f["key"], "msg": f["msg"]} for f in sub])
    c.cls("gv", fname, tc, variant, itype, jobz, uplo, E.sz(n))


# ============================================================================
# singular value decomposition:  gesvd gesdd
# ============================================================================
def fam_svd(E, c):
    np, R, Blk, call, resid, foot = E.np, E.R, E.Blk, E.call, E.resid, E.foot
    rng = c.rng
    fname = rng.choice(["gesvd", "gesdd"])
    tc, m, n, mode = E.pick_tc(rng), E.pick_n(rng), E.pick_n(rng), E.pick_mode(rng)
    k = min(m, n)
    A0 = R.wellcond(rng, m, n, tc)
    sref = np.linalg.svd(A0, compute_uv=False) if k else np.zeros(0)
    A = Blk(rng, A0, tc, mode, "A")
    S = Blk(rng, np.zeros(k), "d", mode, "S", tcrule="fixed")
    kw = {}
    Ub = Vb = None
    if fname == "gesvd":
        jobu, jobvt = rng.choice("NASO"), rng.choice("NASO")
        if jobu == "O" and jobvt == "O":
            jobvt = rng.choice("NAS")
        ushape = {"A": (m, m), "S": (m, k)}.get(jobu)
        vshape = {"A": (n, n), "S": (k, n)}.get(jobvt)
        if jobu != "N" or rng.random() < 0.5:
            kw["jobu"] = jobu
        if jobvt != "N" or rng.random() < 0.5:
            kw["jobvt"] = jobvt
        opts = jobu + jobvt
    else:
        jobz = rng.choice("NASO")
        if jobz == "A":
            ushape, vshape = (m, m), (n, n)
        elif jobz == "S":
            ushape, vshape = (m, k), (k, n)
        elif jobz == "O":
            ushape, vshape = (None, (n, n)) if m >= n else ((m, m), None)
        else:
            ushape = vshape = None
        jobu = jobz if jobz != "O" else ("O" if m >= n else "A")
        jobvt = jobz if jobz != "O" else ("A" if m >= n else "O")
        if jobz != "N" or rng.random() < 0.5:
            kw["jobz"] = jobz
        opts = jobz
    if ushape:
        Ub = Blk(rng, R.rnd(rng, ushape[0], ushape[1], tc, 5, 9), tc, mode, "U")
        kw["U"] = Ub; kw.update(Ub.kw("ldU", "offsetU"))
    if vshape:
        Vb = Blk(rng, R.rnd(rng, vshape[0], vshape[1], tc, 5, 9), tc, mode, "Vt")
        kw["Vt"] = Vb; kw.update(Vb.kw("ldVt", "offsetVt"))
    kw.update(E.dims(mode, m=m, n=n)); kw.update(A.kw("ldA", "offsetA")); kw.update(S.kw(None, "offsetS"))
    ok, _ = call(c, fname, [A, S], kw, mutable=m > 0 and n > 0, grow=["m", "n"])
    if ok:
        foot(c, fname, A, S, Ub, Vb)
        if k:
            what = "%s(%s,%dx%d)" % (fname, opts, m, n)
            s = S.vec()[:k]
            nA = float(sref[0])
            c.require(bool(np.all(s >= 0)) and bool(np.all(np.diff(s) <= 0)), fname + ":singular-values-not-sorted",
                      what + ": S must be nonnegative and descending", S=s)
            resid(c, "svd", fname + ":singular-values", s - sref, nA, max(m, n), what + ": S vs numpy")
            Um = {"A": lambda: Ub.get(), "S": lambda: Ub.get(), "O": lambda: A.get()[:, :k], "N": lambda: None}[jobu]()
            Vm = {"A": lambda: Vb.get(), "S": lambda: Vb.get(), "O": lambda: A.get()[:k, :], "N": lambda: None}[jobvt]()
            if Um is not None:
                resid(c, "orth", fname + ":U-not-orthonormal", R.H(Um) @ Um - np.eye(Um.shape[1]), 1.0, m, what + ": U^H U - I")
            if Vm is not None:
                resid(c, "orth", fname + ":Vt-not-orthonormal", Vm @ R.H(Vm) - np.eye(Vm.shape[0]), 1.0, n, what + ": Vt Vt^H - I")
            if Um is not None and Vm is not None:
                resid(c, "svd", fname + ":reconstruct", (Um[:, :k] * s) @ Vm[:k, :] - A0, nA, max(m, n), what + ": U S Vt - A")
            elif Um is not None:
                resid(c, "svd", fname + ":left-vectors", A0 @ R.H(A0) @ Um[:, :k] - Um[:, :k] * s ** 2, nA * nA, max(m, n),
                      what + ": A A^H U - U S^2")
            elif Vm is not None:
                V1 = R.H(Vm[:k, :])
                resid(c, "svd", fname + ":right-vectors", R.H(A0) @ A0 @ V1 - V1 * s ** 2, nA * nA, max(m, n),
                      what + ": A^H A V - V S^2")
    c.cls("svd", fname, tc, mode, opts, E.sz(m), E.sz(n), "ge" if m >= n else "lt")


# ============================================================================
# Schur:  gees gges
# ============================================================================
def _quasi_ok(E, c, fname, T, tc, what):
    """T upper triangular ('z') or quasi upper triangular with 2x2 blocks of complex pairs ('d')"""
    np = E.np
    n = T.shape[0]
    if tc == "z":
        return c.require(bool(np.all(np.tril(T, -1) == 0)), fname + ":not-upper-triangular", what + ": nonzero below the diagonal", T=T)
    good = bool(np.all(np.tril(T, -2) == 0))
    sub = [T[i + 1, i] != 0 for i in range(n - 1)]
    good = good and not any(sub[i] and sub[i + 1] for i in range(n - 2))
    return c.require(good, fname + ":not-quasi-triangular", what + ": not upper quasi-triangular with 1x1/2x2 blocks", T=T)


def fam_gees(E, c):
    np, R, Blk, call, resid, foot = E.np, E.R, E.Blk, E.call, E.resid, E.foot
    rng = c.rng
    tc, n, mode = E.pick_tc(rng), E.pick_n(rng), E.pick_mode(rng)
    A0 = R.schur_planted(rng, n, tc)
    ev = np.linalg.eigvals(A0) if n else np.zeros(0, dtype=complex)
    A = Blk(rng, A0, tc, mode, "A")
    kw = {}
    wb = Vb = None
    if rng.random() < 0.75:
        wb = Blk(rng, np.zeros(n), "z", mode, "w", tcrule="fixed")
        kw["w"] = wb; kw.update(wb.kw(None, "offsetw"))
    if rng.random() < 0.75:
        Vb = Blk(rng, R.rnd(rng, n, n, tc, 5, 9), tc, mode, "V")
        kw["V"] = Vb; kw.update(Vb.kw("ldV", "offsetV"))
    sel, selname = _pick_select(E, rng, ev, tc)
    if sel is not None:
        E.ctx.count("select.used")
        # the manual: "select ... returns True or False"; integers 0/1 are what the C call-back conversion documents
        # ("must return an integer") - both forms are in use
        _rt = rng.choice(["bool", "int"])
        E.ctx.count("select.returns-" + _rt)
        kw["select"] = (lambda s: bool(sel(s))) if _rt == "bool" else (lambda s: int(bool(sel(s))))
    kw.update(E.dims(mode, n=n)); kw.update(A.kw("ldA", "offsetA"))
    ok, sdim = call(c, "gees", [A], kw, mutable=n > 0, grow=["n"])
    if ok:
        foot(c, "gees", A, wb, Vb)
        what = "gees(%s,n=%d,select=%s)" % (tc, n, selname)
        if n:
            T = A.get()
            _quasi_ok(E, c, "gees", T, tc, what)
            nA = E.nrm(A0)
            if Vb is not None:
                V = Vb.get()
                resid(c, "schur", "gees:reconstruct", V @ T @ R.H(V) - A0, nA, n, what + ": V S V^H - A")
                resid(c, "orth", "gees:V-not-unitary", R.H(V) @ V - np.eye(n), 1.0, n, what + ": V^H V - I")
            # eigenvalues along the diagonal (blocks for the real form)
            wT = _block_eigs(E, T, tc)
            resid(c, "schur", "gees:spectrum", _spec_dist(np, wT, ev), max(nA, 1e-300) * 1e6, n,
                  what + ": eigenvalues of S vs numpy.linalg.eigvals(A) (loose)")
            wv = wT
            if wb is not None:
                wv = wb.vec()[:n]
                d = _match_pairs(np, wv, wT)
                resid(c, "schur", "gees:w-differs-from-diagonal", d, nA, n, what + ": w vs eigenvalues of the diagonal blocks of S")
            if sel is not None:
                flags = [bool(sel(complex(z)) or (tc == "d" and sel(complex(z).conjugate()))) for z in wv]
                cnt = sum(flags)
                c.require(sdim == cnt, "gees:sdim", what + ": returned sdim=%r, %d eigenvalues satisfy select" % (sdim, cnt), w=wv)
                c.require(all(flags[:cnt]) and not any(flags[cnt:]), "gees:selected-not-leading",
                          what + ": selected eigenvalues do not lead the diagonal", flags=flags, w=wv)
            else:
                c.require(sdim == 0, "gees:sdim", what + ": sdim=%r without select" % (sdim,))
        else:
            c.require(sdim in (0, None), "gees:sdim", "n=0 but sdim=%r" % (sdim,))
    c.cls("gees", tc, mode, E.sz(n), "w" if wb else "-", "V" if Vb else "-", selname)


def _spec_dist(np, a, b):
    """distances of a greedy nearest-neighbour matching of two spectra"""
    a = [complex(z) for z in a]
    b = [complex(z) for z in b]
    out = []
    for z in a:
        j = min(range(len(b)), key=lambda i: abs(b[i] - z))
        out.append(abs(b[j] - z))
        b.pop(j)
    return np.array(out)


def _match_pairs(np, a, b):
    """difference a-b where inside conjugate pairs the order is free"""
    a, b = np.array(a, dtype=complex), np.array(b, dtype=complex)
    d = a - b
    i = 0
    while i + 1 < len(a):
        if abs(b[i].imag) > 0 and abs(b[i] - np.conj(b[i + 1])) <= 1e-12 * max(1.0, abs(b[i])):
            alt = np.array([a[i] - b[i + 1], a[i + 1] - b[i]])
            if np.linalg.norm(alt) < np.linalg.norm(d[i:i + 2]):
                d[i:i + 2] = alt
            i += 2
        else:
            i += 1
    return d


def _block_eigs(E, T, tc):
    np, R = E.np, E.R
    n = T.shape[0]
    if tc == "z":
        return np.array(np.diag(T), dtype=complex)
    out = []
    for st, szb in R.quasi_blocks(T):
        if szb == 1:
            out.append(complex(T[st, st]))
        else:
            ev = np.linalg.eigvals(T[st:st + 2, st:st + 2])
            ev = sorted(ev, key=lambda z: -z.imag)
            out.extend([complex(ev[0]), complex(ev[1])])
    return np.array(out, dtype=complex)


def _pick_select(E, rng, ev, tc, gen=False):
    """a select predicate with a safety margin around the planted spectrum, or None"""
    np = E.np
    n = len(ev)
    r = rng.random()
    if r < 0.3 or n == 0:
        return None, "none"
    if r < 0.45:
        return (lambda s: False), "never"
    if r < 0.55:
        return (lambda s: True), "always"
    if r < 0.8 or n < 2:
        re = np.sort(np.real(ev))
        gaps = np.diff(re)
        if len(gaps) and gaps.max() >= 0.1:
            i = int(np.argmax(gaps)) if rng.random() < 0.5 else rng.choice([j for j in range(len(gaps)) if gaps[j] >= 0.1])
            t = 0.5 * (re[i] + re[i + 1])
        else:
            t = float(re[0]) - 1.0 if len(re) else 0.0
        if rng.random() < 0.5:
            return (lambda s, t=t: bool(s.real < t)), "re<t"
        return (lambda s, t=t: bool(s.real > t)), "re>t"
    im = np.abs(np.imag(ev))
    if np.any((im > 1e-9) & (im < 0.1)):
        return (lambda s: False), "never"
    if rng.random() < 0.5:
        # true for the member of a conjugate pair with NEGATIVE imaginary part only ("f(s) or f(conj(s))" selects the pair)
        return (lambda s: bool(s.imag < -0.05)), "im<0"
    return (lambda s: bool(s.imag > 0.05)), "im>0"


def fam_gges(E, c):
    np, R, Blk, call, resid, foot = E.np, E.R, E.Blk, E.call, E.resid, E.foot
    rng = c.rng
    tc, n, mode = E.pick_tc(rng), E.pick_n(rng), E.pick_mode(rng)
    # planted pencil: A = Ql S0 Qr^H, B = Ql T0 Qr^H, T0 upper triangular with diagonal in [0.5,2]
    S0 = R.schur_planted(rng, n, tc)
    T0 = np.triu(R.rnd(rng, n, n, tc, -0.3, 0.3), 1) + np.diag([rng.uniform(0.5, 2.0) for _ in range(n)]) if n else np.zeros((0, 0))
    Ql, Qr = R.orth(rng, n, tc), R.orth(rng, n, tc)
    A0 = Ql @ S0 @ R.H(Qr) if n else np.zeros((0, 0), dtype=R.dtype_of(tc))
    B0 = (Ql @ T0 @ R.H(Qr)).astype(R.dtype_of(tc)) if n else np.zeros((0, 0), dtype=R.dtype_of(tc))
    ev = np.linalg.eigvals(np.linalg.solve(B0, A0)) if n else np.zeros(0, dtype=complex)
    A, B = Blk(rng, A0, tc, mode, "A"), Blk(rng, B0, tc, mode, "B")
    kw = {}
    ab = bb = Vl = Vr = None
    if rng.random() < 0.75:
        ab = Blk(rng, np.zeros(n), "z", mode, "a", tcrule="fixed")
        bb = Blk(rng, np.zeros(n), "d", mode, "b", tcrule="fixed")
        kw["a"] = ab; kw["b"] = bb; kw.update(ab.kw(None, "offseta")); kw.update(bb.kw(None, "offsetb"))
    r = rng.random()
    if r < 0.6 or (0.6 <= r < 0.75):
        Vl = Blk(rng, R.rnd(rng, n, n, tc, 5, 9), tc, mode, "Vl")
        kw["Vl"] = Vl; kw.update(Vl.kw("ldVl", "offsetVl"))
    if r < 0.6 or (0.75 <= r < 0.9):
        Vr = Blk(rng, R.rnd(rng, n, n, tc, 5, 9), tc, mode, "Vr")
        kw["Vr"] = Vr; kw.update(Vr.kw("ldVr", "offsetVr"))
    sel1, selname = _pick_select(E, rng, ev, tc)
    sel = None
    if sel1 is not None:
        E.ctx.count("select.used")
        sel = lambda x, y: bool(sel1(x / y)) if y != 0 else False
        _rt = rng.choice(["bool", "int"])
        E.ctx.count("select.returns-" + _rt)
        kw["select"] = (lambda x, y: bool(sel(x, y))) if _rt == "bool" else (lambda x, y: int(bool(sel(x, y))))
    kw.update(E.dims(mode, n=n)); kw.update(A.kw("ldA", "offsetA")); kw.update(B.kw("ldB", "offsetB"))
    ok, sdim = call(c, "gges", [A, B], kw, mutable=n > 0, grow=["n"])
    if ok:
        foot(c, "gges", A, B, ab, bb, Vl, Vr)
        what = "gges(%s,n=%d,select=%s)" % (tc, n, selname)
        if n:
            S, T = A.get(), B.get()
            _quasi_ok(E, c, "gges", S, tc, what + " S")
            c.require(bool(np.all(np.tril(T, -1) == 0)), "gges:T-not-upper-triangular", what + ": T has nonzeros below the diagonal", T=T)
            td = np.diag(T)
            if sel is None:
                # (after a select-driven reordering the reference LAPACK itself may leave a negative entry in a
                # 2x2 block of T; that is outside the repository and not demanded here)
                c.require(bool(np.all(np.abs(np.imag(td)) == 0)) and bool(np.all(np.real(td) >= 0)), "gges:T-diagonal-not-nonnegative",
                          what + ": diagonal of T must be real and nonnegative", diag=td)
            nA, nB = E.nrm(A0), E.nrm(B0)
            if Vl is not None and Vr is not None:
                L_, R_ = Vl.get(), Vr.get()
                resid(c, "schur", "gges:reconstruct-A", L_ @ S @ R.H(R_) - A0, nA, n, what + ": Vl S Vr^H - A")
                resid(c, "schur", "gges:reconstruct-B", L_ @ T @ R.H(R_) - B0, nB, n, what + ": Vl T Vr^H - B")
            elif Vl is not None:
                L_ = Vl.get()
                resid(c, "schur", "gges:reconstruct-A", R.H(L_) @ A0 @ R.H(A0) @ L_ - S @ R.H(S), nA * nA, n, what + ": Vl^H A A^H Vl - S S^H")
                resid(c, "schur", "gges:reconstruct-B", R.H(L_) @ B0 @ R.H(B0) @ L_ - T @ R.H(T), nB * nB, n, what + ": Vl^H B B^H Vl - T T^H")
            elif Vr is not None:
                R_ = Vr.get()
                resid(c, "schur", "gges:reconstruct-A", R.H(R_) @ R.H(A0) @ A0 @ R_ - R.H(S) @ S, nA * nA, n, what + ": Vr^H A^H A Vr - S^H S")
                resid(c, "schur", "gges:reconstruct-B", R.H(R_) @ R.H(B0) @ B0 @ R_ - R.H(T) @ T, nB * nB, n, what + ": Vr^H B^H B Vr - T^H T")
            for nm, Vb in (("Vl", Vl), ("Vr", Vr)):
                if Vb is not None:
                    resid(c, "orth", "gges:%s-not-unitary" % nm, R.H(Vb.get()) @ Vb.get() - np.eye(n), 1.0, n, what + ": %s^H %s - I" % (nm, nm))
            # generalised eigenvalues
            if ab is not None:
                av, bv = ab.vec()[:n], bb.vec()[:n]
                # each (a_i, b_i) must make the pencil of its diagonal block singular:  b_i S_blk - a_i T_blk
                blocks = [(i, 1) for i in range(n)] if tc == "z" else R.quasi_blocks(S)
                worst, wscale = 0.0, 1.0
                res = []
                for st, szb in blocks:
                    for i in range(st, st + szb):
                        M = bv[i] * S[st:st + szb, st:st + szb] - av[i] * T[st:st + szb, st:st + szb]
                        smin = np.linalg.svd(M, compute_uv=False)[-1]
                        res.append(smin / max(abs(bv[i]) * E.nrm(S[st:st + szb, st:st + szb]) + abs(av[i]) * E.nrm(T[st:st + szb, st:st + szb]), 1e-300))
                resid(c, "schur", "gges:a-b-not-eigenvalues-of-blocks", np.array(res), 1.0, n, what + ": b_i S_kk - a_i T_kk singular")
                if sel is None:
                    c.require(bool(np.all(bv >= 0)), "gges:b-negative", what + ": b must be nonnegative", b=bv)
                lam = av / bv
                resid(c, "schur", "gges:spectrum", _spec_dist(np, lam, ev), max(float(np.max(np.abs(ev))), 1e-300) * 1e6, n,
                      what + ": a/b vs numpy eigenvalues of B^-1 A (loose)")
                if sel is not None:
                    flags = [bool(sel(complex(x), float(y)) or (tc == "d" and sel(complex(x).conjugate(), float(y)))) for x, y in zip(av, bv)]
                    cnt = sum(flags)
                    c.require(sdim == cnt, "gges:sdim", what + ": returned sdim=%r, %d eigenvalues satisfy select" % (sdim, cnt), a=av, b=bv)
                    c.require(all(flags[:cnt]) and not any(flags[cnt:]), "gges:selected-not-leading",
                              what + ": selected eigenvalues do not lead the diagonal", flags=flags)
            if sel is None:
                c.require(sdim == 0, "gges:sdim", what + ": sdim=%r without select" % (sdim,))
            elif ab is None:
                cntref = sum(1 for z in ev if sel1(complex(z)) or (tc == "d" and sel1(complex(z).conjugate())))
                c.require(sdim == cntref, "gges:sdim", what + ": returned sdim=%r, %d reference eigenvalues satisfy select" % (sdim, cntref))
        else:
            c.require(sdim in (0, None), "gges:sdim", "n=0 but sdim=%r" % (sdim,))
    c.cls("gges", tc, mode, E.sz(n), "ab" if ab else "-", ("l" if Vl else "-") + ("r" if Vr else "-"), selname)


# ============================================================================
# auxiliary:  lacpy larfg larfx
# ============================================================================
def fam_aux(E, c):
    np, R, Blk, call, resid, foot = E.np, E.R, E.Blk, E.call, E.resid, E.foot
    rng = c.rng
    which = rng.choice(["lacpy", "larfg", "larfx"])
    tc, mode = E.pick_tc(rng), E.pick_mode(rng)
    if which == "lacpy":
        m, n, uplo = E.pick_n(rng), E.pick_n(rng), rng.choice("NLU")
        A0, B0 = R.rnd(rng, m, n, tc), R.rnd(rng, m, n, tc, 5, 9)
        A, B = Blk(rng, A0, tc, mode, "A"), Blk(rng, B0, tc, mode, "B")
        kw = E.dims(mode, m=m, n=n); kw.update(A.kw("ldA", "offsetA")); kw.update(B.kw("ldB", "offsetB"))
        if uplo != "N" or rng.random() < 0.5:
            kw["uplo"] = uplo
        ok, _ = call(c, "lacpy", [A, B], kw, mutable=m > 0 and n > 0, grow=["m", "n"])
        if ok:
            msk = np.ones((m, n), dtype=bool) if uplo == "N" else (np.tril(np.ones((m, n), dtype=bool)) if uplo == "L"
                                                                     else np.triu(np.ones((m, n), dtype=bool)))
            got = B.get()
            c.require(got[msk].tobytes() == A0[msk].tobytes(), "lacpy:part-not-copied", "lacpy(uplo=%s): copied part differs from A" % uplo,
                      got=got, A=A0)
            c.require(got[~msk].tobytes() == B0[~msk].tobytes(), "lacpy:footprint-triangle",
                      "lacpy(uplo=%s) changed B outside the copied part" % uplo, got=got, B=B0)
            E.untouched(c, "lacpy", "A-modified", A)
            foot(c, "lacpy", B)
        c.cls("lacpy", tc, mode, uplo, E.sz(m), E.sz(n))
    elif which == "larfg":
        nx = rng.choice([0, 1, 1, 2, 3, 5, 8])
        kindx = rng.choice(["rand", "rand", "zero"])
        x0 = R.rnd(rng, nx, 1, tc) if kindx == "rand" else np.zeros((nx, 1), dtype=R.dtype_of(tc))
        al0 = R.rnd(rng, 1, 1, tc)
        if tc == "z" and rng.random() < 0.3:
            al0 = al0.real.astype(complex)
        al = Blk(rng, al0, tc, mode, "alpha")
        x = Blk(rng, x0, tc, mode, "x")
        kw = E.dims(mode, n=nx + 1); kw.update(al.kw(None, "offseta")); kw.update(x.kw(None, "offsetx"))
        ok, tau = call(c, "larfg", [al, x], kw, mutable=nx > 0, grow=["n"])
        if ok:
            foot(c, "larfg", al, x)
            beta = al.vec()[0]
            v = np.concatenate([[1.0], x.vec()[:nx]])
            tau = complex(tau) if tc == "z" else float(tau)
            Hm = np.eye(nx + 1) - tau * np.outer(v, np.conj(v))
            y0 = np.concatenate([al0.reshape(-1), x0.reshape(-1)])
            want = np.zeros(nx + 1, dtype=y0.dtype); want[0] = beta
            resid(c, "aux", "larfg:reflection", R.H(Hm) @ y0 - want, E.nrm(y0), nx + 1, "larfg: H^H [alpha;x] - [beta;0]")
            resid(c, "aux", "larfg:H-not-unitary", R.H(Hm) @ Hm - np.eye(nx + 1), 1.0, nx + 1, "larfg: H^H H - I")
            c.require(abs(complex(beta).imag) == 0.0, "larfg:beta-not-real", "beta must be real", beta=beta)
            resid(c, "aux", "larfg:beta-norm", np.array([abs(beta) - E.nrm(y0)]), E.nrm(y0), nx + 1, "larfg: |beta| = ||[alpha;x]||")
        c.cls("larfg", tc, mode, E.sz(nx), kindx)
    else:
        m, n, side = E.pick_n(rng), E.pick_n(rng), rng.choice("LR")
        lv = m if side == "L" else n
        v0, C0 = R.rnd(rng, lv, 1, tc), R.rnd(rng, m, n, tc)
        if lv and rng.random() < 0.5:
            v0[0, 0] = 1.0
        tau = complex(rng.uniform(-1, 2), rng.uniform(-1, 1)) if (tc == "z" and rng.random() < 0.7) else rng.uniform(-1, 2)
        if rng.random() < 0.1:
            tau = 0.0
        v = Blk(rng, v0, tc, mode, "v")
        Cb = Blk(rng, C0, tc, mode, "C")
        kw = E.dims(mode, m=m, n=n); kw.update(v.kw(None, "offsetv")); kw.update(Cb.kw("ldC", "offsetC"))
        if side == "R" or rng.random() < 0.5:
            kw["side"] = side
        ok, _ = call(c, "larfx", [v, tau, Cb], kw, mutable=m > 0 and n > 0, grow=["m", "n"])
        if ok:
            foot(c, "larfx", Cb)
            E.untouched(c, "larfx", "v-modified", v)
            Hm = np.eye(lv) - tau * (v0 @ R.H(v0))
            want = Hm @ C0 if side == "L" else C0 @ Hm
            resid(c, "aux", "larfx:wrong-product", Cb.get() - want, E.nrm(C0) * (1 + abs(tau) * E.nrm(v0) ** 2), max(m, n, 1),
                  "larfx(side=%s,%dx%d): H C" % (side, m, n))
        c.cls("larfx", tc, mode, side, E.sz(m), E.sz(n), "ctau" if isinstance(tau, complex) else "rtau")


# ============================================================================
# exactly singular / not positive definite inputs  ->  ArithmeticError
# ============================================================================
SING = ["gesv", "gesv+ipiv", "getrf", "getri", "gbsv", "gbsv+ipiv", "gbtrf", "gtsv", "gttrf", "posv", "potrf",
        "pbsv", "pbtrf", "ptsv", "pttrf", "sysv", "sysv+ipiv", "sytrf", "hesv", "hesv+ipiv", "hetrf",
        "trtrs", "trtri", "tbtrs", "sygv", "hegv", "gels"]


def _int_matrix(rng, m, n, tc, lo=-3, hi=3):
    import numpy as np
    a = np.array([[rng.randint(lo, hi) for _ in range(n)] for _ in range(m)], dtype=float).reshape(m, n)
    if tc == "z":
        a = a + 1j * np.array([[rng.randint(lo, hi) for _ in range(n)] for _ in range(m)], dtype=float).reshape(m, n)
    return a


def fam_sing(E, c):
    np, R, Blk, call = E.np, E.R, E.Blk, E.call
    rng = c.rng
    which = SING[(c.k // 23 + rng.randrange(len(SING))) % len(SING)]
    fname = which.split("+")[0]
    withp = which.endswith("+ipiv")
    tc = E.pick_tc(rng, "d" if fname == "sygv" else "dz")
    mode = E.pick_mode(rng)
    n = rng.randint(2, 6)
    nrhs = rng.choice([1, 2])
    j = rng.randrange(n)
    uplo = rng.choice("LU")
    B0 = R.rnd(rng, n, nrhs, tc)
    ERR = ArithmeticError
    how = ""
    junk = lambda p, q: 7.5
    if fname in ("gesv", "getrf"):
        A0 = _int_matrix(rng, n, n, tc)
        how = rng.choice(["zero-column", "duplicate-rows", "zero-row"])
        if how == "zero-column":
            A0[:, j] = 0
        elif how == "zero-row":
            A0[j, :] = 0
        else:
            # two identical rows that own the largest entry (4 = power of two) of the first column: the first
            # elimination step picks one of them, the multiplier of the other is exactly 1, its row becomes exactly 0
            i2 = (j + 1 + rng.randrange(n - 1)) % n
            for r_ in range(n):
                A0[r_, 0] = rng.randint(-1, 1) + (1j * rng.randint(-1, 1) if tc == "z" else 0)
            A0[j, 0] = 4.0
            A0[i2, :] = A0[j, :]
        c.desc.update({"how": how, "A": A0})
        A = Blk(rng, A0, tc, mode, "A")
        kw = E.dims(mode, n=n); kw.update(A.kw("ldA", "offsetA"))
        if fname == "gesv":
            B = Blk(rng, B0, tc, mode, "B")
            kw.update(E.dims(mode, nrhs=nrhs)); kw.update(B.kw("ldB", "offsetB"))
            args = [A, B] + ([Blk(rng, np.zeros(n), "i", mode, "ipiv", nooff=True)] if withp else [])
        else:
            kw.update(E.dims(mode, m=n))
            args = [A, Blk(rng, np.zeros(n), "i", mode, "ipiv", nooff=True)]
        call(c, fname, args, kw, expect=ERR)
        if fname == "gesv" and not withp:
            E.untouched(c, "gesv", "A-modified-without-ipiv", A)
    elif fname == "gels":
        # exactly rank-deficient least-squares / least-norm problems: a zero column (m >= n) or a zero row (m < n) puts an
        # exact zero on the diagonal of the triangular factor; the documented ArithmeticError must be raised
        # (an entirely zero A is no error for LAPACK: dgels returns X = 0; keep at least one nonzero row)
        m_ = n + rng.choice([0, 1, 2]) if (rng.random() < 0.6 or n < 3) else n - 1
        A0 = _int_matrix(rng, m_, n, tc, 1, 4)
        if m_ >= n:
            A0[:, j] = 0; how = "zero-column"
        else:
            A0[rng.randrange(m_), :] = 0; how = "zero-row"
        Bs = R.rnd(rng, max(m_, n), nrhs, tc)
        A, B = Blk(rng, A0, tc, mode, "A"), Blk(rng, Bs, tc, mode, "B")
        kw = E.dims(mode, m=m_, n=n, nrhs=nrhs); kw.update(A.kw("ldA", "offsetA")); kw.update(B.kw("ldB", "offsetB"))
        c.desc.update({"how": how, "A": A0})
        call(c, "gels", [A, B], kw, expect=ERR)
    elif fname == "getri":
        A0 = np.triu(_int_matrix(rng, n, n, tc)) + np.diag(np.arange(1, n + 1))
        A0[j, j] = 0
        how = "zero-U-diagonal"
        A = Blk(rng, A0, tc, mode, "A")
        ip = Blk(rng, np.arange(1, n + 1), "i", mode, "ipiv", nooff=True)
        kw = E.dims(mode, n=n); kw.update(A.kw("ldA", "offsetA"))
        call(c, "getri", [A, ip], kw, expect=ERR)
    elif fname in ("gbsv", "gbtrf"):
        kl, ku = rng.choice([0, 1, 2]), rng.choice([0, 1, 2])
        A0 = _int_matrix(rng, n, n, tc, 1, 4)
        for i in range(n):
            for q in range(n):
                if i - q > kl or q - i > ku:
                    A0[i, q] = 0
        A0[:, j] = 0
        how = "zero-column"
        if fname == "gbsv":
            A = Blk(rng, R.gb_pack(A0, kl, ku, kl if withp else 0, junk), tc, mode, "A")
            B = Blk(rng, B0, tc, mode, "B")
            kw = E.dims(mode, n=n, nrhs=nrhs, ku=ku); kw.update(A.kw("ldA", "offsetA")); kw.update(B.kw("ldB", "offsetB"))
            args = [A, kl, B] + ([Blk(rng, np.zeros(n), "i", mode, "ipiv", nooff=True)] if withp else [])
            call(c, "gbsv", args, kw, expect=ERR)
            if not withp:
                E.untouched(c, "gbsv", "A-modified-without-ipiv", A)
        else:
            A = Blk(rng, R.gb_pack(A0, kl, ku, kl, junk), tc, mode, "A")
            kw = E.dims(mode, n=n, ku=ku); kw.update(A.kw("ldA", "offsetA"))
            call(c, "gbtrf", [A, n, kl, Blk(rng, np.zeros(n), "i", mode, "ipiv", nooff=True)], kw, expect=ERR)
    elif fname in ("gtsv", "gttrf"):
        A0 = np.triu(np.tril(_int_matrix(rng, n, n, tc, 1, 4), 1), -1)
        A0[:, j] = 0
        how = "zero-column"
        dl = Blk(rng, np.array([A0[i + 1, i] for i in range(n - 1)]), tc, mode, "dl")
        d = Blk(rng, np.array([A0[i, i] for i in range(n)]), tc, mode, "d")
        du = Blk(rng, np.array([A0[i, i + 1] for i in range(n - 1)]), tc, mode, "du")
        kw = E.dims(mode, n=n); kw.update(dl.kw(None, "offsetdl")); kw.update(d.kw(None, "offsetd")); kw.update(du.kw(None, "offsetdu"))
        if fname == "gtsv":
            B = Blk(rng, B0, tc, mode, "B")
            kw.update(E.dims(mode, nrhs=nrhs)); kw.update(B.kw("ldB", "offsetB"))
            call(c, "gtsv", [dl, d, du, B], kw, expect=ERR)
        else:
            call(c, "gttrf", [dl, d, du, Blk(rng, np.zeros(n - 2), tc, mode, "du2", nooff=True),
                              Blk(rng, np.zeros(n), "i", mode, "ipiv", nooff=True)], kw, expect=ERR)
    elif fname in ("posv", "potrf", "pbsv", "pbtrf", "ptsv", "pttrf"):
        how = rng.choice(["negative-diagonal", "rank-one-psd", "zero-diagonal"])
        band = fname.startswith("pb") or fname.startswith("pt")
        if how == "rank-one-psd":
            A0 = np.ones((n, n), dtype=R.dtype_of(tc))
            if band:                        # [[1,1],[1,1]] block on a unit diagonal: exact zero pivot in the 2nd step
                A0 = np.eye(n, dtype=R.dtype_of(tc)); jj = min(j, n - 2)
                A0[jj:jj + 2, jj:jj + 2] = 1.0
        else:
            A0 = np.eye(n, dtype=R.dtype_of(tc)) * 4.0
            if not band:
                off = _int_matrix(rng, n, n, tc, -1, 1)
                off = np.tril(off, -1) * 0.25
                A0 = A0 + off + R.H(off)
            A0[j, j] = -1.0 if how == "negative-diagonal" else 0.0
        ukw = {"uplo": uplo}
        if fname in ("posv", "potrf"):
            A = Blk(rng, R.junk_other_triangle(rng, A0, uplo, tc), tc, mode, "A")
            kw = E.dims(mode, n=n); kw.update(A.kw("ldA", "offsetA")); kw.update(ukw)
            args = [A]
            if fname == "posv":
                B = Blk(rng, B0, tc, mode, "B"); args.append(B)
                kw.update(E.dims(mode, nrhs=nrhs)); kw.update(B.kw("ldB", "offsetB"))
            call(c, fname, args, kw, expect=ERR)
        elif fname in ("pbsv", "pbtrf"):
            kd = rng.choice([1, 2])
            A = Blk(rng, R.sb_pack(A0, kd, uplo, junk), tc, mode, "A")
            kw = E.dims(mode, n=n, kd=kd); kw.update(A.kw("ldA", "offsetA")); kw.update(ukw)
            args = [A]
            if fname == "pbsv":
                B = Blk(rng, B0, tc, mode, "B"); args.append(B)
                kw.update(E.dims(mode, nrhs=nrhs)); kw.update(B.kw("ldB", "offsetB"))
            call(c, fname, args, kw, expect=ERR)
        else:
            d = Blk(rng, np.real(np.diag(A0)), "d", mode, "d", tcrule="fixed")
            e = Blk(rng, np.array([A0[i + 1, i] for i in range(n - 1)]), tc, mode, "e")
            kw = E.dims(mode, n=n); kw.update(d.kw(None, "offsetd")); kw.update(e.kw(None, "offsete"))
            args = [d, e]
            if fname == "ptsv":
                B = Blk(rng, B0, tc, mode, "B"); args.append(B)
                kw.update(E.dims(mode, nrhs=nrhs)); kw.update(B.kw("ldB", "offsetB"))
            call(c, fname, args, kw, expect=ERR)
    elif fname in ("sysv", "sytrf", "hesv", "hetrf"):
        herm = fname.startswith("he")
        Lh = np.tril(_int_matrix(rng, n, n, tc), -1)
        A0 = Lh + (R.H(Lh) if herm else Lh.T) + np.diag([float(rng.randint(-3, 3)) for _ in range(n)])
        how = rng.choice(["zero-row-and-column", "zero-matrix"])
        if how == "zero-matrix":
            A0 = A0 * 0
        A0[:, j] = 0; A0[j, :] = 0
        A = Blk(rng, R.junk_other_triangle(rng, A0, uplo, tc), tc, mode, "A")
        kw = E.dims(mode, n=n); kw.update(A.kw("ldA", "offsetA")); kw["uplo"] = uplo
        if fname.endswith("sv"):
            B = Blk(rng, B0, tc, mode, "B")
            kw.update(E.dims(mode, nrhs=nrhs)); kw.update(B.kw("ldB", "offsetB"))
            args = [A, B] + ([Blk(rng, np.zeros(n), "i", mode, "ipiv", nooff=True)] if withp else [])
        else:
            args = [A, Blk(rng, np.zeros(n), "i", mode, "ipiv", nooff=True)]
        call(c, fname, args, kw, expect=ERR)
        if fname.endswith("sv") and not withp:
            E.untouched(c, fname, "A-modified-without-ipiv", A)
    elif fname in ("trtrs", "trtri", "tbtrs"):
        T0 = _int_matrix(rng, n, n, tc, 1, 3)
        T0 = np.tril(T0) if uplo == "L" else np.triu(T0)
        T0[j, j] = 0
        how = "zero-diagonal"
        trans = rng.choice("NTC")
        if fname == "tbtrs":
            kd = rng.choice([0, 1, 2])
            A = Blk(rng, R.sb_pack(T0, kd, uplo, junk), tc, mode, "A")
            B = Blk(rng, B0, tc, mode, "B")
            kw = E.dims(mode, n=n, kd=kd, nrhs=nrhs); kw.update(A.kw("ldA", "offsetA")); kw.update(B.kw("ldB", "offsetB"))
            kw.update({"uplo": uplo, "trans": trans, "diag": "N"})
            call(c, "tbtrs", [A, B], kw, expect=ERR)
        else:
            A = Blk(rng, R.junk_other_triangle(rng, T0, uplo, tc), tc, mode, "A")
            kw = E.dims(mode, n=n); kw.update(A.kw("ldA", "offsetA")); kw.update({"uplo": uplo, "diag": "N"})
            args = [A]
            if fname == "trtrs":
                B = Blk(rng, B0, tc, mode, "B"); args.append(B)
                kw.update(E.dims(mode, nrhs=nrhs)); kw.update(B.kw("ldB", "offsetB")); kw["trans"] = trans
            call(c, fname, args, kw, expect=ERR)
    else:   # sygv / hegv with B not positive definite
        A0 = R.herm_with_eigs(rng, R.separated(rng, n), tc)
        Bm = np.eye(n, dtype=R.dtype_of(tc)) * 2.0
        how = rng.choice(["negative-diagonal", "zero-diagonal"])
        Bm[j, j] = -1.0 if how == "negative-diagonal" else 0.0
        A = Blk(rng, A0, tc, mode, "A"); B = Blk(rng, Bm, tc, mode, "B")
        W = Blk(rng, np.zeros(n), "d", mode, "W", tcrule="fixed")
        kw = E.dims(mode, n=n); kw.update(A.kw("ldA", "offsetA")); kw.update(B.kw("ldB", "offsetB")); kw.update(W.kw(None, "offsetW"))
        kw.update({"itype": rng.choice([1, 2, 3]), "jobz": rng.choice("NV"), "uplo": uplo})
        call(c, fname, [A, B, W], kw, expect=ERR)
    c.cls("sing", which, tc, mode, how)


FAMS = [("ge", fam_ge), ("gb", fam_gb), ("gt", fam_gt), ("po", fam_po), ("pb", fam_pb), ("pt", fam_pt),
        ("sy", fam_sy_), ("he", fam_he), ("tr", fam_tr), ("gels", fam_gels), ("qr", fam_qr), ("lq", fam_lq),
        ("qp3", fam_qp3), ("ev", fam_ev), ("evx", fam_evx), ("evx", fam_evx), ("gv", fam_gv), ("svd", fam_svd),
        ("svd", fam_svd), ("gees", fam_gees), ("gges", fam_gges), ("aux", fam_aux), ("sing", fam_sing), ("sing", fam_sing)]


def run(ctx):
    E = make_env(ctx)
    only = ctx.params.get("family")

    def one(c):
        rng = c.rng
        if only:
            name, fn = [f for f in FAMS if f[0] == only][0]
        elif rng.random() < 0.75:
            name, fn = FAMS[(c.k + ctx.worker * 5) % len(FAMS)]
        else:
            name, fn = rng.choice(FAMS)
        c.desc["family"] = name
        ctx.count("family." + name)
        fn(E, c)
        if c.k < 2:
            ctx.sample({"family": name, "class": c.sig})

    for k in ctx.cases():
        ctx.run_case(k, {}, one)
