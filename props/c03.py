"""C03  'optimal' from coneqp/qp satisfies the quadratic-program KKT conditions."""
LEVEL = "exploration"
TECHNIQUE = "runtime monitoring: QP-KKT certificate checker (numpy, P read through its lower triangle only) over generated cone QPs on all coneqp/qp paths"
LEVEL_TEXT = ("every 'optimal' coneqp/qp result observed is re-verified against the caller's P,q,G,h,A,b without the solver; "
              "held on the generated executions, not a proof")
RULE = ("planted strictly feasible cone QPs with P = BB' of every rank 0..n; class signature = entry x cone shape class x "
        "kktsolver x storage x initvals subset x option class x rank class x operator form x no-inequality shortcut")
ASSUMPTIONS = ["P is interpreted through its lower triangle (junk is written into the strict upper triangle in the 'junk' class)",
               "norms of 's' parts in the symmetric ('L' storage) interpretation"]
REQUIRED_COUNTERS = ["optimal.coneqp", "optimal.qp", "kkt.ldl", "kkt.ldl2", "kkt.chol", "kkt.chol2", "kkt.callable",
                     "operators", "no-inequalities", "G-none", "rankP.0", "rankP.deficient", "rankP.full", "junk",
                     "storage.sparse", "initvals.xsyz", "qp.all-zero-sparse-G"]


def plan(tier):
    if tier == "thorough":
        return [{"variant": "plain", "workers": 16, "cases": 12000}]
    return [{"variant": "plain", "workers": 16, "cases": 150}]


def run(ctx):
    from vlib import solve_cases
    solve_cases.run_coneqp_family(ctx)
