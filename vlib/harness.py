"""Worker-side harness: deterministic per-case PRNG, journal, counters,
class signatures, violation records.  Imported by props/*.py inside a worker
process (/venv/bin/python with the scratch build on PYTHONPATH)."""
import os, sys, json, random, time, traceback, signal, hashlib


class CaseTimeout(Exception):
    pass


def _jsonable(o, depth=0):
    if depth > 6:
        return repr(o)[:200]
    if o is None or isinstance(o, (bool, int, str)):
        return o
    if isinstance(o, float):
        if o != o or o in (float("inf"), float("-inf")):
            return repr(o)
        return o
    if isinstance(o, complex):
        return [o.real, o.imag]
    if isinstance(o, dict):
        return {str(k): _jsonable(v, depth + 1) for k, v in o.items()}
    if isinstance(o, (list, tuple, set, frozenset)):
        return [_jsonable(v, depth + 1) for v in o]
    try:
        import numpy as np
        if isinstance(o, np.ndarray):
            return _jsonable(o.tolist(), depth + 1)
        if isinstance(o, np.generic):
            return _jsonable(o.item(), depth + 1)
    except Exception:
        pass
    tn = type(o).__name__
    if tn == "matrix" and hasattr(o, "typecode"):
        return {"matrix": list(o.size), "tc": o.typecode, "v": _jsonable(list(o), depth + 1)}
    if tn == "spmatrix" and hasattr(o, "typecode"):
        return {"spmatrix": list(o.size), "tc": o.typecode, "I": list(o.I), "J": list(o.J),
                "V": _jsonable(list(o.V), depth + 1)}
    return repr(o)[:300]


class Case:
    def __init__(self, ctx, k, desc):
        self.ctx, self.k, self.desc = ctx, k, desc
        self.rng = ctx.case_rng(k)
        self.sig = None
        self.checked = 0
        self.failed = []

    # deciding-monitor bookkeeping -------------------------------------
    def cls(self, *parts):
        """class signature of this case (distinct_nontrivial counts distinct ones)"""
        self.sig = "|".join(str(p) for p in parts)

    def check(self, n=1):
        """n deciding oracle evaluations happened on this case"""
        self.checked += n

    def fail(self, key, msg, **detail):
        """record a violation.  key = mechanism (stable, no random values)"""
        self.failed.append({"key": key, "msg": str(msg)[:2000], "detail": _jsonable(detail)})

    def require(self, cond, key, msg, **detail):
        self.checked += 1
        if not cond:
            self.fail(key, msg, **detail)
        return cond


class Ctx:
    def __init__(self, prop, seed, tier, worker, nworkers, ncases, variant, journal, only=None,
                 params=None):
        self.prop, self.seed, self.tier = prop, seed, tier
        self.worker, self.nworkers, self.ncases = worker, nworkers, ncases
        self.variant = variant
        self.only = only
        self.params = params or {}
        self.jf = open(journal, "a", buffering=1)
        self.counters = {}
        self.maxima = {}
        self.sigs = {}
        self.samples = []
        self.evaluations = 0
        self.cases_run = 0
        self.violations = 0
        self.timeouts = 0
        self.t0 = time.time()
        self.case_timeout = int(self.params.get("case_timeout", 120))

    def case_rng(self, k):
        h = hashlib.sha256(("%s/%s/%d/%d" % (self.seed, self.prop, self.worker, k)).encode()).digest()
        return random.Random(int.from_bytes(h[:8], "big"))

    def count(self, name, n=1):
        self.counters[name] = self.counters.get(name, 0) + n

    def maxobs(self, name, v):
        try:
            v = float(v)
        except Exception:
            return
        if v != v:
            v = float("inf")
        if v > self.maxima.get(name, -1.0):
            self.maxima[name] = v

    def sample(self, obj, limit=4):
        if len(self.samples) < limit:
            self.samples.append(_jsonable(obj))

    def log(self, rec):
        self.jf.write(json.dumps(rec) + "\n")

    def cases(self):
        """iterate case indices of this worker"""
        if self.only is not None:
            yield self.only
            return
        for k in range(self.ncases):
            yield k

    def run_case(self, k, desc, fn):
        """fn(case) generates+executes+judges one case.  Journal 'begin' is
        flushed before fn runs, so a crash leaves a witness."""
        c = Case(self, k, desc)
        cid = "%s-%d-%d-%d" % (self.prop, self.seed, self.worker, k)
        self.log({"begin": cid, "desc": _jsonable(desc)})
        self.jf.flush()
        old = None
        if self.case_timeout:
            def _alarm(signum, frame):
                raise CaseTimeout()
            old = signal.signal(signal.SIGALRM, _alarm)
            signal.alarm(self.case_timeout)
        try:
            fn(c)
        except CaseTimeout:
            self.timeouts += 1
            self.log({"end": cid, "verdict": "timeout"})
            return c
        except MemoryError:
            self.count("harness.MemoryError")
            self.log({"end": cid, "verdict": "memoryerror"})
            return c
        except Exception as e:
            # an exception escaping the property driver itself: harness bug or
            # unexpected behaviour -- never silently 'held'
            c.fail("harness-exception:%s" % type(e).__name__,
                   "".join(traceback.format_exception(type(e), e, e.__traceback__))[-3000:])
        finally:
            if self.case_timeout:
                signal.alarm(0)
                signal.signal(signal.SIGALRM, old)
        self.cases_run += 1
        self.evaluations += c.checked
        if c.sig is not None and c.checked:
            self.sigs[c.sig] = self.sigs.get(c.sig, 0) + 1
        if c.failed:
            self.violations += len(c.failed)
            self.log({"end": cid, "verdict": "violated", "violations": c.failed,
                      "desc": _jsonable(c.desc), "worker": self.worker, "k": k})
        else:
            self.log({"end": cid, "verdict": "ok", "n": c.checked, "desc": _jsonable(c.desc)})
        return c

    def finish(self):
        self.log({"done": True, "worker": self.worker, "cases": self.cases_run,
                  "evaluations": self.evaluations, "counters": self.counters,
                  "maxima": self.maxima, "sigs": self.sigs, "samples": self.samples,
                  "violations": self.violations, "timeouts": self.timeouts,
                  "wall": time.time() - self.t0})
        self.jf.flush()
