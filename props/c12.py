"""C12  op.solve() solves the piecewise-linear problem that was written down.

Problems are generated as shadow trees (vlib/oracle/shadow.py), built with the
real operators, solved by op.solve() (dense, sparse, glpk) and judged against
the oracle's own epigraph LP solved by HiGHS (vlib/oracle/lpref.py)."""

LEVEL = "exploration"
TECHNIQUE = "differential test of op.solve() against an independently derived epigraph LP (HiGHS) plus Lagrangian dual bound"
LEVEL_TEXT = ("random convex piecewise-linear problems (1..3 variables of length 1..4, nested max/abs/sum(max), vector, "
              "scalar, equality and constant-only constraints); status, feasibility of the returned point by the shadow, "
              "optimal value, multiplier shape/sign/dual optimality, None-ness rules, dense == sparse == glpk")
RULE = ("each case = one generated problem solved three ways. distinct = problem class x reference status x "
        "objective class x constraint kinds x number of variables")
ASSUMPTIONS = [
    "HiGHS (scipy.optimize.linprog) on the oracle's own epigraph LP arbitrates status and optimal value",
    "every generated problem has at least one variable and one inequality and satisfies the rank conditions of "
    "solvers.lp (Rank(A)=p, Rank([G;A])=n) on the oracle's matrices; bounded classes contain the box |x| <= 10 as constraints",
    "status 'unknown' is a documented outcome: it is counted, not judged, except on the planted strictly feasible bounded class",
    "dual optimality is judged through the necessary condition  min_{|x|<=R'} L(x, multipliers) >= p* - tol  (R' contains the returned point)",
    "MOSEK is not installed and not exercised",
]
REQUIRED_COUNTERS = ["ref.optimal", "ref.infeasible", "ref.unbounded", "agree.optimal", "agree.infeasible",
                     "agree.unbounded", "check.feasibility", "check.objective", "check.multiplier.length",
                     "check.multiplier.sign", "check.lagrangian", "check.certificate.primal", "check.certificate.dual",
                     "check.none-rules", "format.sparse", "solver.glpk", "class.matrixform", "class.lp", "class.pwl",
                     "con.equality", "con.vector-pwl", "con.constant-only", "obj.pwl", "matrixform.scalar-rhs", "obj.scaled-sum-of-max", "solve.with-stale-values", "check.resolve-after-delete"]


def plan(tier):
    if tier == "thorough":
        return [{"variant": "plain", "workers": 16, "cases": 6000}]
    return [{"variant": "plain", "workers": 16, "cases": 160}]


def run(ctx):
    import numpy as np
    import cvxopt.modeling as M
    from cvxopt import matrix, spmatrix, solvers
    from vlib.oracle import shadow as S, lpref
    solvers.options["show_progress"] = False
    try:
        solvers.options["glpk"] = {"msg_lev": "GLP_MSG_OFF"}
    except Exception:
        pass
    lpref.selftest()
    R = 10.0

    def kcol(vals):
        vals = [float(v) for v in vals]
        return S.K("float", vals[0]) if len(vals) == 1 else S.K("col", vals)

    def gen(rng):
        """-> dict(vars, obj, cons=[{'lhs','rhs','rel','tree','typ','tag'}], cls)"""
        cls = rng.choice(["bounded"] * 6 + ["infeasible"] * 2 + ["unbounded"] * 2 + ["matrixform"] * 2)
        if cls == "matrixform":
            return gen_matrixform(rng)
        vars_ = S.gen_vars(rng)
        g = S.TreeGen(rng, vars_, maxdepth=4, p_sparse=0.2, p_const_first=0.15)
        lp_only = rng.random() < 0.25
        x0 = {v.idx: np.array([round(rng.uniform(-5, 5), 2) for _ in range(v.n)]) for v in vars_}
        want = S.AFF if lp_only or rng.random() < 0.25 else S.CVX
        obj = g.tree(want, 1, rng.randint(1, 3))
        if want == S.CVX and rng.random() < 0.3:
            # a positively scaled sum-of-max term (l1 / hinge terms with a weight): arithmetic ON a sum(max(...)) object
            inner = S.n_abs(g.tree(S.AFF, rng.choice([2, 3, 4]), 1)) if rng.random() < 0.6 else \
                S.n_minmax("max", [g.tree(S.AFF, rng.choice([2, 3]), 1), S.K("float", 0.0)])
            term = S.n_sum(inner)
            a_ = round(rng.uniform(0.5, 3), 1)
            how_ = rng.choice(["lmul", "rmul", "div"])
            if how_ == "lmul":
                term = S.n_smul(S.K("float", a_), term, "l")
            elif how_ == "rmul":
                term = S.n_smul(S.K("float", a_), term, "r")
            else:
                term = S.n_div(term, S.K("float", a_))
            if term.bad is None:
                obj = S.n_add(obj, term)
                ctx.count("obj.scaled-sum-of-max")
        cons = []

        def add(lhs, rhs, rel, tag):
            """rel '<=': lhs <= rhs ; '>=': lhs >= rhs ; '==': lhs == rhs  (documented: function f1 - f2)"""
            if rel == ">=":
                tree = S.n_add(rhs, lhs, -1)
            else:
                tree = S.n_add(lhs, rhs, -1)
            assert tree.bad is None, (tree.bad, rel)
            cons.append({"lhs": lhs, "rhs": rhs, "rel": rel, "tree": tree, "typ": "=" if rel == "==" else "<", "tag": tag})

        def planted(rel):
            L = rng.choice([1, 1, 2, 3, 4])
            d = rng.randint(1, 3)
            if rel == "==":
                a = g.tree(S.AFF, L, d)
                b = g.tree(S.AFF, rng.choice([L, 1]), 1) if rng.random() < 0.4 else None
            else:
                cv = S.AFF if lp_only else S.CVX
                a = g.tree(cv, L, d)
                b = None
                if rng.random() < 0.4:
                    b = g.tree(S.AFF if lp_only else S.CCV, rng.choice([L, 1]), rng.randint(1, 2))
            ha = a.fn(x0) - (S._bc(b.fn(x0), L) if b is not None else 0.0)
            if rel == "==":
                shift = ha
            else:
                shift = ha + np.array([round(rng.uniform(0.5, 3.0), 2) for _ in range(L)])
            if L > 1 and rng.random() < 0.3 and rel != "==":
                shift = np.full(1, float(np.max(shift)))
            k = kcol(np.round(shift, 6))
            rhs = k if b is None else S.n_add(b, k, 1)
            if rel == ">=":          # the same constraint written as  rhs >= a
                add(rhs, a, ">=", "planted")
            else:
                add(a, rhs, rel, "planted")

        ncon = rng.choice([0, 1, 1, 2, 2, 3])
        neq_rows = 0
        ntot = sum(v.n for v in vars_)
        for _ in range(ncon):
            rel = rng.choice(["<=", "<=", ">=", "=="])
            if rel == "==":
                before = len(cons)
                planted("==")
                rows = cons[-1]["tree"].L
                if neq_rows + rows >= ntot or not lpref.rank_ok(vars_, [(c_["tree"], c_["typ"]) for c_ in cons]):
                    del cons[before:]
                else:
                    neq_rows += rows
            else:
                planted(rel)
        if rng.random() < 0.2:          # constants-only constraint
            v = rng.choice(vars_)
            z = S.n_smul(S.K("int", 0), S.n_var(v))
            a = round(rng.uniform(-2, 2), 2)
            add(S.n_add(z, S.K("float", a)), S.K("float", a + round(rng.uniform(0.1, 2), 2)), "<=", "constant-only")
        # bounds
        for v in vars_:
            X = S.n_var(v)
            sides = ["u", "l"]
            if cls == "unbounded" and rng.random() < 0.7:
                sides = [rng.choice(sides)]
            for sd in sides:
                b = S.K("float", R) if rng.random() < 0.6 else S.K("col", [R] * v.n) if v.n > 1 else S.K("int", int(R))
                if sd == "u":
                    add(X, b, "<=", "box")
                else:
                    add(X, n_neg_k(b), ">=", "box")
        if cls == "infeasible":
            how = rng.choice(["bound", "pair", "abs", "constant"])
            if how == "bound":
                v = rng.choice(vars_)
                lo = [-R - 5] * v.n
                lo[rng.randrange(v.n)] = R + round(rng.uniform(0.5, 5), 1)
                add(S.n_var(v), kcol(lo), ">=", "contradiction")
            elif how == "pair":
                s = g.tree(S.AFF, 1, 2)
                cst = round(rng.uniform(-3, 3), 1)
                add(s, S.K("float", cst), "<=", "contradiction")
                add(g_copy(s), S.K("float", cst + round(rng.uniform(0.5, 3), 1)), ">=", "contradiction")
            elif how == "abs" and not lp_only:
                add(S.n_abs(g.tree(S.AFF, rng.choice([1, 2]), 2)), S.K("float", -round(rng.uniform(0.1, 2), 1)), "<=", "contradiction")
            else:
                v = rng.choice(vars_)
                add(S.n_add(S.n_smul(S.K("int", 0), S.n_var(v)), S.K("float", 2.0)), S.K("float", 1.0), "<=", "contradiction")
        rng.shuffle(cons)
        return {"vars": vars_, "obj": obj, "cons": cons, "cls": cls, "lp_only": lp_only}

    def g_copy(node):
        """the same shadow subtree as fresh nodes (a real object must not be used twice: in-place operators)"""
        if isinstance(node, S.K):
            return S.K(node.kind, node.a.copy())
        n2 = S.Node(node.op, [g_copy(k) for k in node.kids], node.L, node.curv, node.fn, node.mg, node.bad,
                    node.meta, node.var)
        return n2

    def n_neg_k(k):
        return S.K(k.kind, -k.a)

    def gen_matrixform(rng):
        """one variable, objective c'x, at most one inequality and one equality (the form op.solve() passes on directly)"""
        n = rng.randint(1, 4)
        x = S.Var(0, n, "x0")
        g = S.TreeGen(rng, [x], p_sparse=0.5)
        X = S.n_var(x)
        cons = []
        shape = rng.choice(["matrix", "matrix", "scalar", "plain", "matrix-scalar-rhs"])
        x0 = np.array([round(rng.uniform(-3, 3), 2) for _ in range(n)])

        def mk(lhs, rhs, rel, tag):
            tree = S.n_add(lhs, rhs, -1) if rel != ">=" else S.n_add(rhs, lhs, -1)
            cons.append({"lhs": lhs, "rhs": rhs, "rel": rel, "tree": tree, "typ": "=" if rel == "==" else "<", "tag": tag})
        if shape == "matrix":
            m = rng.randint(0, 3)
            G = np.vstack([np.array([[g.val() for _ in range(n)] for _ in range(m)]).reshape(m, n), np.eye(n), -np.eye(n)])
            h = np.concatenate([G[:m] @ x0 + np.array([round(rng.uniform(0.5, 3), 2) for _ in range(m)]), np.full(2 * n, R)])
            Gk = S.K("spmat" if rng.random() < 0.5 else "mat", G)
            mk(S.n_mmul(Gk, X), kcol(np.round(h, 6)), "<=", "box")
            cvec = np.array([g.val(nz=True) for _ in range(n)])
        elif shape == "matrix-scalar-rhs":
            # a full (square, or stacked [A; -A]) coefficient matrix next to a SCALAR right-hand side: the coefficient is
            # already in matrix form, the constant still has to be expanded
            for _ in range(20):
                A = np.array([[g.val() for _ in range(n)] for _ in range(n)]).reshape(n, n)
                if abs(np.linalg.det(A)) > 0.2:
                    break
            else:
                A = np.eye(n)
            square = rng.random() < 0.6
            G = A if square else np.vstack([A, -A])
            Gk = S.K("spmat" if rng.random() < 0.4 else "mat", G)
            mk(S.n_mmul(Gk, X), S.K("float", R), "<=", "halfbox" if square else "box")
            zz = np.array([round(rng.uniform(0.5, 2), 1) for _ in range(n)])
            cvec = -(A.T @ zz)           # bounded: c = -A'z with z > 0
            cvec = np.where(np.abs(cvec) < 1e-9, 0.0, cvec)
            x0 = np.zeros(n)
            ctx.count("matrixform.scalar-rhs")
        elif shape == "scalar":
            a = g.kscalar(nz=True)
            mk(S.n_smul(a, X), S.K("float", R * abs(a.s)) if rng.random() < 0.5 else kcol([R * abs(a.s)] * n), "<=", "halfbox")
            cvec = -np.sign(a.s) * np.abs(np.array([g.val(nz=True) for _ in range(n)]))
        else:
            lower = rng.random() < 0.5
            mk(X, S.K("float", -R if lower else R), ">=" if lower else "<=", "halfbox")
            cvec = (1 if lower else -1) * np.abs(np.array([g.val(nz=True) for _ in range(n)]))
        oform = rng.choice(["dot", "row", "sum"])
        if oform == "dot" or n == 1:
            obj = S.n_dot(S.K("col", cvec), X, rng.choice(["uf", "fu"]))
        elif oform == "row":
            obj = S.n_mmul(S.K("row", cvec.reshape(1, n)), X)
        else:
            obj = S.n_smul(S.K("float", float(cvec[0])), S.n_sum(X))
        if rng.random() < 0.35 and n > 1:
            p = rng.randint(1, n - 1)
            A = np.array([[g.val(nz=True) for _ in range(n)] for _ in range(p)]).reshape(p, n)
            if np.linalg.matrix_rank(A) == p:
                Ak = S.K("spmat" if rng.random() < 0.5 else ("mat" if p > 1 else "row"), A)
                if Ak.kind == "spmat" and p == 1:
                    Ak = S.K("sprow", A)
                mk(S.n_mmul(Ak, X), kcol(np.round(A @ x0, 6)), "==", "planted")
        if rng.random() < 0.3:
            obj = S.n_add(obj, S.K("float", round(rng.uniform(-3, 3), 1)))
        return {"vars": [x], "obj": obj, "cons": cons, "cls": "matrixform", "lp_only": True}

    def prob_script(P):
        lines, counter, names = [], [0], []
        oname = S.script(P["obj"], lines, counter)[0] if isinstance(P["obj"], S.Node) else P["obj"].src()
        cl = []
        for i, c_ in enumerate(P["cons"]):
            a = S.script(c_["lhs"], lines, counter)[0] if isinstance(c_["lhs"], S.Node) else c_["lhs"].src()
            b = S.script(c_["rhs"], lines, counter)[0] if isinstance(c_["rhs"], S.Node) else c_["rhs"].src()
            lines.append("c%d = (%s %s %s)" % (i, a, c_["rel"], b))
            cl.append("c%d" % i)
        lines.append("p = op(%s, [%s]); p.solve()" % (oname, ", ".join(cl)))
        return S.header(P["vars"]) + lines

    def tovals(rv, vars_):
        out = {}
        for v in vars_:
            val = rv[v.idx].value
            if val is None:
                return None
            out[v.idx] = np.array(list(val), dtype=float)
        return out

    def precheck(c, rv, vars_, rng):
        """expression-level differential check of every node while the problem is built (C11's business;
        a mismatch here is reported under an 'expression-defect' key and the solve is not judged)"""
        def hook(node, kids, r, e):
            if e is not None:
                c.check()
                c.fail("expression-defect:%s:%s" % (node.op, type(e).__name__),
                       "building the problem: %s raised %s: %s" % (node.op, type(e).__name__, e))
                return
            vals = S.rand_values(rng, vars_)
            for v in vars_:
                rv[v.idx].value = matrix([float(t) for t in vals[v.idx]], (v.n, 1), "d")
            try:
                got = np.array(list(r.value()), dtype=float)
            except Exception as ex:
                c.check(); c.fail("expression-defect:%s:value-%s" % (node.op, type(ex).__name__), str(ex)); raise S.Abort()
            want = node.fn(vals)
            ok = len(r) == node.L and got.shape == want.shape and \
                float(np.max(np.abs(got - want))) <= 1e-9 * max(1.0, float(np.max(node.mg(vals))))
            if not ok:
                c.check()
                c.fail("expression-defect:%s:value" % node.op, "building the problem: %s evaluates differently from its formula" % node.op,
                       got=got, want=want)
                raise S.Abort()
            if mutate_used[0]:
                # the operands of this node are not used again: an in-place update of them afterwards is none of the written
                # problem's business (binary operators, max/min/abs/sum return objects that do not alias their operands)
                import operator
                for k_ in kids:
                    if k_ is not r and type(k_).__name__ == "_function":
                        try:
                            operator.iadd(k_, 1.0)
                            ctx.count("build.operand-updated-in-place-after-use")
                        except Exception:
                            pass
        return hook

    mutate_used = [False]

    def build_real(c, P, rng):
        mutate_used[0] = rng.random() < 0.3
        c.desc["operands-updated-after-use"] = mutate_used[0]
        vars_ = P["vars"]
        rv = {v.idx: M.variable(v.n, v.name) for v in vars_}
        hook = precheck(c, rv, vars_, rng)
        real = lambda o: S.realize(o, rv, M, hook) if isinstance(o, S.Node) else o.real()
        obj = real(P["obj"])
        cons = []
        for c_ in P["cons"]:
            a, b = real(c_["lhs"]), real(c_["rhs"])
            try:
                if c_["rel"] == "<=":
                    rc = (a <= b)
                elif c_["rel"] == ">=":
                    rc = (a >= b)
                else:
                    rc = (a == b)
            except Exception as e:
                c.check()
                c.fail("expression-defect:compare:%s" % type(e).__name__,
                       "building the problem: %r %s %r raised %s: %s" % (a, c_["rel"], b, type(e).__name__, e))
                raise S.Abort()
            if type(rc) is not M.constraint:
                c.check(); c.fail("constraint:comparison-returned-%s" % type(rc).__name__, "%s %s %s gave %r" % (a, c_["rel"], b, rc))
                raise S.Abort()
            cons.append(rc)
            vals = S.rand_values(rng, vars_)
            for v in vars_:
                rv[v.idx].value = matrix([float(t) for t in vals[v.idx]], (v.n, 1), "d")
            got, want = np.array(list(rc.value()), dtype=float), c_["tree"].fn(vals)
            if not (got.shape == want.shape and float(np.max(np.abs(got - want))) <= 1e-9 * max(1.0, float(np.max(c_["tree"].mg(vals))))):
                c.check(); c.fail("expression-defect:compare:value", "constraint function of %s differs from f1 - f2" % c_["rel"])
                raise S.Abort()
        for v in vars_:
            rv[v.idx].value = None
        return rv, obj, cons

    def outcome(p, **kw):
        try:
            p.solve(**kw)
            return ("status", p.status)
        except Exception as e:
            import traceback
            return ("exc", type(e).__name__, str(e)[:200], traceback.extract_tb(e.__traceback__)[-1].name)

    def body(c, rng, P):
        vars_, cons = P["vars"], P["cons"]
        shadow_cons = [(c_["tree"], c_["typ"]) for c_ in cons]
        ref = lpref.solve(vars_, P["obj"], shadow_cons)
        pwl = any(c_["tree"].curv != S.AFF for c_ in cons) or P["obj"].curv != S.AFF
        ctx.count("class." + ("matrixform" if P["cls"] == "matrixform" else ("pwl" if pwl else "lp")))
        for c_ in cons:
            if c_["typ"] == "=":
                ctx.count("con.equality")
            if c_["tree"].curv != S.AFF and c_["tree"].L > 1:
                ctx.count("con.vector-pwl")
            if not c_["tree"].vars or c_["tag"] in ("constant-only",):
                ctx.count("con.constant-only")
        if P["obj"].curv != S.AFF:
            ctx.count("obj.pwl")
        c.cls(P["cls"], ref["status"], P["obj"].curv, "".join(sorted(set(
            ("e" if c_["typ"] == "=" else ("p" if c_["tree"].curv != S.AFF else "l")) + ("v" if c_["tree"].L > 1 else "s")
            for c_ in cons))), len(vars_))
        if ref["status"].startswith("other"):
            ctx.count("ref.undecided")
            return
        ctx.count("ref." + ref["status"])
        try:
            rv, obj, rcons = build_real(c, P, rng)
        except S.Abort:
            ctx.count("skipped.expression-defect")
            return
        try:
            p = M.op(obj, rcons)
        except Exception as e:
            c.check(); c.fail("op:constructor-%s" % type(e).__name__, str(e)); return
        shortcut = len(vars_) == 1 and P["obj"].curv == S.AFF and not pwl and \
            sum(1 for c_ in cons if c_["typ"] == "<") <= 1 and sum(1 for c_ in cons if c_["typ"] == "=") <= 1
        expect = {"optimal": "optimal", "infeasible": "primal infeasible", "unbounded": "dual infeasible"}[ref["status"]]
        results = {}
        stale = rng.random() < 0.6
        for tag, kw in (("dense", {"format": "dense"}), ("sparse", {"format": "sparse"}),
                        ("glpk", {"format": "dense", "solver": "glpk"})):
            ctx.count("format.sparse" if tag == "sparse" else ("solver.glpk" if tag == "glpk" else "format.dense"))
            # stale values, as left behind by an earlier solve of the same op: solve() itself has to overwrite them
            # with the new result or with None
            for v in vars_:
                rv[v.idx].value = matrix(7.7e7, (v.n, 1)) if stale else None
            for rc in rcons:
                rc.multiplier.value = matrix(7.7e7, (len(rc), 1)) if stale else None
            if stale:
                ctx.count("solve.with-stale-values")
            out = outcome(p, **kw)
            c.check()
            if out[0] == "exc":
                key = "solve:%s-%s-in-%s" % ("matrix-form-shortcut" if shortcut else "unexpected", out[1], out[3])
                c.fail(key, "op.solve(%s) raised %s: %s" % (tag, out[1], out[2]), reference=ref["status"])
                if tag == "dense":
                    return
                continue
            st = out[1]
            results[tag] = st
            ctx.count("status.%s.%s" % (tag, st.replace(" ", "-")))
            if st == "unknown":
                # documented outcome ("not solved successfully"): counted, never judged
                ctx.count("unknown.on-" + ref["status"])
                ctx.count("unknown.%s.%s" % (tag, "p0" if ref["p"] is not None and abs(ref["p"]) < 1e-9 else "other"))
                continue
            if st == "dual infeasible" and ref["status"] == "infeasible" and \
                    (tag != "glpk" or lpref.dual_infeasible(vars_, P["obj"], shadow_cons)):
                # 'dual infeasible' is backed by a certificate (default solver): a problem can be primal and dual
                # infeasible at once, and on badly scaled data the determination is numerical.  The status is
                # accepted iff the returned certificate passes the recession test; otherwise it is a violation.
                nf = len(c.failed)
                judge(c, P, dict(ref, status="unbounded", real_status="infeasible"), rv, obj, rcons, p, tag, rng)
                if len(c.failed) == nf:
                    ctx.count("status.dual-infeasible-certified-on-infeasible-reference")
                continue
            if st != expect:
                c.fail(mech(p, rcons, ref, "solve:status-%s-but-reference-%s" % (st.replace(" ", "-"), ref["status"])),
                       "op.solve(%s): status %r, HiGHS on the oracle's LP: %s" % (tag, st, ref["status"]))
                continue
            ctx.count("agree." + ref["status"])
            judge(c, P, ref, rv, obj, rcons, p, tag, rng)
        # ---- the problem "that was written down" after an edit: delete one non-box constraint and solve the SAME op again
        # (same format, so that anything solve() keeps between calls is reused); a fresh op on the remaining constraints
        # is the reference (both by the library: only their agreement is judged, the reference status above is not used)
        if not c.failed and results.get("dense") == "optimal" and ref["status"] == "optimal" and rng.random() < 0.5:
            cand = [k_ for k_, c_ in enumerate(cons) if c_["tag"] != "box"]
            if cand:
                k_ = rng.choice(cand)
                try:
                    p.delconstraint(rcons[k_])
                    o1 = outcome(p, format="dense")
                    v1 = float((obj.value() if type(obj) is not M.variable else obj.value)[0]) if o1 == ("status", "optimal") else None
                    fresh = M.op(obj, [rc for j_, rc in enumerate(rcons) if j_ != k_])
                    o2 = outcome(fresh, format="dense")
                    v2 = float((obj.value() if type(obj) is not M.variable else obj.value)[0]) if o2 == ("status", "optimal") else None
                except Exception as e_:
                    o1 = o2 = None
                    ctx.count("resolve-after-delete.exception")
                if o1 is not None and o1[0] == "status" and o2[0] == "status" and "unknown" not in (o1[1], o2[1]):
                    ctx.count("check.resolve-after-delete")
                    c.check()
                    if o1 != o2 or (v1 is not None and abs(v1 - v2) > 1e-5 * max(1.0, abs(v2))):
                        c.fail("solve:after-delconstraint-differs-from-fresh-op",
                               "solve, delconstraint(c%d), solve again: %r value %r; a fresh op on the remaining constraints: %r value %r"
                               % (k_, o1, v1, o2, v2))

    def lib_lp_optimum(p):
        """diagnostic only: HiGHS on the LP that op._inmatrixform() hands to the solver"""
        try:
            from vlib.conv import to_np
            t = p._inmatrixform("dense")
            lp1 = t[0] if t is not None else p
            X = lp1.variables()[0]
            n = len(X)
            cc = to_np(matrix(lp1.objective._linear._coeff[X])).reshape(-1)
            d = float(lp1.objective._constant[0])
            G = to_np(matrix(lp1._inequalities[0]._f._linear._coeff[X])); h = -to_np(lp1._inequalities[0]._f._constant).reshape(-1)
            kw = {}
            if lp1._equalities:
                kw["A_eq"] = to_np(matrix(lp1._equalities[0]._f._linear._coeff[X]))
                kw["b_eq"] = -to_np(lp1._equalities[0]._f._constant).reshape(-1)
            from scipy.optimize import linprog
            r = linprog(cc, A_ub=G, b_ub=np.broadcast_to(h, (G.shape[0],)), bounds=[(None, None)] * n, method="highs", **kw)
            return ({0: "optimal", 2: "infeasible", 3: "unbounded"}.get(r.status), (r.fun + d) if r.status == 0 else None)
        except Exception:
            return None

    def lib_lp_accepts_returned_point(p):
        """diagnostic only: the LP of op._inmatrixform() is feasible with the original variables fixed at their
        returned values (auxiliary variables free)"""
        try:
            from vlib.conv import to_np
            from scipy.optimize import linprog
            vs = p.variables()
            xs = np.concatenate([np.array(list(v.value), dtype=float) for v in vs])
            t = p._inmatrixform("dense")
            lp1 = t[0] if t is not None else p
            X = lp1.variables()[0]
            n = len(X)
            G = to_np(matrix(lp1._inequalities[0]._f._linear._coeff[X])); h = -to_np(lp1._inequalities[0]._f._constant).reshape(-1)
            kw = {}
            if lp1._equalities:
                kw["A_eq"] = to_np(matrix(lp1._equalities[0]._f._linear._coeff[X]))
                kw["b_eq"] = -to_np(lp1._equalities[0]._f._constant).reshape(-1)
            tol = 1e-6 * (1.0 + np.abs(xs))
            bounds = [(xs[j] - tol[j], xs[j] + tol[j]) for j in range(len(xs))] + [(None, None)] * (n - len(xs))
            r = linprog(np.zeros(n), A_ub=G, b_ub=np.broadcast_to(h, (G.shape[0],)) + 1e-6 * (1 + np.abs(h)), bounds=bounds, method="highs", **kw)
            return r.status == 0
        except Exception:
            return None

    def pieces_differ(rcons):
        """diagnostic only: some PWL constraint is linearised into pieces of different length"""
        try:
            for rc in rcons:
                if rc.type() == "<" and not rc._f._isaffine():
                    if len(set(len(i) for i in rc._aslinearineq()[0])) > 1:
                        return True
        except Exception:
            pass
        return False

    def pieces_wrong(p, rcons):
        """diagnostic only: a PWL inequality whose linear pieces (no auxiliary variables) do not
        reproduce the constraint function at random points"""
        try:
            import random as _r
            rr = _r.Random(12345)
            vs = p.variables()
            saved = [v.value for v in vs]
            bad = False
            extra = []
            try:
                if not p.objective._isaffine():
                    extra = [p.objective <= 0.0]       # the objective's max terms are linearised by the same routine
            except Exception:
                pass
            for rc in list(rcons) + extra:
                if rc.type() != "<" or rc._f._isaffine():
                    continue
                ineqs, aux, _ = rc._aslinearineq()
                if aux:
                    continue
                for it in range(16):
                    sc = (5.0, 40.0)[it % 2]
                    for v in vs:
                        v.value = matrix([rr.uniform(-sc, sc) for _ in range(len(v))], (len(v), 1))
                    want = np.array(list(rc.value()))
                    got = np.full(len(rc), -np.inf)
                    for i in ineqs:
                        pv = np.array(list(i.value()))
                        if len(pv) == len(got):
                            got = np.maximum(got, pv)
                        elif len(pv) == 1:
                            got = np.maximum(got, pv[0])
                        else:
                            got = np.maximum(got, pv.max())
                    if np.max(np.abs(got - want)) > 1e-8 * max(1.0, np.max(np.abs(want))):
                        bad = True
            for v, val in zip(vs, saved):
                v.value = val
            return bad
        except Exception:
            return False

    def mech(p, rcons, ref, generic):
        if pieces_wrong(p, rcons):
            return "solve:pwl-linearisation-changes-the-problem"
        if "returned-point-violates" in generic and lib_lp_accepts_returned_point(p):
            return "solve:pwl-linearisation-changes-the-problem"
        pl = lib_lp_optimum(p)
        if pl is not None and pl[0] is not None:
            if pl[0] != ref.get("real_status", ref["status"]) or \
                    (pl[1] is not None and abs(pl[1] - ref["p"]) > 1e-6 * max(1.0, abs(ref["p"]))):
                return "solve:matrix-form-conversion-changes-the-problem"
        if "multiplier" in generic or "infeasibility-certificate" in generic:
            if pieces_differ(rcons):
                return "solve:multiplier-sum-broadcasts-pieces-of-different-length"
        return generic

    def judge(c, P, ref, rv, obj, rcons, p, tag, rng):
        vars_, cons = P["vars"], P["cons"]
        shadow_cons = [(c_["tree"], c_["typ"]) for c_ in cons]
        x = tovals(rv, vars_)
        mult = [rc.multiplier.value for rc in rcons]
        ctx.count("check.none-rules")
        if ref["status"] == "optimal":
            if not c.require(x is not None, "solve:optimal-but-variable-None", "status optimal, a variable has value None"):
                return
            # size/type of the values
            for v in vars_:
                val = rv[v.idx].value
                c.require(type(val) is matrix and val.size == (v.n, 1) and val.typecode == "d", "solve:variable-value-shape",
                          "value of %s is %r" % (v.name, val))
            # feasibility by the shadow
            worst = 0.0
            for c_, rc in zip(cons, rcons):
                hv = c_["tree"].fn(x)
                sc = max(1.0, float(np.max(c_["tree"].mg(x))))
                viol = float(np.max(hv if c_["typ"] == "<" else np.abs(hv))) / sc
                worst = max(worst, viol)
                ctx.count("check.feasibility")
                c.check()
                if viol > 1e-6:
                    c.fail(mech(p, rcons, ref, "solve:returned-point-violates-%s" % ("inequality" if c_["typ"] == "<" else "equality")),
                           "%s: constraint %r violated by %.3g (relative) at the returned point" % (tag, rc, viol),
                           constraint_value=hv)
                    return
            ctx.maxobs("feasibility." + tag, worst)
            # objective
            ctx.count("check.objective")
            ov = obj.value() if type(obj) is not M.variable else obj.value
            ov = float(ov[0])
            osh = float(P["obj"].fn(x)[0])
            osc = max(1.0, abs(ref["p"]), float(P["obj"].mg(x)[0]))
            c.require(abs(ov - osh) <= 1e-9 * osc, "solve:objective-value-not-the-formula",
                      "objective.value() = %r, formula at the returned point = %r" % (ov, osh))
            err = abs(ov - ref["p"]) / max(1.0, abs(ref["p"]))
            ctx.maxobs("objective-vs-reference." + tag, err)
            if err > (1e-2 if tag != "glpk" else 1e-6):
                c.check()
                c.fail(mech(p, rcons, ref, "solve:optimal-value-differs-from-reference"),
                       "%s: objective.value() = %.10g, p* = %.10g (relative %.3g)" % (tag, ov, ref["p"], err))
                return
            c.check()
            # also op.objective is the object
            if tag == "glpk":
                c.require(all(m is not None for m in mult), "solve:glpk-optimal-multiplier-None", "multiplier None")
            # multipliers
            okm = True
            for c_, rc, m in zip(cons, rcons, mult):
                ctx.count("check.multiplier.length")
                good = type(m) is matrix and m.size == (len(rc), 1) and len(rc) == c_["tree"].L
                if not c.require(good, "solve:multiplier-length",
                                 "%s: multiplier of %r is %r (len(constraint) = %d, documented %d)"
                                 % (tag, rc, m, len(rc), c_["tree"].L)):
                    okm = False
                    continue
                if c_["typ"] == "<":
                    ctx.count("check.multiplier.sign")
                    mn = float(min(m))
                    ctx.maxobs("multiplier.negativity", -mn)
                    c.require(mn >= -1e-6 * max(1.0, float(max(abs(m)))), "solve:multiplier-negative",
                              "%s: inequality multiplier %r has entry %.3g" % (tag, list(m), mn))
            if okm:
                ctx.count("check.lagrangian")
                box = max(R, 2.0 * max(float(np.max(np.abs(v))) for v in x.values()) + 1.0)
                lb = lpref.lagrangian_bound(vars_, P["obj"], shadow_cons, [np.array(list(m)) for m in mult], box)
                msc = max(1.0, abs(ref["p"]), max(float(max(abs(m))) for m in mult))
                gap = (ref["p"] - lb["value"]) / msc if lb["value"] is not None else float("inf")
                ctx.maxobs("lagrangian-gap." + tag, gap)
                c.check()
                if gap > 1e-2:
                    c.fail(mech(p, rcons, ref, "solve:multipliers-not-dual-optimal"),
                           "%s: min over the box of the Lagrangian at the returned multipliers = %r < p* = %r"
                           % (tag, lb["value"], ref["p"]), multipliers=[list(m) for m in mult], minimiser=lb.get("x"))
        elif ref["status"] == "infeasible":
            c.require(x is None and all(rv[v.idx].value is None for v in vars_), "solve:primal-infeasible-but-variable-not-None",
                      "status 'primal infeasible': variable values must be None")
            if tag != "glpk":
                if c.require(all(m is not None for m in mult), "solve:primal-infeasible-certificate-None",
                             "default solver: multipliers must carry the certificate"):
                    ok = True
                    for c_, rc, m in zip(cons, rcons, mult):
                        ctx.count("check.multiplier.length")
                        if not c.require(type(m) is matrix and m.size == (c_["tree"].L, 1), "solve:multiplier-length",
                                         "certificate of %r is %r" % (rc, m)):
                            ok = False
                        elif c_["typ"] == "<":
                            c.require(float(min(m)) >= -1e-6 * max(1.0, float(max(abs(m)))), "solve:multiplier-negative",
                                      "certificate entry negative: %r" % list(m))
                    if ok:
                        ctx.count("check.certificate.primal")
                        lb = lpref.lagrangian_bound(vars_, None, shadow_cons, [np.array(list(m)) for m in mult], 4 * R)
                        msc = max(float(max(abs(m))) for m in mult)
                        val = lb["value"] if lb["value"] is not None else -float("inf")
                        ctx.maxobs("certificate.primal.min", -val / max(msc, 1e-300))
                        c.check()
                        if not val > 1e-7 * max(1.0, msc):
                            c.fail(mech(p, rcons, ref, "solve:infeasibility-certificate-invalid"),
                                   "sum_i z_i' f_i(x) must be positive for all x; its minimum over |x| <= %g is %r" % (4 * R, lb["value"]),
                                   multipliers=[list(m) for m in mult], minimiser=lb.get("x"))
        else:
            c.require(all(m is None for m in mult), "solve:dual-infeasible-but-multiplier-not-None",
                      "status 'dual infeasible': multipliers must be None")
            if tag != "glpk":
                if c.require(x is not None, "solve:dual-infeasible-certificate-None", "default solver: variables must carry the certificate"):
                    ctx.count("check.certificate.dual")
                    # recession direction d: objective decreases, constraints do not increase along x0 + t d
                    zero = {v.idx: np.zeros(v.n) for v in vars_}
                    nd = max(float(np.max(np.abs(v))) for v in x.values())
                    bad = None
                    if nd > 0:
                        for tt in (1.0, 1e2, 1e4):
                            pt = {i: tt * x[i] for i in x}
                            do = (P["obj"].fn(pt)[0] - P["obj"].fn(zero)[0]) / (tt * nd)
                            ctx.maxobs("certificate.dual.objective-slope", do)
                            if not do < -1e-9:
                                bad = "objective changes by %.3g per unit step at t=%g" % (do, tt)
                            for c_ in cons:
                                dh = (c_["tree"].fn(pt) - c_["tree"].fn(zero)) / (tt * nd)
                                ones = {i: np.full(len(x[i]), tt * nd) for i in x}      # scale: sum of |coefficients|
                                sc = max(1.0, float(np.max(c_["tree"].mg(ones))) / (tt * nd))
                                v_ = float(np.max(dh if c_["typ"] == "<" else np.abs(dh))) / sc
                                ctx.maxobs("certificate.dual.growth", v_)
                                if v_ > 1e-2:
                                    bad = "constraint grows by %.3g per unit step at t=%g" % (v_, tt)
                    else:
                        bad = "zero direction"
                    c.check()
                    if bad is not None:
                        c.fail(mech(p, rcons, ref, "solve:unboundedness-certificate-invalid"), str(bad), direction=x)

    def one(c):
        rng = c.rng
        P = gen(rng)
        c.desc["script"] = prob_script(P)
        c.desc["class"] = P["cls"]
        risky = S.risky(P["obj"]) or any(S.risky(o) for c_ in P["cons"] for o in (c_["lhs"], c_["rhs"]) if isinstance(o, S.Node))
        if risky:
            ctx.count("probe.forked")
            sig = S.isolated(ctx, c, lambda: body(c, rng, P))
            if sig is not None:
                c.check()
                c.fail("expression-defect:sparse-constant-minus-function-crashes-interpreter", "signal %d" % sig)
        else:
            body(c, rng, P)
        if c.k < 2:
            ctx.sample({"script": c.desc["script"][-8:], "class": P["cls"]})

    for k in ctx.cases():
        try:
            desc = {"script": prob_script(gen(ctx.case_rng(k)))}
        except Exception:
            desc = {}
        ctx.run_case(k, desc, one)
