"""C11  Modeling expressions evaluate to what their formula says.

Random expression trees (vlib/oracle/shadow.py) are built bottom-up with the
real cvxopt.modeling operators; every node is compared with its shadow."""

LEVEL = "exploration"
TECHNIQUE = "differential test of every operator application against a numpy shadow built from modeling.rst"
LEVEL_TEXT = ("every operator application inside random expression trees (depth <= 5, 1..3 variables of length 1..4) "
              "is compared with a shadow evaluator: acceptance/refusal, len, value on 5 assignments, variables(), "
              "curvature class, non-aliasing, midpoint convexity")
RULE = ("each case = one random expression tree; every non-leaf node is one oracle evaluation of its operator. "
        "distinct = root operator x curvature/refusal class x length x operand kinds")
ASSUMPTIONS = [
    "only operand kinds that modeling.rst names are generated (scalars = int, float, dense 1x1; sparse 1x1 only where a 1x1 'matrix' is named)",
    "max(u)/min(u) with len(u) == 1 and empty index sets are not generated (the manual does not define their result)",
    "the curvature class is the syntactic class of the composition rules in modeling.rst; 0*f counts as affine",
    "private _isaffine/_isconvex/_isconcave are read to learn how the library classified an object; "
    "private _linear._coeff shapes are read only to name the mechanism of an already decided violation",
]
OPS = ["pos", "neg", "add", "sub", "iadd", "isub", "smul", "smulr", "imul", "div", "idiv", "mmul", "rmul",
       "index", "sum", "dot", "max", "min", "max1", "min1", "abs"]
REQUIRED_COUNTERS = ["op." + o for o in OPS] + [
    "outcome.accepted", "outcome.refused.curv", "outcome.refused.dim", "outcome.refused.index",
    "class.affine", "class.convex", "class.concave",
    "check.value", "check.len", "check.variables", "check.depends", "check.none",
    "check.alias.operand", "check.alias.result", "check.midpoint.convex", "check.midpoint.concave",
    "check.midpoint.affine", "kind.sparse", "kind.multi-occurrence"]


def classify_crash(wit, errtxt, rc):
    try:
        import re
        if any(re.search(r"= sparse\(.*\) [-+] ", l) for l in wit["desc"]["script"]):
            return "rsub:sparse-constant-minus-function-crashes-interpreter"
    except Exception:
        pass
    return "crash"


def plan(tier):
    if tier == "thorough":
        return [{"variant": "plain", "workers": 16, "cases": 16000}]
    return [{"variant": "plain", "workers": 16, "cases": 700}]


def run(ctx):
    import numpy as np
    import cvxopt.modeling as M
    from cvxopt import matrix, spmatrix
    from vlib.oracle import shadow as S

    TOL = 1e-9
    ADD = ("add", "sub", "iadd", "isub")

    # ---- fixture: the worked example of modeling.rst
    x_, y_ = S.Var(0, 1, "x"), S.Var(1, 2, "y")
    f_ = S.n_add(S.n_add(S.n_smul(S.K("int", 2), S.n_var(x_)), S.n_var(y_)), S.K("int", 3))
    g_ = S.n_add(S.n_add(S.n_mmul(S.K("mat", [[1., 3.], [2., 4.]]), f_), S.n_sum(S.n_var(y_))), S.K("col", [1., -1.]))
    got = g_.fn({0: np.array([1.0]), 1: np.array([1.0, 2.0])})
    assert np.allclose(got, [8 + 2 + 8 + 13, 12 + 3 + 10 + 17]) and g_.L == 2 and g_.curv == S.AFF, got

    def setvals(rv, vars_, vals):
        for v in vars_:
            rv[v.idx].value = matrix([float(t) for t in vals[v.idx]], (v.n, 1), "d")

    def shapes(o):
        """{variable: 'scalar'|'row'|'matrix' (+'/sp')} -- diagnostic only"""
        out = {}
        try:
            if type(o) is M.variable:
                return {o: "scalar"}
            for v, cf in o._linear._coeff.items():
                s = "scalar" if cf.size == (1, 1) else ("row" if cf.size[0] == 1 else "matrix")
                out[v] = s + ("/sp" if type(cf) is spmatrix else "")
        except Exception:
            pass
        return out

    def has_sparse_const(node):
        return any(isinstance(k, S.K) and k.is_sparse for k in node.kids)

    def diagnose(node, pre, exc, symptom):
        op = node.op
        msg = str(exc) if exc is not None else ""
        if symptom == "accepted":
            if node.bad.startswith("curv") and op in ("max", "min", "abs"):
                return "minmax:multi-argument-curvature-unchecked"
            if node.bad.startswith("curv") and op in ("max1", "min1"):
                return "minmax:single-argument-refusal-falls-back-to-unpacking"
            if node.bad.startswith("dim") and op in ("max", "min"):
                return "minmax:length-mismatch-falls-back-to-unpacking-first-argument"
            if op == "dot" and any(isinstance(k, S.Node) and k.op == "var" for k in node.kids):
                return "dot:size-unchecked-for-variable"
            if op in ADD and has_sparse_const(node):
                return "add:sparse-constant-length-is-nnz"
            return "%s:accepted-%s" % (op, node.bad)
        if symptom == "raised":
            if op in ("max", "min") and isinstance(exc, TypeError) and "not supported between" in msg:
                return "minmax:constants-compared-by-builtin"
            if op in ADD:
                if "invalid inplace operation" in msg:
                    return "_addterm:sparse-coefficient-diagonal-update"
                if has_sparse_const(node) and isinstance(exc, ValueError) and "incompatible lengths" in msg:
                    return "add:sparse-constant-length-is-nnz"
                if op == "sub" and isinstance(node.kids[0], S.K) and node.kids[0].is_sparse:
                    return "rsub:sparse-constant-refused"
            if op == "rmul" and has_sparse_const(node):
                return "mul:function-times-sparse-column-refused"
            return "%s:unexpected-%s" % (op, type(exc).__name__)
        if symptom == "value" and op in ADD and pre:
            a, b = pre
            pairs = set()
            for v in a:
                for w in b:
                    if v is w:
                        sa, sb = a[v].split("/")[0], b[w].split("/")[0]
                        if sa != sb:
                            pairs.add(tuple(sorted([sa, sb], key=lambda s: ["scalar", "row", "matrix"].index(s))))
            for pr in (("scalar", "row"), ("scalar", "matrix"), ("row", "matrix")):
                if pr in pairs:
                    return "_addterm:%s-plus-%s-merge" % pr
            return "%s:value-mismatch" % op
        if symptom == "value" and op in ("imul", "idiv") and isinstance(node.kids[1], S.K) and node.kids[1].s == 0.0:
            return "imul:multiplication-by-zero-keeps-the-terms"
        return "%s:%s" % (op, symptom)

    def gen(rng):
        vars_ = S.gen_vars(rng)
        g = S.TreeGen(rng, vars_, exotic=True)
        invalid = rng.random() < 0.22
        t = g.invalid() if invalid else g.tree("any")
        return vars_, t, S.script(t)[1]

    def one(c):
        rng = c.rng
        vars_, t, lines = gen(rng)          # same stream as the pre-generation in the case loop
        c.desc["script"] = S.header(vars_) + lines
        if S.risky(t):
            # `sparse constant - function` can kill the interpreter on the unchanged tree
            # (spmatrix.__sub__): such cases run in a forked child so that the worker survives
            ctx.count("probe.forked")
            sig = S.isolated(ctx, c, lambda: body(c, rng, vars_, t, lines))
            if sig is not None:
                c.check()
                c.fail("rsub:sparse-constant-minus-function-crashes-interpreter",
                       "evaluating the expression killed a forked interpreter with signal %d" % sig)
                c.cls(t.op, "crash", t.L)
        else:
            body(c, rng, vars_, t, lines)

    def body(c, rng, vars_, t, lines):
        rv = {v.idx: M.variable(v.n, v.name) for v in vars_}
        ident = {id(rv[v.idx]): v.idx for v in vars_}
        pre = {}
        nodes = list(t.nodes())
        if any(isinstance(k, S.K) and k.is_sparse for n in nodes for k in n.kids):
            ctx.count("kind.sparse")
        if any(n.op in ADD and all(isinstance(k, S.Node) for k in n.kids) and (n.kids[0].vars & n.kids[1].vars)
               for n in nodes if n.bad is None):
            ctx.count("kind.multi-occurrence")

        def value_of(r, node, vals, what, kids_desc=None):
            """library value as 1-D numpy array, after checking its documented type/size"""
            val = r.value()
            ok = type(val) is matrix and val.typecode == "d" and val.size == (node.L, 1)
            c.require(ok, "%s:value-not-a-dense-column" % node.op,
                      "%s: value() is %r, expected dense 'd' (%d,1)" % (what, val, node.L))
            if not ok:
                raise S.Abort()
            return np.array(list(val), dtype=float)

        def prehook(node, kids):
            if node.op in ADD and node.bad is None:
                pre[id(node)] = (shapes(kids[0]), shapes(kids[1]))

        def hook(node, kids, r, e):
            root = node is t
            ctx.count("op." + node.op)
            p = pre.get(id(node))
            if node.bad is not None:
                c.check()
                cat = node.bad.split(":")[0]
                if e is not None:
                    ctx.count("outcome.refused." + cat)
                    # a refused IN-PLACE operation must leave its left operand as it was
                    k0 = node.kids[0] if node.kids else None
                    if node.op in ("iadd", "isub", "imul", "idiv") and isinstance(k0, S.Node) and k0.bad is None \
                            and type(kids[0]) is M._function:
                        ctx.count("check.refused-inplace-left-operand-unchanged")
                        try:
                            lg0 = len(kids[0])
                        except Exception:
                            lg0 = None
                        c.require(lg0 == k0.L, "%s:refused-but-left-operand-modified" % node.op,
                                  "after the refused %s the left operand has length %r, formula gives %r" % (node.op, lg0, k0.L))
                        for _ in range(2):
                            vals0 = S.rand_values(rng, vars_, scale=3.0)
                            setvals(rv, vars_, vals0)
                            try:
                                g0 = np.array(list(kids[0].value()), dtype=float)
                            except Exception as ex0:
                                g0 = None
                            w0 = k0.fn(vals0)
                            ok0 = g0 is not None and g0.shape == w0.shape and \
                                float(np.max(np.abs(g0 - w0))) <= TOL * max(1.0, float(np.max(k0.mg(vals0))))
                            if not c.require(ok0, "%s:refused-but-left-operand-modified" % node.op,
                                             "the refused in-place %s changed its left operand: value %r, formula %r" % (node.op, g0, w0)):
                                break
                    return
                ctx.count("outcome.wrongly-accepted")
                detail = {"returned": repr(r)}
                try:
                    detail["len"] = len(r)
                except Exception:
                    pass
                c.fail(diagnose(node, p, None, "accepted"),
                       "%s (%s) must be refused with an exception but returned %r" % (node.op, node.bad, r), **detail)
                return
            c.check()
            if e is not None:
                ctx.count("outcome.wrongly-refused")
                c.fail(diagnose(node, p, e, "raised"),
                       "%s on documented operands raised %s: %s" % (node.op, type(e).__name__, e),
                       operands=[repr(k) for k in kids])
                return
            ctx.count("outcome.accepted")
            ctx.count("class." + node.curv)
            failed0 = len(c.failed)
            # ---- len
            ctx.count("check.len")
            try:
                lg = len(r)
            except Exception as ex:
                lg = "len() raised %s" % type(ex).__name__
            lkey = "%s:length" % node.op
            try:
                if lg != node.L and any(type(k) is M._function and k._iszero() for k in kids):
                    lkey = "zero-function:length-lost"        # 0*f keeps no record of len(f) (diagnostic naming)
            except Exception:
                pass
            c.require(lg == node.L, lkey, "len(%s result) = %r, documented rule gives %d" % (node.op, lg, node.L))
            if len(c.failed) > failed0:
                raise S.Abort()
            # ---- variables()
            ctx.count("check.variables")
            vl = r.variables()
            ids = [id(v) for v in vl]
            okv = len(set(ids)) == len(ids) and all(i in ident and ident[i] in node.vars for i in ids)
            c.require(okv, "%s:variables-lists-unmentioned-or-duplicate" % node.op,
                      "variables() = %r, formula mentions %r" % (vl, sorted(node.vars)))
            listed = set(ident[i] for i in ids if i in ident)
            # ---- values
            vals = None
            for _ in range(5):
                vals = S.rand_values(rng, vars_, scale=rng.choice([1.0, 3.0, 3.0, 10.0]))
                setvals(rv, vars_, vals)
                gotv = value_of(r, node, vals, node.op)
                want = node.fn(vals)
                scale = max(1.0, float(np.max(node.mg(vals))))
                err = float(np.max(np.abs(gotv - want))) / scale
                if not np.all(np.isfinite(gotv)):
                    err = float("inf")
                ctx.maxobs("relerr.value", err)
                ctx.count("check.value")
                if not c.require(err <= TOL, diagnose(node, p, None, "value"),
                                 "%s: value() differs from the formula (relative %.3g)" % (node.op, err),
                                 got=gotv, want=want, values=vals):
                    raise S.Abort()
            # ---- curvature class as the library sees it
            cls_ok = {S.AFF: r._isaffine(), S.CVX: r._isconvex(), S.CCV: r._isconcave()}[node.curv]
            c.require(cls_ok, "%s:curvature-class" % node.op,
                      "documented class %s, library says %r" % (node.curv, r))
            # ---- the formula really depends on -> must be listed (root only: costs evaluations)
            if root:
                ctx.count("check.depends")
                for v in vars_:
                    if v.idx not in node.vars:
                        continue
                    dep = False
                    for _ in range(3):
                        a = S.rand_values(rng, vars_)
                        b = dict(a); b[v.idx] = a[v.idx] + np.array([rng.uniform(0.5, 2.0) for _ in range(v.n)])
                        if np.max(np.abs(node.fn(a) - node.fn(b))) > 1e-6:
                            dep = True
                    if dep:
                        c.require(v.idx in listed, "%s:variables-misses-a-dependency" % node.op,
                                  "value depends on %s but variables() = %r" % (v.name, vl))
            # ---- midpoint test of what the library claims
            if root or rng.random() < 0.4:
                midpoint(node, r, rv, vars_)
            setvals(rv, vars_, vals)
            base = value_of(r, node, vals, node.op)
            # ---- operands mutated -> result unchanged
            inpl = node.op in ("iadd", "isub", "imul", "idiv")
            mut = []
            for i, k in enumerate(kids):
                if inpl and i == 0:
                    continue
                if type(k) is M._function:
                    k *= rng.choice([1.5, -0.5]); k += 0.75; mut.append(i)
                elif type(k) in (matrix, spmatrix):
                    k *= 2.0; mut.append(i)
            if mut:
                ctx.count("check.alias.operand")
                after = value_of(r, node, vals, node.op)
                c.require(np.array_equal(after, base), "%s:result-aliases-operand" % node.op,
                          "in-place change of operand(s) %r changed the value of the result" % mut,
                          before=base, after=after)
            # ---- result mutated -> operands unchanged (root: nobody uses the result afterwards)
            if root and not inpl:
                fk = [k for k in kids if type(k) is M._function]
                if fk:
                    ctx.count("check.alias.result")
                    try:
                        before = [np.array(list(k.value())) for k in fk]
                        r *= rng.choice([2.5, -1.5]); r += 1.25
                        after = [np.array(list(k.value())) for k in fk]
                    except Exception as ex_:
                        c.check()
                        c.fail("%s:operand-or-result-unusable-after-inplace-change" % node.op,
                               "scaling the result of %s in place (r *= a; r += b) and re-evaluating its operands raised %s: %s"
                               % (node.op, type(ex_).__name__, ex_))
                        raise S.Abort()
                    c.require(all(np.array_equal(a, b) for a, b in zip(before, after)),
                              "%s:operand-aliases-result" % node.op,
                              "in-place change of the result changed an operand", before=before, after=after)
                    r += -1.25; r *= 1.0    # value changed; only None-ness is looked at below
            # ---- value() is None iff one of variables() has value None
            if root:
                for v in vars_:
                    setvals(rv, vars_, vals)
                    rv[v.idx].value = None
                    ctx.count("check.none")
                    try:
                        isnone = r.value() is None
                    except Exception as ex:
                        c.check()
                        c.fail("value:None-variable-raises-%s" % type(ex).__name__,
                               "variable %s set to None: value() raised %s: %s instead of returning None"
                               % (v.name, type(ex).__name__, ex))
                        continue
                    c.require(isnone == (v.idx in listed), "%s:none-rule" % node.op,
                              "variable %s set to None, %s in variables(): value() is %s"
                              % (v.name, "listed" if v.idx in listed else "not listed", "None" if isnone else "not None"))
                setvals(rv, vars_, vals)
            if len(c.failed) > failed0:
                raise S.Abort()

        def midpoint(node, r, rv, vars_):
            cvx, ccv = r._isconvex(), r._isconcave()
            if not (cvx or ccv):
                return
            kind = "affine" if (cvx and ccv) else ("convex" if cvx else "concave")
            ctx.count("check.midpoint." + kind)
            worst = 0.0
            for _ in range(4):
                sc = rng.choice([2.0, 5.0, 20.0])
                a, b = S.rand_values(rng, vars_, sc), S.rand_values(rng, vars_, sc)
                m = {i: 0.5 * (a[i] + b[i]) for i in a}
                fv = []
                for p_ in (a, b, m):
                    setvals(rv, vars_, p_)
                    fv.append(np.array(list(r.value()), dtype=float))
                scale = max(1.0, float(np.max(node.mg(a))), float(np.max(node.mg(b)))) if node.mg else \
                    max(1.0, float(np.max(np.abs(fv[0]))), float(np.max(np.abs(fv[1]))))
                gap = (fv[2] - 0.5 * (fv[0] + fv[1])) / scale      # <= 0 convex, >= 0 concave
                v = 0.0
                if cvx:
                    v = max(v, float(np.max(gap)))
                if ccv:
                    v = max(v, float(np.max(-gap)))
                worst = max(worst, v)
            ctx.maxobs("midpoint.excess", worst)
            c.require(worst <= 1e-9, "%s:classified-%s-but-midpoint-test-fails" % (node.op, kind),
                      "object classified %s violates the midpoint inequality by %.3g (relative)" % (kind, worst))

        try:
            r = S.realize(t, rv, M, hook, prehook)
            if t.bad is not None and r is not None and hasattr(r, "_isconvex"):
                # a refused combination was accepted: show additionally whether the claim is false
                class _N:          # no shadow formula here
                    op, mg = t.op, None
                try:
                    midpoint(_N, r, rv, vars_)
                except Exception:
                    pass
        except S.Abort:
            pass
        kinds = "".join(sorted(set(("s" if k.is_sparse else "d") if k.is_matrix else "n"
                                   for k in t.kids if isinstance(k, S.K))))
        c.cls(t.op, t.bad or t.curv, t.L, kinds, min(t.depth(), 3))
        if c.k < 2:
            ctx.sample({"script": lines[-6:], "bad": t.bad, "curv": t.curv, "L": t.L})

    for k in ctx.cases():
        try:
            v0, t0, l0 = gen(ctx.case_rng(k))
            desc = {"script": S.header(v0) + l0}
        except Exception:
            desc = {}
        ctx.run_case(k, desc, one)
