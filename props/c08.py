"""C08  Cone-algebra kernels match their mathematical definition in both
implementations (compiled misc_solvers via cvxopt.misc, Python fallbacks via
cvxopt.misc_py = misc.py with use_C flipped)."""
import math

LEVEL = "exploration"
RULE = ("each case = one kernel call on generated (dims, mnl, columns, flags, offsets, data); "
        "result compared with the numpy definition (vlib/oracle/cone.py), compiled vs fallback, "
        "and bytes outside the addressed block compared before/after. "
        "distinct = kernel x implementation x flag combination x cone shape class")
ASSUMPTIONS = [
    "upper triangles of 's' blocks are 'not referenced' storage: outputs are compared on the lower triangle only",
    "rows of pack2 output beyond the packed length are unspecified and not compared",
    "numpy (own bundled OpenBLAS) is the reference linear algebra",
]
REQUIRED_COUNTERS = ["snrm2-sdot.huge-values-in-unreferenced-triangle", "max_step.sigma-None-explicit", "max_step.beyond-float-range", "scale.trailing-rows.multicolumn-s-block", "max_step.block-exactly-on-boundary.not-last", "kernel.scale", "kernel.scale2", "kernel.pack", "kernel.pack2", "kernel.unpack",
                     "kernel.sdot", "kernel.snrm2", "kernel.sgemv", "kernel.trisc", "kernel.triusc",
                     "kernel.symm", "kernel.sprod", "kernel.ssqr", "kernel.sinv", "kernel.max_step",
                     "kernel.jdot", "kernel.jnrm2", "impl.C", "impl.py"]

KERNELS = ["scale", "scale2", "pack", "pack2", "unpack", "sdot", "snrm2", "sgemv", "trisc", "triusc",
           "symm", "sprod", "ssqr", "sinv", "max_step", "jdot", "jnrm2"]


def plan(tier):
    if tier == "thorough":
        return [{"variant": "plain", "workers": 16, "cases": 20000}]
    return [{"variant": "plain", "workers": 8, "cases": 340}]


def gen_dims(rng, allow_mnl=True):
    from vlib.oracle.cone import Dims
    style = rng.choice(["mixed", "mixed", "mixed", "l", "q", "s", "empty", "degenerate", "multi"])
    mnl = rng.choice([0, 0, 1, 2, 3]) if allow_mnl else 0
    if rng.random() < 0.06:
        # sizes past the small powers of two where unrolled / blocked / panel code changes its path
        return Dims(rng.choice([0, 9, 17]), [rng.choice([8, 9, 12, 16, 17])] if rng.random() < 0.6 else [],
                    [rng.choice([8, 9, 10])] + ([rng.randint(1, 3)] if rng.random() < 0.5 else []) if rng.random() < 0.7 else [], mnl)
    if style == "empty":
        return Dims(0, [], [], mnl)
    if style == "l":
        return Dims(rng.randint(1, 5), [], [], mnl)
    if style == "q":
        return Dims(0, [rng.randint(1, 5) for _ in range(rng.randint(1, 3))], [], mnl)
    if style == "s":
        return Dims(0, [], [rng.randint(0, 4) for _ in range(rng.randint(1, 3))], mnl)
    if style == "degenerate":
        return Dims(rng.randint(0, 2), [rng.choice([1, 1, 2]) for _ in range(rng.randint(0, 2))],
                    [rng.choice([0, 1, 1, 2]) for _ in range(rng.randint(1, 3))], mnl)
    if style == "multi":
        return Dims(rng.randint(0, 3), [rng.randint(1, 4) for _ in range(rng.randint(2, 3))],
                    [rng.randint(1, 4) for _ in range(rng.randint(2, 3))], mnl)
    return Dims(rng.randint(0, 4), [rng.randint(1, 5) for _ in range(rng.randint(0, 2))],
                [rng.randint(0, 4) for _ in range(rng.randint(0, 2))], mnl)


def run(ctx):
    import numpy as np
    from cvxopt import matrix, spmatrix, misc, misc_py
    from vlib.oracle import cone
    from vlib.oracle.cone import Dims, matL, vecF
    from vlib.conv import to_matrix, to_np, vec, to_spmatrix

    IMPLS = [("C", misc), ("py", misc_py)]
    assert misc.scale is not misc_py.scale, "misc_py must be the python fallback"
    TOL = 5e-12
    PAT = 7.123456789e+77   # bit pattern for canaries

    def rnd(rng, n, lo=-2.0, hi=2.0):
        return np.array([rng.uniform(lo, hi) for _ in range(n)])

    def gen_W(rng, dims):
        """arbitrary valid scaling dictionary (numpy + cvxopt copies per call)"""
        Wn = {}
        if dims.mnl:
            Wn["dnl"] = rnd(rng, dims.mnl, 0.3, 3.0); Wn["dnli"] = 1.0 / Wn["dnl"]
        Wn["d"] = rnd(rng, dims.l, 0.3, 3.0); Wn["di"] = 1.0 / Wn["d"]
        Wn["beta"] = [rng.uniform(0.3, 3.0) for _ in dims.q]
        Wn["v"] = []
        for m in dims.q:
            v1 = rnd(rng, m - 1, -1, 1)
            Wn["v"].append(np.concatenate([[math.sqrt(1.0 + float(v1 @ v1))], v1]))
        Wn["r"], Wn["rti"] = [], []
        for m in dims.s:
            if m == 0:
                r = np.zeros((0, 0))
            else:
                Q1, _ = np.linalg.qr(np.array([[rng.gauss(0, 1) for _ in range(m)] for _ in range(m)]))
                Q2, _ = np.linalg.qr(np.array([[rng.gauss(0, 1) for _ in range(m)] for _ in range(m)]))
                r = Q1 @ np.diag(rnd(rng, m, 0.4, 2.5)) @ Q2.T
            Wn["r"].append(r)
            Wn["rti"].append(np.linalg.inv(r).T if m else r)
        return Wn

    def mkW(Wn):
        W = {}
        for k in ("dnl", "dnli", "d", "di"):
            if k in Wn:
                W[k] = to_matrix(Wn[k])
        W["beta"] = list(Wn["beta"])
        W["v"] = [to_matrix(v) for v in Wn["v"]]
        W["r"] = [matrix([float(t) for t in vecF(r)], r.shape, "d") for r in Wn["r"]]
        W["rti"] = [matrix([float(t) for t in vecF(r)], r.shape, "d") for r in Wn["rti"]]
        return W

    def lower_mask(dims, ncols=1, packed_diag=False):
        """boolean mask (N,) of entries that carry meaning (everything except strict upper triangles)"""
        mk = np.ones(dims.N, dtype=bool)
        for kind, st, m in dims.blocks():
            if kind == "s":
                M = np.tril(np.ones((m, m), dtype=bool))
                mk[st:st + m * m] = M.reshape(-1, order="F")
        return mk

    def close(c, got, want, key, what, scale=None, tol=TOL, **detail):
        got = np.asarray(got, dtype=float); want = np.asarray(want, dtype=float)
        if got.shape != want.shape:
            c.check(); c.fail(key, "%s: shape %s vs %s" % (what, got.shape, want.shape), **detail); return False
        if scale is None:
            scale = max(1.0, float(np.max(np.abs(want))) if want.size else 1.0)
        err = float(np.max(np.abs(got - want))) / scale if want.size else 0.0
        if not np.all(np.isfinite(got)):
            err = float("inf")
        ctx.maxobs("relerr." + key.split(":")[0], err)
        return c.require(err <= tol, key, "%s: relative error %.3g > %.3g" % (what, err, tol),
                         got=got, want=want, **detail)

    def run_both(c, name, call, judge, cmpf=None):
        """call(impl_module) -> outputs dict of numpy arrays; judge(outputs, implname)"""
        outs = {}
        for iname, mod in IMPLS:
            ctx.count("impl." + iname)
            try:
                outs[iname] = call(mod)
            except Exception as e:
                c.check()
                c.fail("%s:%s:exception" % (name, iname), "%s(%s) raised %s: %s" % (name, iname, type(e).__name__, e))
                return
            judge(outs[iname], iname)
        # compiled == fallback (on the meaningful part of the output)
        if cmpf is None:
            cmpf = lambda o: o["x"]
        a, b = cmpf(outs["C"]), cmpf(outs["py"])
        close(c, a, b, "%s:C-vs-py" % name, "%s output compiled vs python" % name, tol=1e-12)

    # ------------------------------------------------------------------
    def one(c):
        rng = c.rng
        kern = KERNELS[(c.k + ctx.worker) % len(KERNELS)] if rng.random() < 0.7 else rng.choice(KERNELS)
        ctx.count("kernel." + kern)
        dims = gen_dims(rng, allow_mnl=kern not in ("sgemv", "trisc", "triusc", "symm", "jdot", "jnrm2"))
        c.desc.update({"kernel": kern, "dims": dims.key()})
        N, mnl = dims.N, dims.mnl
        dd = dims.asdict()
        lm = lower_mask(dims)
        flags = ""

        if kern == "scale":
            ncols = rng.choice([1, 1, 2, 3]) if rng.random() < 0.9 else rng.choice([8, 9, 12, 17])     # past one panel of columns
            trans, inverse = rng.choice("NT"), rng.choice("NI")
            flags = trans + inverse + "c%d" % min(ncols, 2)
            Wn = gen_W(rng, dims)
            X = np.array([cone.random_vector(rng, dims, symmetric=False) for _ in range(ncols)]).T.reshape(N, ncols)
            want = np.column_stack([cone.W_apply(Wn, X[:, j], trans, inverse) for j in range(ncols)]) if ncols else X
            # x may have more rows than the cone has entries (both implementations take the column stride from x.size[0]):
            # the trailing rows belong to no block and must come back bit-identical
            pad = rng.choice([0, 0, 0, 1, 2, 5]) if N else 0
            PADV = np.array([[rng.uniform(-9, 9) for _ in range(ncols)] for _ in range(pad)]).reshape(pad, ncols)
            if pad:
                ctx.count("scale.trailing-rows"); flags += "p"
                if ncols > 1 and dims.s: ctx.count("scale.trailing-rows.multicolumn-s-block")
            def call(mod):
                x = to_matrix(np.vstack([X, PADV])) if N else matrix(0.0, (0, ncols))
                W = mkW(Wn)
                mod.scale(x, W, trans=trans, inverse=inverse)
                full = to_np(x)
                if pad:
                    c.require(np.array_equal(full[N:, :], PADV), "scale:%s:trailing-rows-modified" % ("C" if mod is misc else "py"),
                              "rows of x below the cone's entries changed", before=PADV, after=full[N:, :])
                return {"x": full[:N, :]}
            def judge(o, iname):
                close(c, o["x"][lm, :], want[lm, :], "scale:%s:definition" % iname,
                      "scale(trans=%s,inverse=%s) vs W definition" % (trans, inverse),
                      scale=max(1.0, float(np.max(np.abs(want))) if want.size else 1.0))
            run_both(c, "scale", call, judge, lambda o: o["x"][lm, :])
            # identities: inverse undoes, adjoint
            if N:
                y = cone.random_vector(rng, dims)
                x0 = cone.symmetrize(X[:, 0], dims)
                for iname, mod in IMPLS:
                    W = mkW(Wn)
                    a = to_matrix(x0); mod.scale(a, W, trans=trans, inverse=inverse)
                    b = matrix(a); mod.scale(b, W, trans=trans, inverse="I" if inverse == "N" else "N")
                    close(c, vec(b)[lm], x0[lm], "scale:%s:inverse-roundtrip" % iname, "scale then inverse scale")
                    # <W x, y> = <x, W' y>
                    bb = to_matrix(y); mod.scale(bb, W, trans="T" if trans == "N" else "N", inverse=inverse)
                    lhs = cone.sdot(cone.symmetrize(vec(a), dims), y, dims)
                    rhs = cone.sdot(x0, cone.symmetrize(vec(bb), dims), dims)
                    sc = max(1.0, abs(lhs), np.linalg.norm(vec(a)) * np.linalg.norm(y))
                    c.require(abs(lhs - rhs) <= 1e-11 * sc, "scale:%s:adjoint" % iname,
                              "<Wx,y>=%r != <x,W'y>=%r" % (lhs, rhs))

        elif kern == "scale2":
            inverse = rng.choice("NI")
            ncols = 1
            flags = inverse
            lam = np.zeros(dims.cdim_diag)
            ind = 0
            lam[:mnl + dims.l] = rnd(rng, mnl + dims.l, 0.3, 3.0); ind = mnl + dims.l
            for m in dims.q:
                w = rnd(rng, m - 1, -1, 1)
                lam[ind] = float(np.linalg.norm(w)) + rng.uniform(0.3, 2.0); lam[ind + 1:ind + m] = w; ind += m
            for m in dims.s:
                lam[ind:ind + m] = rnd(rng, m, 0.3, 3.0); ind += m
            X = cone.random_vector(rng, dims, symmetric=False)
            want = np.zeros(N)
            nl = mnl + dims.l
            want[:nl] = X[:nl] / lam[:nl] if inverse == "N" else X[:nl] * lam[:nl]
            ind = nl; ind2 = nl
            for m in dims.q:
                lk = lam[ind:ind + m]
                a = math.sqrt(lk[0] ** 2 - float(lk[1:] @ lk[1:]))
                l = lk / a
                w = l.copy(); w[0] += 1.0; w /= math.sqrt(2.0 * (l[0] + 1.0))
                J = np.eye(m); J[1:, 1:] *= -1
                M = a * (2.0 * np.outer(w, w) - J)
                want[ind:ind + m] = M @ X[ind:ind + m] if inverse == "I" else np.linalg.solve(M, X[ind:ind + m])
                ind += m
            ind2 = ind
            for m in dims.s:
                lk = lam[ind2:ind2 + m]
                Xk = X[ind:ind + m * m].reshape((m, m), order="F")
                S = np.sqrt(np.outer(lk, lk))
                want[ind:ind + m * m] = vecF(Xk * S if inverse == "I" else Xk / S)
                ind += m * m; ind2 += m
            def call(mod):
                x = to_matrix(X) if N else matrix(0.0, (0, 1))
                l_ = to_matrix(lam) if len(lam) else matrix(0.0, (0, 1))
                mod.scale2(l_, x, dd, mnl, inverse=inverse)
                return {"x": vec(x), "lmbda": vec(l_)}
            def judge(o, iname):
                close(c, o["x"], want, "scale2:%s:definition" % iname, "scale2(inverse=%s)" % inverse)
                c.require(np.array_equal(o["lmbda"], lam), "scale2:%s:lmbda-modified" % iname, "lmbda changed")
            run_both(c, "scale2", call, judge)

        elif kern in ("pack", "unpack"):
            offx, offy = rng.choice([0, 0, 1, 3]), rng.choice([0, 0, 2, 5])
            extra_x, extra_y = rng.choice([0, 0, 2]), rng.choice([0, 0, 3])
            flags = "ox%d,oy%d" % (min(offx, 1), min(offy, 1))
            Np = dims.Np
            nlq = mnl + dims.l + sum(dims.q)
            if kern == "pack":
                src = cone.random_vector(rng, dims, symmetric=False)
                want = np.zeros(Np)
                want[:nlq] = src[:nlq]
                iu, ip = nlq, nlq
                for m in dims.s:
                    M = src[iu:iu + m * m].reshape((m, m), order="F")
                    for j in range(m):
                        col = M[j:, j].copy(); col[1:] *= math.sqrt(2.0)
                        want[ip:ip + m - j] = col; ip += m - j
                    iu += m * m
                nsrc, ndst = N, Np
            else:
                src = rnd(rng, Np)
                want = np.zeros(N)
                want[:nlq] = src[:nlq]
                iu, ip = nlq, nlq
                for m in dims.s:
                    M = np.zeros((m, m))
                    for j in range(m):
                        col = src[ip:ip + m - j].copy(); col[1:] /= math.sqrt(2.0)
                        M[j:, j] = col; ip += m - j
                    want[iu:iu + m * m] = vecF(M); iu += m * m
                nsrc, ndst = Np, N
            bx = np.full(offx + nsrc + extra_x, PAT); bx[offx:offx + nsrc] = src
            by0 = rnd(rng, offy + ndst + extra_y, 10, 20)
            def call(mod):
                x = to_matrix(bx) if len(bx) else matrix(0.0, (0, 1))
                y = to_matrix(by0) if len(by0) else matrix(0.0, (0, 1))
                getattr(mod, kern)(x, y, dd, mnl, offsetx=offx, offsety=offy)
                return {"x": vec(x), "y": vec(y)}
            def judge(o, iname):
                c.require(np.array_equal(o["x"], bx), "%s:%s:source-modified" % (kern, iname), "x changed")
                got = o["y"][offy:offy + ndst]
                if kern == "pack":
                    close(c, got, want, "pack:%s:definition" % iname, "pack")
                else:
                    close(c, got[lm], want[lm], "unpack:%s:definition" % iname, "unpack (lower triangle)")
                out_ok = np.array_equal(o["y"][:offy], by0[:offy]) and np.array_equal(o["y"][offy + ndst:], by0[offy + ndst:])
                c.require(out_ok, "%s:%s:footprint" % (kern, iname), "y modified outside [offsety, offsety+len)",
                          before=by0, after=o["y"])
            run_both(c, kern, call, judge, (lambda o: o["y"][offy:offy + ndst]) if kern == "pack" else (lambda o: o["y"][offy:offy + ndst][lm]))
            if kern == "pack" and N:
                # unpack undoes pack on symmetric data
                for iname, mod in IMPLS:
                    xs = cone.symmetrize(src, dims)
                    x = to_matrix(xs); y = matrix(0.0, (max(Np, 1), 1)); z = matrix(0.0, (N, 1))
                    mod.pack(x, y, dd, mnl); mod.unpack(y, z, dd, mnl)
                    close(c, vec(z)[lm], xs[lm], "pack:%s:unpack-roundtrip" % iname, "unpack(pack(x))")

        elif kern == "pack2":
            ncols = rng.choice([1, 2, 3])
            extra = rng.choice([0, 0, 2])
            flags = "c%d" % ncols
            X = np.array([cone.random_vector(rng, dims, symmetric=False) for _ in range(ncols)]).T.reshape(N, ncols)
            Xb = np.vstack([X, np.full((extra, ncols), PAT)])
            Np = dims.Np
            want = np.zeros((Np, ncols))
            nlq = mnl + dims.l + sum(dims.q)
            for jc in range(ncols):
                want[:nlq, jc] = X[:nlq, jc]
                iu, ip = nlq, nlq
                for m in dims.s:
                    M = X[iu:iu + m * m, jc].reshape((m, m), order="F")
                    for j in range(m):
                        col = M[j:, j].copy(); col[1:] *= math.sqrt(2.0)
                        want[ip:ip + m - j, jc] = col; ip += m - j
                    iu += m * m
            def call(mod):
                x = to_matrix(Xb) if Xb.shape[0] else matrix(0.0, (0, ncols))
                mod.pack2(x, dd, mnl)
                return {"x": to_np(x)}
            def judge(o, iname):
                close(c, o["x"][:Np, :], want, "pack2:%s:definition" % iname, "pack2")
                c.require(np.array_equal(o["x"][N:, :], Xb[N:, :]), "pack2:%s:footprint" % iname,
                          "rows beyond the vector changed")
            run_both(c, "pack2", call, judge, lambda o: o["x"][:Np, :])

        elif kern in ("sdot", "snrm2"):
            x = cone.random_vector(rng, dims, symmetric=False)
            if any(m_ >= 2 for m_ in dims.s) and rng.random() < 0.15:
                # the strict upper triangles of 's' blocks are not referenced - whatever they hold (stale 1e170, 1e300)
                hugev = rng.choice([1e170, -1e300, 1e200])
                for kind_, st_, m_ in dims.blocks():
                    if kind_ == "s":
                        for j_ in range(m_):
                            for i_ in range(j_):
                                x[st_ + j_ * m_ + i_] = hugev
                ctx.count("snrm2-sdot.huge-values-in-unreferenced-triangle")
            y = cone.random_vector(rng, dims, symmetric=False) if kern == "sdot" else x
            want = cone.sdot(x, y, dims)
            if kern == "snrm2":
                want = math.sqrt(want)
            xl_, yl_ = x[lm], y[lm]
            sc = max(1.0, float(np.linalg.norm(xl_) * np.linalg.norm(yl_))) if kern == "sdot" else max(1.0, float(np.linalg.norm(xl_)))
            def call(mod):
                a = to_matrix(x) if N else matrix(0.0, (0, 1))
                b = to_matrix(y) if N else matrix(0.0, (0, 1))
                r = mod.sdot(a, b, dd, mnl) if kern == "sdot" else mod.snrm2(a, dd, mnl)
                return {"r": np.array([r]), "x": vec(a), "y": vec(b)}
            def judge(o, iname):
                close(c, o["r"], [want], "%s:%s:definition" % (kern, iname), kern, scale=sc)
                c.require(np.array_equal(o["x"], x) and np.array_equal(o["y"], y),
                          "%s:%s:argument-modified" % (kern, iname), "arguments changed")
            run_both(c, kern, call, judge, lambda o: o["r"] / sc)

        elif kern == "sgemv":
            n = rng.randint(0, 4)
            trans = rng.choice("NT")
            alpha = rng.choice([1.0, 1.0, -1.0, 0.0, 2.5]); beta = rng.choice([0.0, 1.0, -0.5])
            sparse = rng.random() < 0.4
            offx, offy = rng.choice([0, 0, 2]), rng.choice([0, 0, 3])
            use_n = rng.random() < 0.3 and n > 0
            neff = rng.randint(0, n) if use_n else n
            flags = trans + ("sp" if sparse else "de") + ("a0" if alpha == 0 else "") + ("n" if use_n else "")
            A = np.array([[rng.uniform(-2, 2) if (not sparse or rng.random() < 0.5) else 0.0
                           for _ in range(n)] for _ in range(N)]).reshape(N, n)
            if trans == "N":
                xv = rnd(rng, neff); yv = rnd(rng, N)
                want = alpha * (A[:, :neff] @ xv) + beta * yv
                nx, ny = neff, N
            else:
                xv = cone.random_vector(rng, dims, symmetric=False); yv = rnd(rng, neff)
                xs = xv.copy()
                # S inner product with each column: lower triangle, off-diagonals doubled
                wvec = np.zeros(N)
                for kind, st, m in dims.blocks():
                    if kind == "s":
                        Wm = np.tril(2.0 * np.ones((m, m))) - np.eye(m)
                        wvec[st:st + m * m] = Wm.reshape(-1, order="F")
                    else:
                        wvec[st:st + m] = 1.0
                want = alpha * (A[:, :neff].T @ (wvec * xv)) + beta * yv
                nx, ny = N, neff
            bx = np.concatenate([np.full(offx, PAT), xv, np.full(2, PAT)])
            by = np.concatenate([np.full(offy, PAT), yv, np.full(2, PAT)])
            def call(mod):
                Am = (to_spmatrix(A) if sparse else to_matrix(A)) if A.size else (spmatrix([], [], [], (N, n)) if sparse else matrix(0.0, (N, n)))
                Aimg = to_np(Am).copy()
                x = to_matrix(bx); y = to_matrix(by)
                kw = dict(trans=trans, alpha=alpha, beta=beta, offsetx=offx, offsety=offy)
                if use_n:
                    kw["n"] = neff
                mod.sgemv(Am, x, y, dd, **kw)
                return {"x": vec(x), "y": vec(y), "Aok": np.array([float(np.array_equal(to_np(Am), Aimg))])}
            def judge(o, iname):
                if N == 0 or neff == 0:
                    # BLAS leaves y alone (or scales by beta) for empty dimensions; only the footprint is judged
                    pass
                else:
                    sc = max(1.0, float(np.abs(alpha) * (np.abs(A[:, :neff]).sum()) * max(1.0, np.abs(xv).max(initial=0)) + np.abs(yv).max(initial=0)))
                    close(c, o["y"][offy:offy + ny], want, "sgemv:%s:definition" % iname,
                          "sgemv(trans=%s,%s)" % (trans, "sparse" if sparse else "dense"), scale=sc)
                c.require(np.array_equal(o["y"][:offy], by[:offy]) and np.array_equal(o["y"][offy + ny:], by[offy + ny:]),
                          "sgemv:%s:footprint-y" % iname, "y modified outside addressed part")
                gx = o["x"]
                okx = np.array_equal(gx[:offx], bx[:offx]) and np.array_equal(gx[offx + nx:], bx[offx + nx:])
                if trans == "T":
                    okx = okx and np.array_equal(gx[offx:offx + nx][lm], xv[lm])
                else:
                    okx = okx and np.array_equal(gx[offx:offx + nx], xv)
                c.require(okx, "sgemv:%s:x-not-restored" % iname, "x (lower triangle / outside) changed", before=bx, after=gx)
                c.require(o["Aok"][0] == 1.0, "sgemv:%s:A-modified" % iname, "A changed")
            run_both(c, "sgemv", call, judge, lambda o: o["y"])

        elif kern in ("trisc", "triusc"):
            off = rng.choice([0, 0, 1, 4]); extra = rng.choice([0, 2])
            flags = "o%d" % min(off, 1)
            xv = cone.random_vector(rng, dims, symmetric=False)
            want = xv.copy()
            for kind, st, m in dims.blocks():
                if kind == "s":
                    M = xv[st:st + m * m].reshape((m, m), order="F").copy()
                    if kern == "trisc":
                        M = np.tril(M) + np.tril(M, -1)       # upper zero, strict lower doubled
                    else:
                        M = M - 0.5 * np.tril(M, -1)
                    want[st:st + m * m] = vecF(M)
            bx = np.concatenate([np.full(off, PAT), xv, np.full(extra, PAT)])
            def call(mod):
                x = to_matrix(bx) if len(bx) else matrix(0.0, (0, 1))
                getattr(mod, kern)(x, dd, off)
                return {"x": vec(x)}
            def judge(o, iname):
                g = o["x"]
                c.require(np.array_equal(g[off:off + N], want), "%s:%s:definition" % (kern, iname),
                          "%s result differs (exact expected)" % kern, got=g[off:off + N], want=want)
                c.require(np.array_equal(g[:off], bx[:off]) and np.array_equal(g[off + N:], bx[off + N:]),
                          "%s:%s:footprint" % (kern, iname), "modified outside block")
            run_both(c, kern, call, judge)

        elif kern == "symm":
            n = rng.choice([0, 1, 2, 3, 4, 5]); off = rng.choice([0, 0, 1, 3]); extra = rng.choice([0, 2])
            flags = "n%d,o%d" % (min(n, 2), min(off, 1))
            xv = rnd(rng, n * n)
            bx = np.concatenate([np.full(off, PAT), xv, np.full(extra, PAT)])
            want = vecF(matL(xv, n)) if n else xv
            def call(mod):
                x = to_matrix(bx) if len(bx) else matrix(0.0, (0, 1))
                mod.symm(x, n, off)
                return {"x": vec(x)}
            def judge(o, iname):
                g = o["x"]
                c.require(np.array_equal(g[off:off + n * n], want), "symm:%s:definition" % iname, "symm result", got=g, want=want)
                c.require(np.array_equal(g[:off], bx[:off]) and np.array_equal(g[off + n * n:], bx[off + n * n:]),
                          "symm:%s:footprint" % iname, "modified outside block")
            run_both(c, "symm", call, judge)

        elif kern == "sprod":
            diag = rng.choice("ND")
            flags = diag
            xv = cone.random_vector(rng, dims, symmetric=False)
            nlq = mnl + dims.l + sum(dims.q)
            if diag == "N":
                yv = cone.random_vector(rng, dims, symmetric=False)
            else:
                yv = rnd(rng, dims.cdim_diag)
            want = np.zeros(N)
            nl = mnl + dims.l
            want[:nl] = xv[:nl] * yv[:nl]
            ind = nl
            for m in dims.q:
                xk, yk = xv[ind:ind + m], yv[ind:ind + m]
                want[ind] = float(xk @ yk); want[ind + 1:ind + m] = yk[0] * xk[1:] + xk[0] * yk[1:]
                ind += m
            ind2 = ind
            for m in dims.s:
                X = matL(xv[ind:ind + m * m], m)
                Y = matL(yv[ind:ind + m * m], m) if diag == "N" else np.diag(yv[ind2:ind2 + m])
                want[ind:ind + m * m] = vecF(0.5 * (Y @ X + X @ Y))
                ind += m * m; ind2 += m
            def call(mod):
                x = to_matrix(xv) if N else matrix(0.0, (0, 1))
                y = to_matrix(yv) if len(yv) else matrix(0.0, (0, 1))
                mod.sprod(x, y, dd, mnl, diag=diag)
                return {"x": vec(x), "y": vec(y)}
            def judge(o, iname):
                close(c, o["x"][lm], want[lm], "sprod:%s:definition" % iname, "sprod(diag=%s)" % diag,
                      scale=max(1.0, float(np.linalg.norm(xv) * np.linalg.norm(yv))))
                ymask = lm if diag == "N" else np.ones(len(yv), dtype=bool)
                c.require(np.array_equal(o["y"][ymask], yv[ymask]), "sprod:%s:y-modified" % iname, "y (lower triangle) changed")
            run_both(c, "sprod", call, judge, lambda o: o["x"][lm])

        elif kern == "ssqr":
            yv = rnd(rng, dims.cdim_diag)
            want = np.zeros(dims.cdim_diag)
            nl = mnl + dims.l
            want[:nl] = yv[:nl] ** 2
            ind = nl
            for m in dims.q:
                yk = yv[ind:ind + m]
                want[ind] = float(yk @ yk); want[ind + 1:ind + m] = 2.0 * yk[0] * yk[1:]
                ind += m
            want[ind:] = yv[ind:] ** 2
            def call(mod):
                y = to_matrix(yv) if len(yv) else matrix(0.0, (0, 1))
                x = matrix(PAT, (len(yv), 1))
                mod.ssqr(x, y, dd, mnl)
                return {"x": vec(x), "y": vec(y)}
            def judge(o, iname):
                close(c, o["x"], want, "ssqr:%s:definition" % iname, "ssqr")
                c.require(np.array_equal(o["y"], yv), "ssqr:%s:y-modified" % iname, "y changed")
            run_both(c, "ssqr", call, judge)

        elif kern == "sinv":
            xv = cone.random_vector(rng, dims, symmetric=False)
            yv = np.zeros(dims.cdim_diag)
            nl = mnl + dims.l
            yv[:nl] = rnd(rng, nl, 0.3, 3.0)
            ind = nl
            for m in dims.q:
                w = rnd(rng, m - 1, -1, 1)
                yv[ind] = float(np.linalg.norm(w)) + rng.uniform(0.3, 2.0); yv[ind + 1:ind + m] = w; ind += m
            yv[ind:] = rnd(rng, len(yv) - ind, 0.3, 3.0)
            want = np.zeros(N)
            want[:nl] = xv[:nl] / yv[:nl]
            ind = nl
            for m in dims.q:
                yk = yv[ind:ind + m]
                Arw = yk[0] * np.eye(m); Arw[0, :] = yk; Arw[:, 0] = yk
                want[ind:ind + m] = np.linalg.solve(Arw, xv[ind:ind + m]); ind += m
            ind2 = ind
            for m in dims.s:
                yk = yv[ind2:ind2 + m]
                G = 0.5 * (yk[:, None] + yk[None, :])
                Xk = xv[ind:ind + m * m].reshape((m, m), order="F")
                want[ind:ind + m * m] = vecF(Xk / G); ind += m * m; ind2 += m
            def call(mod):
                x = to_matrix(xv) if N else matrix(0.0, (0, 1))
                y = to_matrix(yv) if len(yv) else matrix(0.0, (0, 1))
                mod.sinv(x, y, dd, mnl)
                x2 = matrix(x)
                mod.sprod(x2, y, dd, mnl, diag="D")
                return {"x": vec(x), "y": vec(y), "back": vec(x2)}
            def judge(o, iname):
                close(c, o["x"][lm], want[lm], "sinv:%s:definition" % iname, "sinv", scale=max(1.0, 10 * float(np.max(np.abs(want), initial=0))))
                close(c, o["back"][lm], xv[lm], "sinv:%s:sprod-roundtrip" % iname, "sprod(sinv(x)) == x", tol=1e-11)
                c.require(np.array_equal(o["y"], yv), "sinv:%s:y-modified" % iname, "y changed")
            run_both(c, "sinv", call, judge, lambda o: o["x"][lm])

        elif kern == "max_step":
            with_sigma = rng.random() < 0.5
            inside = rng.random() < 0.5
            flags = ("sig" if with_sigma else "nosig")
            xv = cone.random_interior(rng, dims, junk=rng.random() < 0.5) if inside else cone.random_vector(rng, dims, symmetric=False)
            if N and rng.random() < 0.25:
                # one block exactly on the boundary of its cone (value exactly 0.0), every other block strictly inside
                xv = cone.random_interior(rng, dims)
                blks = [(k_, st_, m_) for (k_, st_, m_) in dims.blocks() if m_ > 0]
                k_, st_, m_ = rng.choice(blks)
                if k_ in ("nl", "l"):
                    xv[st_ + rng.randrange(m_)] = 0.0
                elif k_ == "q":
                    blk = np.zeros(m_)
                    if m_ == 1: blk[0] = 0.0
                    elif m_ == 2: blk[:] = [2.0, rng.choice([2.0, -2.0])]
                    else: blk[:3] = [5.0, 3.0, rng.choice([4.0, -4.0])]
                    xv[st_:st_ + m_] = blk
                else:
                    dg = [0.0] + [float(rng.randint(1, 4)) for _ in range(m_ - 1)]
                    rng.shuffle(dg)
                    xv[st_:st_ + m_ * m_] = vecF(np.diag(dg))
                ctx.count("max_step.block-exactly-on-boundary")
                if (k_, st_, m_) != blks[-1]: ctx.count("max_step.block-exactly-on-boundary.not-last")
                flags += "bd"
            elif N and rng.random() < 0.08:
                # magnitudes beyond the single-precision range (the result is a double)
                xv = xv * rng.choice([1e39, 1e100, 1e150])
                ctx.count("max_step.beyond-float-range")
                flags += "hg"
            explicit_none = (not with_sigma) and rng.random() < 0.3      # sigma=None is the documented default value
            if explicit_none: ctx.count("max_step.sigma-None-explicit")
            want = -cone.margin(xv, dims)
            if want == -math.inf:
                want = 0.0
            def call(mod):
                x = to_matrix(xv) if N else matrix(0.0, (0, 1))
                if explicit_none:
                    t = mod.max_step(x, dd, mnl, None)
                    return {"t": np.array([t]), "x": vec(x), "sigma": None}
                if with_sigma:
                    sg = matrix(PAT, (sum(dims.s) + 1, 1))
                    t = mod.max_step(x, dd, mnl, sg)
                    return {"t": np.array([t]), "x": vec(x), "sigma": vec(sg)}
                t = mod.max_step(x, dd, mnl)
                return {"t": np.array([t]), "x": vec(x), "sigma": None}
            def judge(o, iname):
                sc = max(1.0, float(np.max(np.abs(xv), initial=0)) * max(1, max(dims.s + [1])))
                close(c, o["t"], [want], "max_step:%s:definition" % iname, "max_step value", scale=sc)
                if not with_sigma:
                    c.require(np.array_equal(o["x"], xv), "max_step:%s:x-modified" % iname, "x changed without sigma")
                else:
                    ns = sum(dims.s)
                    c.require(o["sigma"][ns] == PAT, "max_step:%s:sigma-footprint" % iname, "sigma written beyond sum(s)")
                    nls = mnl + dims.l + sum(dims.q)
                    c.require(np.array_equal(o["x"][:nls], xv[:nls]), "max_step:%s:x-nonS-modified" % iname, "non-'s' part of x changed")
                    ind, ind2 = nls, 0
                    for m in dims.s:
                        Q = o["x"][ind:ind + m * m].reshape((m, m), order="F")
                        sg = o["sigma"][ind2:ind2 + m]
                        M = matL(xv[ind:ind + m * m], m)
                        if m:
                            sc2 = max(1.0, float(np.max(np.abs(M))))
                            close(c, Q @ np.diag(sg) @ Q.T, M, "max_step:%s:eig-reconstruct" % iname, "Q diag(sigma) Q' == block", scale=sc2 * m, tol=1e-11)
                            close(c, Q.T @ Q, np.eye(m), "max_step:%s:eig-orthonormal" % iname, "Q'Q == I", tol=1e-11)
                            c.require(bool(np.all(np.diff(sg) >= 0)), "max_step:%s:sigma-order" % iname, "sigma not ascending", sigma=sg)
                        ind += m * m; ind2 += m
            # python and C may return different eigenvector signs: compare only t / sigma
            outs = {}
            for iname, mod in IMPLS:
                ctx.count("impl." + iname)
                try:
                    outs[iname] = call(mod)
                except Exception as e:
                    c.check(); c.fail("max_step:%s:exception" % iname, "%s: %s" % (type(e).__name__, e)); return
                judge(outs[iname], iname)
            close(c, outs["C"]["t"], outs["py"]["t"], "max_step:C-vs-py", "t compiled vs python",
                  scale=max(1.0, float(np.max(np.abs(xv), initial=0)) * max(1, max(dims.s + [1]))), tol=1e-11)

        elif kern in ("jdot", "jnrm2"):
            n = rng.randint(1, 6); offx, offy = rng.choice([0, 0, 2]), rng.choice([0, 0, 1])
            use_n = rng.random() < 0.6
            flags = "n" if use_n else "default"
            if not use_n:
                offx = offy = 0
            w = rnd(rng, n - 1, -1, 1)
            xk = np.concatenate([[float(np.linalg.norm(w)) + rng.uniform(0.2, 2)], w])
            yk = rnd(rng, n)
            hard = None
            if kern == "jnrm2" and rng.random() < 0.3:
                # the J-norm of an interior vector is representable whenever the vector is: huge / tiny magnitudes
                # (x0^2 overflows or underflows, the norm does not) and an order-2 vector next to the boundary
                # (x0 - |x1| is exact, x0^2 - x1^2 is not)
                hard = rng.choice(["huge", "tiny", "boundary2"])
                if hard == "boundary2":
                    n = 2
                    a_ = rng.choice([1.0, 3.0, 1e4, 1e8]) * rng.choice([1, -1])
                    xk = np.array([abs(a_) + rng.choice([1.0, 0.5, 2.0 ** -10]), a_])
                    yk = rnd(rng, n)
                else:
                    xk = xk * (1e160 if hard == "huge" else 1e-160)
                ctx.count("jnrm2." + hard)
            bx = np.concatenate([np.full(offx, PAT), xk] + ([np.full(2, PAT)] if use_n else []))
            by = np.concatenate([np.full(offy, PAT), yk] + ([np.full(1, PAT)] if use_n else []))
            if kern == "jdot":
                want = xk[0] * yk[0] - float(xk[1:] @ yk[1:])
            else:
                # exact rational arithmetic for the reference, rounded once
                from fractions import Fraction
                from decimal import Decimal, getcontext
                getcontext().prec = 60
                q_ = Fraction(float(xk[0])) ** 2 - sum(Fraction(float(v)) ** 2 for v in xk[1:])
                want = float((Decimal(q_.numerator) / Decimal(q_.denominator)).sqrt())
            def call(mod):
                x, y = to_matrix(bx), to_matrix(by)
                if kern == "jdot":
                    r = mod.jdot(x, y, n=n, offsetx=offx, offsety=offy) if use_n else mod.jdot(x, y)
                else:
                    r = mod.jnrm2(x, n=n, offset=offx) if use_n else mod.jnrm2(x)
                return {"r": np.array([r])}
            def judge(o, iname):
                if hard is not None:
                    got = float(o["r"][0])
                    c.check()
                    c.require(math.isfinite(got) and abs(got - want) <= 1e-10 * abs(want), "jnrm2:%s:definition-%s" % (iname, hard),
                              "jnrm2 of the interior vector %r = %r, exact value %r" % (list(xk), got, want))
                    return
                close(c, o["r"], [want], "%s:%s:definition" % (kern, iname), kern,
                      scale=max(1.0, float(np.linalg.norm(xk) * np.linalg.norm(yk))), tol=1e-10)
            run_both(c, kern, call, judge, lambda o: o["r"])

        c.cls(kern, flags, dims.shape_class())
        if c.k < 3:
            ctx.sample({"kernel": kern, "flags": flags, "dims": dd, "mnl": mnl})

    for k in ctx.cases():
        ctx.run_case(k, {}, one)
