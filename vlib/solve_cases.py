"""Case generation + execution + judgement for the conelp family (C01, C02)
and helpers shared with C03/C05/C06/C09/C10."""
import math
import numpy as np
from vlib.oracle import cone, certs
from vlib.oracle.cone import Dims
from vlib.gen import coneprob as gp
from vlib import solverun as sr

KKT_NAMES = ["ldl", "ldl2", "qr", "chol", "chol2"]


def dims_for_entry(rng, entry):
    if entry == "lp":
        return Dims(rng.randint(1, 7))
    if entry == "socp":
        st = rng.choice(["lq", "lq", "q", "q1", "multi"])
        if st == "lq":
            return Dims(rng.randint(1, 4), [rng.randint(2, 4) for _ in range(rng.randint(1, 2))])
        if st == "q":
            return Dims(0, [rng.randint(2, 5) for _ in range(rng.randint(1, 3))])
        if st == "q1":
            return Dims(rng.randint(0, 3), [rng.choice([1, 1, 2, 3]) for _ in range(rng.randint(1, 3))])
        return Dims(rng.randint(0, 2), [rng.randint(1, 4) for _ in range(rng.randint(2, 3))])
    if entry == "sdp":
        st = rng.choice(["ls", "ls", "s", "s01", "multi"])
        if st == "ls":
            return Dims(rng.randint(1, 4), [], [rng.randint(2, 3) for _ in range(rng.randint(1, 2))])
        if st == "s":
            return Dims(0, [], [rng.randint(2, 4) for _ in range(rng.randint(1, 2))])
        if st == "s01":
            return Dims(rng.randint(0, 3), [], [rng.choice([0, 1, 1, 2]) for _ in range(rng.randint(1, 3))])
        return Dims(rng.randint(0, 2), [], [rng.randint(1, 3) for _ in range(rng.randint(2, 3))])
    return gp.gen_dims(rng)


def planted_shortcut(rng, dims, n):
    """an instance whose least-squares starting point is already optimal
    (c = 0, h = G x0 + s0 with s0 in the cone and orthogonal to range(G), p = 0)"""
    Np = dims.Np
    if Np - 1 < n or Np == 0:
        return None
    for _ in range(30):
        ga = gp.gen_GA(rng, dims, n, 0)
        if ga is None:
            return None
        G, A = ga
        s0 = cone.symmetrize(cone.random_interior(rng, dims, 0.3, 2.0), dims)
        sp = gp.pack_iso(s0, dims)[:, 0]
        Gp = gp.pack_iso(G, dims)
        Gp = Gp - np.outer(sp, sp @ Gp) / float(sp @ sp)
        G2 = gp.unpack_iso(Gp, dims)
        s1, s2, smax = gp.conditioning(G2, A, dims)
        if not s1 >= 0.2:
            continue
        x0 = np.array([rng.uniform(-2, 2) for _ in range(n)])
        pr = gp.Prob(c=np.zeros(n), G=G2, h=G2 @ x0 + s0, A=A, b=np.zeros(0), dims=dims, kind="shortcut")
        pr.pl = {"x": x0, "s": s0, "y": np.zeros(0), "z": np.zeros(dims.N), "p": 0.0, "d": 0.0, "sv": [s1, s2, smax]}
        return pr
    return None


def planted_centred(rng, entry):
    """strictly feasible bounded problem whose constraint set is symmetric about the origin: G = [M; -M] (and optionally
    the unit ball as a 'q' block), so that G'e = 0 for the cone identity e and the default least-squares start has a
    strictly interior slack with x = 0 - the configuration in which conelp's iteration-0 statistics matter"""
    n = rng.randint(1, 4)
    k = rng.randint(n, n + 2)
    for _ in range(20):
        Mx = gp.rand_sv_matrix(rng, k, n)
        if np.linalg.svd(Mx, compute_uv=False)[-1] >= 0.2:
            break
    else:
        return None
    hb = np.array([rng.uniform(0.5, 3.0) for _ in range(k)])
    G = np.vstack([Mx, -Mx]); h = np.concatenate([hb, hb])
    q = []
    if entry in ("conelp", "socp") and rng.random() < 0.4:
        q = [n + 1]
        G = np.vstack([G, np.zeros((1, n)), -np.eye(n)]); h = np.concatenate([h, [rng.uniform(1.0, 3.0)], np.zeros(n)])
    c = np.array([rng.uniform(-2, 2) for _ in range(n)])
    pr = gp.Prob(c=c, G=G, h=h, A=np.zeros((0, n)), b=np.zeros(0), dims=Dims(2 * k, q, []), kind="feasible")
    pr.pl = {}
    return pr


def gen_instance(rng, entry, kind, dims=None, boundary_ray=False, centred=False):
    """returns Prob or None"""
    if centred and kind == "feasible" and dims is None and entry in ("lp", "conelp", "socp") and rng.random() < 0.06:
        pr = planted_centred(rng, entry)
        if pr is not None:
            return pr
    if kind == "feasible" and dims is None and entry in ("lp", "conelp") and rng.random() < (0.25 if entry == "lp" else 0.08):
        return gp.planted_sparse_lp(rng)        # genuinely sparse pattern, n up to 12
    for _ in range(30):
        d = dims or dims_for_entry(rng, entry)
        n = rng.randint(1, 6)
        p = rng.choice([0, 0, 1, 1, 2, 3])
        p = min(p, n)
        if kind == "feasible":
            if d.Np + p < n:
                continue
            pr = gp.planted_feasible(rng, d, n, p)
        elif kind == "pinf":
            pr = gp.planted_pinf(rng, d, n, p)
        elif kind == "dinf":
            pr = None
            if boundary_ray:
                pr = gp.planted_dinf(rng, d, n, min(p, max(n - 1, 0)), boundary=True)
            if pr is None:
                pr = gp.planted_dinf(rng, d, n, min(p, max(n - 1, 0)))
        elif kind == "shortcut":
            pr = planted_shortcut(rng, d, n)
        else:
            raise ValueError(kind)
        if pr is not None:
            return pr
    return None


def gen_options(rng, dims):
    """(options dict, class label).  show_progress always False."""
    o = {"show_progress": False}
    r = rng.random()
    if r < 0.06:
        # an explicitly EMPTY per-call dictionary means "all defaults"; solverun.call_entry poisons the global
        # solvers.options for the duration of such a call, so a solver that falls back to them shows up here
        return {}, "empty-dict"
    if r < 0.45:
        return o, "default"
    if r < 0.70:
        t = rng.choice([1e-4, 1e-5, 1e-6, 1e-8, 1e-9, 1e-10])
        which = rng.choice(["all", "feastol", "abstol", "reltol"])
        if which in ("all", "feastol"): o["feastol"] = t
        if which in ("all", "abstol"): o["abstol"] = t
        if which in ("all", "reltol"): o["reltol"] = t * (10 if which == "all" else 1)
        return o, "tol"
    if r < 0.82:
        o["refinement"] = rng.choice([0, 1, 2])
        return o, "refinement"
    if r < 0.92:
        o["maxiters"] = rng.choice([1, 2, 3, 5, 8, 12, 30])
        return o, "maxiters"
    if rng.random() < 0.5:
        o["abstol"] = rng.choice([0.0, -1.0]); o["reltol"] = 1e-6     # only the relative criterion active
        return o, "relonly"
    o["reltol"] = rng.choice([0.0, 0]); o["abstol"] = rng.choice([1e-7, 1e-9])      # only the absolute criterion active
    return o, "absonly"


def pick_kkt(rng, dims, pr, allow_callable=True):
    r = rng.random()
    if r < 0.30:
        return None, "default"
    names = list(KKT_NAMES)
    if dims.q or dims.s:
        names.remove("chol2")
    if allow_callable and r > 0.85:
        return sr.NumpyKKT(pr), "callable"
    nm = rng.choice(names)
    return nm, nm


def op_case(c, ctx, rng, kind, judge_status):
    """the same planted LP through cvxopt.modeling.op.solve(): status propagation,
    None-ness of the other half, certificate mapped back to the ORIGINAL constraints"""
    from cvxopt import solvers, matrix
    from cvxopt.modeling import variable, op, dot
    pr = None
    for _ in range(20):
        d = Dims(rng.randint(2, 7))
        n = rng.randint(2, 5)
        p = rng.choice([0, 1, 2])
        pr = gen_instance(rng, "lp", kind, dims=d)
        if pr is not None:
            break
    if pr is None:
        ctx.count("generator.none"); return
    n, p, m = pr.n, pr.p, pr.dims.l
    # split x into two variables and the inequalities into two constraints
    n1 = rng.randint(1, n - 1) if n > 1 else n
    m1 = rng.randint(1, m - 1) if m > 1 else m
    fmt = rng.choice(["dense", "sparse"])
    x1 = variable(n1, "x1"); x2 = variable(n - n1, "x2") if n > n1 else None
    def lin(Mrows):
        e = sr.mk(Mrows[:, :n1]) * x1
        if x2 is not None:
            e = e + sr.mk(Mrows[:, n1:]) * x2
        return e
    cons, ineqs, eqs = [], [], []
    for (a, b_) in ((0, m1), (m1, m)):
        if b_ > a:
            cn = (lin(pr.G[a:b_]) <= sr.mk(pr.h[a:b_])); ineqs.append((cn, a, b_)); cons.append(cn)
    if p:
        ce = (lin(pr.A) == sr.mk(pr.b)); eqs.append(ce); cons.append(ce)
    obj = dot(sr.mk(pr.c[:n1]), x1)
    if x2 is not None:
        obj = obj + dot(sr.mk(pr.c[n1:]), x2)
    rng.shuffle(cons)
    prob = op(obj, cons)
    if rng.random() < 0.6:
        # values left behind by an earlier solve of the same objects: solve() must replace them (by the certificate
        # resp. by None), not leave them
        from cvxopt import matrix as _mx
        x1.value = _mx(7.7e7, (n1, 1))
        if x2 is not None:
            x2.value = _mx(7.7e7, (n - n1, 1))
        for cn_ in cons:
            cn_.multiplier.value = _mx(7.7e7, (len(cn_), 1))
        ctx.count("op.stale-values-before-solve")
    saved = dict(solvers.options)
    solvers.options.clear(); solvers.options["show_progress"] = False
    try:
        prob.solve(fmt)
    except Exception as e:
        ctx.count("op.exception.%s" % type(e).__name__)
        c.desc["exception"] = repr(e)
        return
    finally:
        solvers.options.clear(); solvers.options.update(saved)
    st = prob.status
    ctx.count("op.status.%s.%s" % (kind, st))
    c.desc.update({"entry": "op", "kind": kind, "n": n, "p": p, "m": m, "format": fmt})
    if st not in judge_status:
        return
    J = certs.Judge(c, ctx, "op")
    vals = [x1.value] + ([x2.value] if x2 is not None else [])
    mults = [cn.multiplier.value for cn, _, _ in ineqs] + [ce.multiplier.value for ce in eqs]
    sol = {"status": st}
    if st == "primal infeasible":
        J.req(all(v is None for v in vals), "pinf-variable-values-not-None", "variable values must be None")
        if not J.req(all(mv is not None for mv in mults), "pinf-multiplier-None", "multipliers must hold the certificate"):
            return
        for (cn, a, b_) in ineqs:
            J.req(len(cn.multiplier.value) == b_ - a, "multiplier-length", "multiplier length != constraint length")
        z = []
        for (cn, a, b_) in ineqs: z += list(cn.multiplier.value)
        y = list(eqs[0].multiplier.value) if eqs else []
        sol.update({"x": None, "s": None, "y": y, "z": z})
    else:
        J.req(all(mv is None for mv in mults), "dinf-multiplier-values-not-None", "multiplier values must be None")
        if not J.req(all(v is not None for v in vals), "dinf-variable-None", "variables must hold the certificate"):
            return
        x = []
        for v in vals: x += list(v)
        # the op exposes no slack: s := max(-G x, 0) is in the cone, G x + s = min(G x... , 0) is the residual
        s = list(np.maximum(-(pr.G @ np.array(x)), 0.0))
        sol.update({"x": x, "s": s, "y": None, "z": None})
    # reuse the conelp certificate oracle on the assembled vectors (fields that op does not expose are skipped)
    certs.judge_cone_result(c, ctx, pr, sol, {}, "op", check_fields=False)
    ctx.count("op." + st)
    c.cls("op", fmt, "p%d" % min(p, 1), "split" if x2 is not None else "one", st)


def run_conelp_family(ctx, judge_status, mix, with_backends=True, op_fraction=0.0):
    from cvxopt import solvers
    kinds = list(mix.keys())
    weights = [mix[k] for k in kinds]

    def one(c):
        rng = c.rng
        if op_fraction and rng.random() < op_fraction:
            kind = rng.choices(kinds, weights)[0]
            if kind in ("pinf", "dinf"):
                return op_case(c, ctx, rng, kind, judge_status)
        entry = rng.choices(["conelp", "lp", "socp", "sdp"], [0.45, 0.2, 0.17, 0.18])[0]
        kind = rng.choices(kinds, weights)[0]
        # a third of the unbounded instances have all their rays on the boundary of the recession cone (exact zeros
        # in the slack of every valid certificate): only certificates that are actually returned are judged
        pr = gen_instance(rng, entry, kind, boundary_ray=(kind == "dinf" and rng.random() < 0.35), centred=True)
        if pr is None:
            ctx.count("generator.none")
            return
        if getattr(pr, "boundary_ray", False):
            ctx.count("dinf.boundary-ray")
        d = pr.dims
        if pr.p >= 1 and rng.random() < 0.12 and gp.homogenize_equalities(pr):
            # homogeneous equality constraints (b exactly zero, p > 0); with a user start the first iterate need not satisfy them
            ctx.count("homogeneous-equalities")
            c.desc["b"] = "zero"
        sparse = rng.random() < 0.4
        junk = bool(d.s) and rng.random() < 0.4
        # hq[k] / hs[k] may be sparse (coneprog docstrings): stored sparse, with structural zeros where the planted
        # problem allows exact zeros (len() of such a matrix is not its number of rows)
        sparse_h = False
        if entry in ("socp", "sdp") and (d.q or d.s) and rng.random() < 0.25:
            sparse_h = True
            nz = gp.zero_some_h(rng, pr) if kind in ("feasible", "shortcut") and not junk else 0
            ctx.count("sparse-h")
            if nz: ctx.count("sparse-h.structural-zeros")
        kkt, kkt_label = pick_kkt(rng, d, pr)
        start = rng.choices(["none", "primal", "dual", "both"], [0.55, 0.15, 0.15, 0.15])[0]
        opts, oclass = gen_options(rng, d)
        backend = None
        if with_backends:
            if entry == "lp" and rng.random() < 0.2:
                backend = "glpk"
            if entry == "sdp" and pr.p == 0 and d.s and min(d.s) >= 1 and rng.random() < 0.25:
                backend = "dsdp"
        if backend:
            sparse_h = False
            kkt, kkt_label, start, oclass = None, "backend", "none", "default"
            opts = {"show_progress": False, "glpk": {"msg_lev": "GLP_MSG_OFF"}, "msg_lev": "GLP_MSG_OFF",
                    "dsdp": {"DSDP_Monitor": 0}}
            if backend == "dsdp" and rng.random() < 0.3:
                # DSDP stopped by its own iteration limit has not converged: sdp() must not call that 'optimal'
                opts["dsdp"]["DSDP_MaxIts"] = rng.choice([1, 2, 4, 8])
                ctx.count("backend.dsdp.iteration-limit")
        # kktreg (undocumented regularisation, ldl only) is combined with the default tolerances only: a
        # tolerance below the regularisation level asks for more than the regularised system can deliver
        if kkt_label == "ldl" and rng.random() < 0.15 and not backend and oclass in ("default", "refinement", "maxiters"):
            opts = dict(opts); opts["kktreg"] = rng.choice([1e-10, 1e-9]); oclass += "+kktreg"
        if kind == "shortcut" and not backend and oclass in ("default", "refinement") and rng.random() < 0.4:
            # a regularisation ABOVE the tolerances on a problem whose least-squares start is already optimal: the KKT
            # solves are then inexact by ~kktreg, and only recomputed residuals may lead to 'optimal'
            kkt, kkt_label = "ldl", "ldl"
            opts = dict(opts); opts["kktreg"] = rng.choice([1e-6, 1e-4, 1e-3]); oclass += "+kktreg-large"
            ctx.count("shortcut.kktreg-large")
        via_kwarg = rng.random() < 0.5
        c.desc.update({"entry": entry, "kind": kind, "dims": d.key(), "n": pr.n, "p": pr.p, "kkt": kkt_label,
                       "start": start, "opts": {k: v for k, v in opts.items() if k not in ("glpk", "dsdp")},
                       "sparse": sparse, "junk": junk, "backend": backend, "via_kwarg": via_kwarg})
        if entry == "conelp":
            args = sr.cvx_args(pr, rng, sparseG=sparse, sparseA=sparse and rng.random() < 0.5, junk=junk)
        else:
            args = sr.wrapper_args(entry, pr, rng, sparse=sparse, junk=junk, sparse_h=sparse_h)
        ps = ds = None
        if start != "none":
            ps, ds, _, _ = sr.start_dicts(entry, pr, start, rng)
        saved = dict(solvers.options)
        try:
            if via_kwarg:
                sol, inner, exc = sr.call_entry(entry, pr, args, kktsolver=kkt, ps=ps, ds=ds, options=opts, solver=backend)
            else:
                solvers.options.clear(); solvers.options.update(opts)
                sol, inner, exc = sr.call_entry(entry, pr, args, kktsolver=kkt, ps=ps, ds=ds, solver=backend)
        finally:
            solvers.options.clear(); solvers.options.update(saved)
        if exc is not None:
            ctx.count("exception.%s.%s" % (kind, type(exc).__name__))
            c.desc["exception"] = "%s: %s" % (type(exc).__name__, exc)
            return
        st = sol.get("status")
        ctx.count("status.%s.%s" % (kind, st))
        c.desc["status"] = st
        if st not in judge_status:
            return
        if backend == "dsdp" and kind in ("pinf", "dinf") and st == "optimal":
            # the DSDP library classified a planted infeasible/unbounded instance as
            # PDFEASIBLE; sdp() relays it as 'optimal'.  One mechanism key.
            c.check()
            c.fail("sdp+dsdp:optimal-status-on-planted-infeasible-or-unbounded",
                   "DSDP reported DSDP_PDFEASIBLE on a planted %s instance; sdp() returned 'optimal' with "
                   "primal infeasibility %r dual infeasibility %r" % (kind, sol.get("primal infeasibility"), sol.get("dual infeasibility")))
            ctx.count("backend.dsdp")
            return
        nsol = sr.normalise(entry, sol, d)
        J = certs.Judge(c, ctx, entry if not backend else entry + "+" + backend)
        nfail0 = len(c.failed)
        certs.judge_cone_result(c, ctx, pr, nsol, opts, J.p, external=backend)
        if backend == "dsdp" and st == "optimal":
            # one mechanism key: DSDP_PDFEASIBLE is relayed as 'optimal' whether or not DSDP converged
            promised = [f for f in c.failed[nfail0:] if ":optimal-" in f["key"]]
            limited = promised and "DSDP_MaxIts" in opts.get("dsdp", {})
            if limited:
                # is it the iteration limit, or the recorded DSDP_PDFEASIBLE-without-convergence mechanism?  solve again without limit
                o2 = dict(opts); o2["dsdp"] = {"DSDP_Monitor": 0}
                sol2, _, exc2 = sr.call_entry(entry, pr, args, options=o2, solver=backend)
                c2_failed = len(c.failed)
                if exc2 is None and sol2.get("status") == "optimal":
                    certs.judge_cone_result(c, ctx, pr, sr.normalise(entry, sol2, d), o2, "recheck", external=backend)
                unlimited_bad = any(":optimal-" in f["key"] for f in c.failed[c2_failed:])
                del c.failed[c2_failed:]
                if not unlimited_bad:
                    c.failed[nfail0:] = [f for f in c.failed[nfail0:] if ":optimal-" not in f["key"]]
                    c.fail("sdp+dsdp:optimal-although-DSDP-stopped-at-its-iteration-limit",
                           "sdp(solver='dsdp', DSDP_MaxIts=%r) returned 'optimal' for a point that misses the optimality conditions by more than 1e-3 "
                           "(without the limit the result is fine): " % opts["dsdp"]["DSDP_MaxIts"] + "; ".join(f["msg"][:120] for f in promised[:3]))
                    promised = []
            if promised:
                c.failed[nfail0:] = [f for f in c.failed[nfail0:] if ":optimal-" not in f["key"]]
                c.fail("sdp+dsdp:optimal-status-but-not-converged-to-1e-3",
                       "sdp(solver='dsdp') returned 'optimal' for a point that misses the optimality conditions by more than 1e-3: " +
                       "; ".join(f["msg"][:120] for f in promised[:3]))
        if entry in ("socp", "sdp") and not backend:
            sr.wrapper_blocks_exact(J, entry, sol, inner, d)
            ctx.count("wrapper-block-checks")
        if entry == "lp" and not backend and inner is not None:
            for v in "xsyz":
                a, b = sol.get(v), inner.get(v)
                J.req((a is None and b is None) or (a is not None and b is not None and list(a) == list(b)),
                      "lp-vs-inner-" + v, "lp result differs from the inner conelp result")
        # evidence counters
        ctx.count("%s.%s" % (st.split()[0] if st != "optimal" else "optimal", entry))
        ctx.count("kkt." + kkt_label)
        ctx.count("start." + start)
        ctx.count("storage." + ("sparse" if sparse else "dense"))
        if junk: ctx.count("junk")
        if backend: ctx.count("backend." + backend)
        if st == "optimal" and sol.get("iterations") == 0 and not backend:
            ctx.count("iteration0-shortcut")
        ctx.count("options." + oclass)
        c.cls(entry, d.shape_class(), kkt_label, "sp" if sparse else "de", start, oclass, st, "junk" if junk else "")
        if c.k < 2:
            ctx.sample({"desc": c.desc, "status": st, "iterations": sol.get("iterations"),
                        "x": list(sol["x"]) if sol.get("x") is not None else None,
                        "gap": sol.get("gap"), "pres": sol.get("primal infeasibility")})

    for k in ctx.cases():
        ctx.run_case(k, {}, one)


# ---------------------------------------------------------------------------
# coneqp / qp (C03)
# ---------------------------------------------------------------------------

def gen_qp_instance(rng, entry, noineq=False):
    if not noineq and rng.random() < (0.25 if entry == "qp" else 0.08):
        return gp.planted_sparse_lp(rng, qp=True)
    for _ in range(40):
        if noineq:
            d = Dims(0)
        elif entry == "qp":
            d = Dims(rng.randint(1, 7))
        else:
            d = gp.gen_dims(rng)
        n = rng.randint(1, 6)
        p = min(rng.choice([0, 0, 1, 1, 2, 3]), n)
        r = rng.choice([0, 1, n // 2, n, n])      # rank of P: 0 .. n
        r = min(max(r, 0), n)
        if d.Np + p + r < n:
            continue
        pr = gp.planted_feasible(rng, d, n, p, qp_rank=r)
        if pr is not None:
            pr.rankP = r
            return pr
    return None


def operator_args(pr, args):
    """P, G, A as call-backs (documented signatures), backed by numpy"""
    from cvxopt import matrix
    D = certs.Data(pr)
    wv = np.zeros(pr.dims.N)
    for kind, st, m in pr.dims.blocks():
        if kind == "s":
            Wm = np.tril(2.0 * np.ones((m, m))) - np.eye(m)
            wv[st:st + m * m] = Wm.reshape(-1, order="F")
        else:
            wv[st:st + m] = 1.0

    def setv(y, v):
        for i in range(len(v)):
            y[i] = float(v[i])

    def fP(x, y, alpha=1.0, beta=0.0):
        setv(y, alpha * (D.P @ vec_(x)) + beta * vec_(y))

    def fG(x, y, trans="N", alpha=1.0, beta=0.0):
        if trans == "N":
            setv(y, alpha * (D.G @ vec_(x)) + beta * vec_(y))
        else:
            xv = cone.symmetrize(vec_(x), pr.dims)
            setv(y, alpha * (D.G.T @ xv) + beta * vec_(y))

    def fA(x, y, trans="N", alpha=1.0, beta=0.0):
        if trans == "N":
            setv(y, alpha * (D.A @ vec_(x)) + beta * vec_(y))
        else:
            setv(y, alpha * (D.A.T @ vec_(x)) + beta * vec_(y))
    return fP, fG, fA


def vec_(m):
    return np.array(list(m), dtype=float)


def run_coneqp_family(ctx):
    from cvxopt import solvers

    def one(c):
        rng = c.rng
        entry = rng.choices(["coneqp", "qp"], [0.65, 0.35])[0]
        noineq = rng.random() < 0.12
        pr = gen_qp_instance(rng, entry, noineq)
        if pr is None:
            ctx.count("generator.none"); return
        d = pr.dims
        if not noineq and rng.random() < 0.12 and getattr(pr, "pl", None) and "x" in pr.pl:
            # optimal value ~ 0 (pcost >= 0 >= dcost near the end, 'relative gap' None): the problem is translated to
            # u = x - x*, x* from a preliminary solve; every verdict on the new instance is recomputed from its own data
            try:
                a0 = sr.cvx_args(pr, rng)
                s0 = solvers.coneqp(a0["P"], a0["q"], a0["G"], a0["h"], a0["dims"], a0["A"], a0["b"], options={"show_progress": False})
            except Exception:
                s0 = None
            if s0 is not None and s0["status"] == "optimal":
                t_ = np.array(list(s0["x"]), dtype=float)
                pz = gp.Prob(c=pr.P @ t_ + pr.q, G=pr.G, h=pr.h - pr.G @ t_, A=pr.A, b=pr.b - pr.A @ t_, dims=d, kind=pr.kind)
                pz.P = pr.P; pz.q = pr.P @ t_ + pr.q
                pz.rankP = getattr(pr, "rankP", None)
                pz.pl = dict(pr.pl); pz.pl["x"] = pr.pl["x"] - t_
                if "p" in pz.pl:
                    off_ = float(0.5 * t_ @ pr.P @ t_ + pr.q @ t_)
                    pz.pl["p"] = pz.pl["p"] - off_
                    if "d" in pz.pl: pz.pl["d"] = pz.pl["d"] - off_
                pr = pz
                ctx.count("qp.zero-optimum")
        sparse = rng.random() < 0.4
        junk = rng.random() < 0.4
        zeroG = False
        if (not noineq and d.N and getattr(pr, "rankP", None) == pr.n and getattr(pr, "pl", None) and all(k_ in pr.pl for k_ in "xyz")
                and rng.random() < 0.06):
            # inequality rows that are all zero (0 <=_K h with h strictly inside the cone), stored as a sparse matrix with no
            # entries: still m rows - s and z have m entries and h, dims stay the caller's (P is definite: rank condition holds)
            hz = cone.symmetrize(cone.random_interior(rng, d, 0.5, 2.0), d)
            qz = -(pr.P @ pr.pl["x"]) - pr.A.T @ pr.pl["y"]
            pz = gp.Prob(c=qz, G=np.zeros_like(pr.G), h=hz, A=pr.A, b=pr.b, dims=d, kind=pr.kind)
            pz.P, pz.q, pz.rankP = pr.P, qz, pr.rankP
            pz.pl = {"x": pr.pl["x"], "y": pr.pl["y"], "s": hz, "z": pr.pl["z"], "structurally-sparse": True}
            pr = pz
            zeroG, sparse, junk = True, True, False
            ctx.count("qp.all-zero-sparse-G")
        opts, oclass = gen_options(rng, d)
        names = ["ldl", "ldl2", "chol"] + ([] if (d.q or d.s) else ["chol2"])
        r = rng.random()
        operators = False
        if r < 0.30:
            kkt, kl = None, "default"
        elif r < 0.80:
            kl = rng.choice(names); kkt = kl
        else:
            kkt, kl = sr.NumpyKKT(pr), "callable"
            operators = entry == "coneqp" and rng.random() < 0.5
        if kl == "ldl" and rng.random() < 0.15 and oclass in ("default", "refinement", "maxiters"):
            opts = dict(opts); opts["kktreg"] = rng.choice([1e-10, 1e-9]); oclass += "+kktreg"
        # initvals: every subset of {x, s, y, z}
        sub = [k for k in "xsyz" if rng.random() < 0.5] if rng.random() < 0.45 else []
        iv_label = "".join(sub) or "none"
        args = sr.cvx_args(pr, rng, sparseG=sparse, sparseA=sparse and rng.random() < 0.5, junk=junk,
                           sparseP=sparse and rng.random() < 0.6)
        g_none = noineq and rng.random() < 0.5
        if g_none:
            args["G"] = None; args["h"] = None
            if entry == "coneqp":
                args["dims"] = None
        a_none = pr.p == 0 and rng.random() < 0.5
        if a_none:
            args["A"] = None; args["b"] = None
        ps = ds = None
        if sub and not noineq:
            ps0, ds0, _, _ = sr.start_dicts(entry, pr, "both", rng)
            ps = {k: v for k, v in ps0.items() if k in sub}
            ds = {k: v for k, v in ds0.items() if k in sub}
            if a_none and "y" in ds:
                pass
        elif sub and noineq:
            iv_label = "none"
        if operators:
            fP, fG, fA = operator_args(pr, args)
            args["P"], args["G"], args["A"] = fP, fG, fA
            if args["h"] is None: args["h"] = sr.mk(pr.h)
            if args["b"] is None: args["b"] = sr.mk(pr.b)
            args["dims"] = d.asdict()
        via_kwarg = rng.random() < 0.5
        c.desc.update({"entry": entry, "dims": d.key(), "n": pr.n, "p": pr.p, "rankP": pr.rankP, "kkt": kl,
                       "initvals": iv_label, "opts": opts, "sparse": sparse, "junk": junk, "operators": operators,
                       "G_none": g_none, "A_none": a_none, "via_kwarg": via_kwarg})
        saved = dict(solvers.options)
        try:
            if via_kwarg:
                sol, inner, exc = sr.call_entry(entry, pr, args, kktsolver=kkt, ps=ps, ds=ds, options=opts)
            else:
                solvers.options.clear(); solvers.options.update(opts)
                sol, inner, exc = sr.call_entry(entry, pr, args, kktsolver=kkt, ps=ps, ds=ds)
        finally:
            solvers.options.clear(); solvers.options.update(saved)
        if exc is not None:
            ctx.count("exception.%s" % type(exc).__name__)
            c.desc["exception"] = "%s: %s" % (type(exc).__name__, exc)
            return
        st = sol.get("status")
        c.desc["status"] = st
        ctx.count("status." + str(st))
        if st != "optimal":
            return
        J = certs.Judge(c, ctx, entry)
        certs.judge_cone_result(c, ctx, pr, sol, opts, entry, qp=True)
        if entry == "qp" and inner is not None:
            for v in "xsyz":
                a, b = sol.get(v), inner.get(v)
                J.req(a is not None and b is not None and list(a) == list(b), "qp-vs-inner-" + v,
                      "qp result differs from the inner coneqp result")
        ctx.count("optimal." + entry)
        ctx.count("kkt." + kl)
        ctx.count("initvals." + iv_label)
        ctx.count("rankP.%s" % ("0" if pr.rankP == 0 else "full" if pr.rankP == pr.n else "deficient"))
        ctx.count("storage." + ("sparse" if sparse else "dense"))
        if junk: ctx.count("junk")
        if noineq: ctx.count("no-inequalities")
        if g_none: ctx.count("G-none")
        if operators: ctx.count("operators")
        ctx.count("options." + oclass)
        c.cls(entry, d.shape_class(), kl, "sp" if sparse else "de", iv_label, oclass,
              "r0" if pr.rankP == 0 else "rf" if pr.rankP == pr.n else "rd", "op" if operators else "", "noineq" if noineq else "")
        if c.k < 2:
            ctx.sample({"desc": c.desc, "x": list(sol["x"]), "gap": sol.get("gap")})

    for k in ctx.cases():
        ctx.run_case(k, {}, one)


# ---------------------------------------------------------------------------
# C05: classification of well-posed planted instances with the default paths
# ---------------------------------------------------------------------------

def bracket_tol(pr, R):
    """slack allowed around the planted weak-duality bracket for a point with
    residuals pres/dres: |c'x - p*| effects of infeasibility, bounded through the
    planted primal/dual points"""
    pl = pr.pl
    return 0.0


def run_classification(ctx, second_path=True):
    from cvxopt import solvers

    def one_nl(c, rng, entry):
        """cpl / cp / gp with default options on planted strictly feasible smooth problems"""
        from vlib.gen import nlprob as nl
        pr = nl.gen_cpl(rng) if entry == "cpl" else nl.gen_gp(rng) if entry == "gp" else nl.gen_cp(rng)
        d = pr.dims
        log = []
        F = pr.make_F(log) if entry != "gp" else None
        opts = {"show_progress": False}
        a = {"G": sr.mk(pr.G), "h": sr.mk(pr.h), "dims": d.asdict(), "A": sr.mk(pr.A), "b": sr.mk(pr.b)}
        c.desc.update({"entry": entry, "kind": "feasible", "family": pr.family, "n": pr.n, "dims": d.key(), "p": pr.A.shape[0],
                       "mnl": len(pr.funcs)})
        J = certs.Judge(c, ctx, entry)
        try:
            if entry == "cpl":
                sol = solvers.cpl(sr.mk(pr.c), F, a["G"], a["h"], a["dims"], a["A"], a["b"], options=opts)
            elif entry == "cp":
                sol = solvers.cp(F, a["G"], a["h"], a["dims"], a["A"], a["b"], options=opts)
            else:
                sol = solvers.gp(pr.K, sr.mk(pr.Fgp), sr.mk(pr.ggp), a["G"], a["h"], a["A"], a["b"], options=opts)
        except Exception as exc:
            ctx.count("exception.feasible.%s" % type(exc).__name__)
            J.req(False, "exception-on-well-posed-feasible", "well-posed planted instance raised %s: %s" % (type(exc).__name__, exc))
            c.cls(entry, pr.family, "exception"); return
        st = sol["status"]
        c.desc["status"] = st
        ctx.count("status.nl.feasible.%s" % st)
        if not J.req(st in ("optimal", "unknown"), "feasible-classified-%s" % str(st).replace(" ", "-"), "status %r" % st):
            return
        x = vec_(sol["x"]); y = vec_(sol["y"]); znl, zl, snl, sl = (vec_(sol[k]) for k in ("znl", "zl", "snl", "sl"))
        obj = (lambda v: float(pr.c @ v)) if entry == "cpl" else (lambda v: pr.funcs[0].val(v))
        J.req(pr.indom(x), "x-outside-domain", "final x outside dom f")
        if pr.indom(x):
            Gs = np.column_stack([cone.symmetrize(pr.G[:, j], d) for j in range(pr.n)]) if pr.n else pr.G
            hs = cone.symmetrize(pr.h, d); zls, sls = cone.symmetrize(zl, d), cone.symmetrize(sl, d)
            f = pr.fvals(x); Df = pr.Df(x)
            fnl, Dnl, g0 = (f, Df, pr.c) if entry == "cpl" else (f[1:], Df[1:], Df[0])
            rx = g0 + Dnl.T @ znl + Gs.T @ zls + pr.A.T @ y
            prim = math.sqrt(float(np.sum((pr.A @ x - pr.b) ** 2)) + float(np.sum((snl + fnl) ** 2)) + cone.sdot(sls + Gs @ x - hs, sls + Gs @ x - hs, d))
            gapk = float(snl @ znl) + cone.sdot(sls, zls, d)
            lvl = max(float(np.linalg.norm(rx)) / max(1.0, float(np.linalg.norm(g0))), prim / max(1.0, cone.snrm2(hs, d)))
            if st == "unknown":
                ctx.count("feasible-unknown")
                if not (lvl <= 1e-5 and gapk <= 1e-5 * max(1.0, abs(obj(x)))):
                    ctx.count("nl-not-converged." + entry)
                ok = lvl <= 1e-5 and gapk <= 1e-5 * max(1.0, abs(obj(x)))
                # mechanism split: the merit/line-search machinery lets the gap collapse long before
                # feasibility is reached (centrality lost, mu ~ 0), after which the iteration crawls
                collapsed = (not ok) and gapk <= 0.1 * lvl * max(1.0, abs(obj(x)))
                J.req(ok, "unknown-gap-collapsed-before-feasibility" if collapsed else "feasible-unknown-not-at-1e-5",
                      "status 'unknown' on a strictly feasible planted %s problem: residual level %.3g, gap %.3g" % (pr.family, lvl, gapk))
            if st == "optimal" or lvl <= 1e-5:
                slack = abs(gapk) + float(np.linalg.norm(rx)) * float(np.linalg.norm(pr.xs - x)) + \
                    prim * (float(np.linalg.norm(y)) + float(np.linalg.norm(znl)) + cone.snrm2(zls, d)) + 1e-6 * (1 + abs(obj(x)))
                J.req(obj(x) <= obj(pr.xs) + slack, "objective-above-planted-feasible-value",
                      "objective %.10g exceeds the value %.10g at a known feasible point by more than %.3g" % (obj(x), obj(pr.xs), slack))
        c.cls(entry, "feasible", pr.family, d.shape_class(), st)
        ctx.count("judged.%s.feasible" % entry)

    def one(c):
        rng = c.rng
        entry = rng.choices(["conelp", "lp", "socp", "sdp", "coneqp", "qp", "cpl", "cp", "gp"],
                            [0.22, 0.11, 0.09, 0.09, 0.15, 0.08, 0.08, 0.09, 0.09])[0]
        cpl_lp = entry == "cpl" and rng.random() < 0.2
        if entry in ("cpl", "cp", "gp") and not cpl_lp:
            return one_nl(c, rng, entry)
        if cpl_lp:
            # a cone LP handed to cpl: F declares zero nonlinear constraints (mnl = 0)
            entry = "conelp"
            ctx.count("cpl.mnl-0-cone-lp")
        isqp = entry in ("coneqp", "qp")
        kind = rng.choices(["feasible", "pinf", "dinf"], [0.5, 0.25, 0.25])[0]
        if isqp and kind == "dinf":
            kind = "feasible"
        if cpl_lp:
            kind = "feasible"       # cpl has no infeasibility statuses
        if isqp:
            if kind == "feasible":
                # one QP in ten has no inequality constraints (coneqp's direct one-solve branch)
                noineq_ = rng.random() < 0.1
                pr = gen_qp_instance(rng, entry, noineq=noineq_)
                if noineq_ and pr is not None:
                    ctx.count("qp.no-inequalities")
            else:
                base_entry = "lp" if entry == "qp" else "conelp"
                pr = gen_instance(rng, base_entry, "pinf")
                if pr is not None:
                    n = pr.n
                    r = rng.choice([0, 1, n])
                    B = gp.rand_sv_matrix(rng, n, r, 0.5, 2.0) if r else np.zeros((n, 0))
                    pr.P = B @ B.T; pr.q = pr.c; pr.rankP = r
        else:
            pr = gen_instance(rng, entry, kind)
        if pr is None:
            ctx.count("generator.none"); return
        d = pr.dims
        sparse = rng.random() < 0.4
        # 'L' storage: zeros or unrelated numbers in the unreferenced strict upper triangles (P and the 's' blocks of G, h)
        junk = rng.random() < 0.3 and (isqp or bool(d.s))
        if junk:
            ctx.count("junk-upper-triangles")
        if isqp:
            args = sr.cvx_args(pr, rng, sparseG=sparse, sparseA=sparse and rng.random() < 0.5, sparseP=sparse, junk=junk)
        elif entry == "conelp":
            args = sr.cvx_args(pr, rng, sparseG=sparse, sparseA=sparse and rng.random() < 0.5, junk=junk)
        else:
            args = sr.wrapper_args(entry, pr, rng, sparse=sparse, junk=junk)
        c.desc.update({"entry": entry, "kind": kind, "dims": d.key(), "n": pr.n, "p": pr.p, "sparse": sparse, "junk": junk,
                       "sv": pr.pl.get("sv") if hasattr(pr, "pl") else None,
                       "rows<n": d.Np < pr.n})
        opts = {"show_progress": False}
        # a valid user start point (s, z strictly inside the cone; one side or both) does not change the problem:
        # the classification must be the same (3 cases in 10)
        start = rng.choices(["none", "primal", "dual", "both"], [0.7, 0.1, 0.1, 0.1])[0]
        ps = ds = None
        if start != "none":
            ps, ds, _, _ = sr.start_dicts(entry, pr, start, rng)
            ctx.count("start." + start)
        c.desc["start"] = start
        if cpl_lp:
            from cvxopt import matrix as _m, spmatrix as _sp
            n_ = pr.n
            def F0(x=None, z=None):
                if x is None: return 0, _m(0.0, (n_, 1))
                if z is None: return _m(0.0, (0, 1)), _m(0.0, (0, n_))
                return _m(0.0, (0, 1)), _m(0.0, (0, n_)), _sp([], [], [], (n_, n_))
            c.desc["via"] = "cpl with mnl = 0"
            inner = None
            try:
                r_ = solvers.cpl(args["c"], F0, args["G"], args["h"], args["dims"], args["A"], args["b"], options=opts)
                sol = {"status": r_["status"], "x": r_["x"], "s": r_["sl"], "y": r_["y"], "z": r_["zl"], "iterations": 0,
                       "primal objective": r_["primal objective"], "dual objective": r_["dual objective"]}
                exc = None
            except Exception as e_:
                sol, exc = None, e_
            entry = "cpl-mnl0"
        else:
            sol, inner, exc = sr.call_entry(entry, pr, args, ps=ps, ds=ds, options=opts)
        J = certs.Judge(c, ctx, entry)
        cls_extra = "rowsG<n,p>0" if (d.Np < pr.n and pr.p > 0) else ""
        if exc is not None and isqp and kind != "feasible":
            # coneqp documents "it is required that the problem is solvable": an infeasible QP is outside
            # its contract, so only "never 'optimal'" is demanded there; exceptions are counted, not judged
            ctx.count("exception-outside-contract.qp-infeasible.%s" % type(exc).__name__)
            c.check()
            c.cls(entry, kind, d.shape_class(), "exception-outside-contract")
            return
        if exc is not None:
            c.desc["exception"] = "%s: %s" % (type(exc).__name__, exc)
            ctx.count("exception.%s.%s" % (kind, type(exc).__name__))
            J.req(False, "exception-on-well-posed-%s" % kind, "well-posed planted %s instance raised %s: %s" %
                  (kind, type(exc).__name__, exc))
            c.cls(entry, kind, d.shape_class(), "exception", cls_extra)
            return
        st = sol.get("status")
        c.desc["status"] = st
        ctx.count("status.%s.%s.%s" % ("qp" if isqp else "lp", kind, st))
        nsol = sr.normalise("conelp" if cpl_lp else entry, sol, d)
        it = sol.get("iterations")
        J.req(isinstance(it, int) and 0 <= it <= 100, "iteration-budget", "iterations = %r" % (it,))
        D = certs.Data(pr)
        if kind == "feasible":
            if not J.req(st in ("optimal", "unknown"), "feasible-classified-%s" % str(st).replace(" ", "-"),
                         "strictly feasible planted instance classified %r" % st):
                c.cls(entry, kind, d.shape_class(), st, cls_extra); return
            x, s, y, z = (certs.vec_or_none(nsol.get(k)) for k in "xsyz")
            s = cone.symmetrize(s, d); z = cone.symmetrize(z, d)
            R = certs.recompute(D, x, s, y, z)
            if st == "unknown":
                lvl = max(R["pres"], R["dres"])
                rg = [g for g in certs.relgap_candidates(R["pcost"], R["dcost"], R["gap"]) if g is not None]
                gapok = R["gap"] <= 1e-5 or (rg and min(rg) <= 1e-5)
                ctx.count("feasible-unknown")
                # mechanism split: the iterates are feasible to 1e-4 but the gap oscillates until maxiters
                # (Mehrotra steps cycling between a few points) vs. any other failure
                cyc = it == 100 and lvl <= 1e-4 and not gapok
                J.req(lvl <= 1e-5 and gapok, "unknown-at-maxiters-feasible-iterates-gap-cycling" if cyc else "feasible-unknown-not-at-1e-5",
                      "status 'unknown' on a strictly feasible planted instance with pres %.3g dres %.3g gap %.3g after %r iterations"
                      % (R["pres"], R["dres"], R["gap"], it), sv=pr.pl.get("sv"))
            # weak-duality bracket from the planted points: d_pl <= p* <= p_pl.  A point with
            # residuals (pres, dres) and gap g has pcost within the bracket up to an error bounded by
            # the planted multipliers times the residuals.
            pl = pr.pl
            errp = R["resz"] * cone.snrm2(pl["z"], d) + R["resy"] * float(np.linalg.norm(pl["y"])) \
                + R["resx"] * float(np.linalg.norm(x - pl["x"])) + abs(R["gap"]) \
                + cone.snrm2(z, d) * 0 + 1e-9 * (1 + abs(pl["p"]) + abs(pl["d"]))
            # lower bound on pcost:  pcost >= d_pl - (primal residual terms)   [weak duality with planted dual point]
            lo = pl["d"] - (R["resz"] * cone.snrm2(pl["z"], d) + R["resy"] * float(np.linalg.norm(pl["y"]))) - 1e-9 * (1 + abs(pl["d"]))
            # upper bound on dcost:  dcost <= p_pl + (dual residual terms)     [weak duality with planted primal point]
            hi = pl["p"] + R["resx"] * float(np.linalg.norm(pl["x"] - x)) + 1e-9 * (1 + abs(pl["p"]))
            if st == "optimal" and not cpl_lp:      # (cpl reports the Lagrangian as its dual objective)
                # "its objective agrees with every other solver path and with the weak-duality bounds": the REPORTED
                # objectives are the ones a caller compares, so they must be the recomputed ones
                J.field_eq(sol, "primal objective", R["pcost"], max(R["pcost_scale"], 1e-300))
                J.field_eq(sol, "dual objective", R["dcost"], max(R["dcost_scale"], 1e-300))
            if st == "optimal" or (R["pres"] <= 1e-5 and R["dres"] <= 1e-5):
                J.req(R["pcost"] >= lo - 1e-7 * (1 + abs(R["pcost"])), "objective-below-planted-dual-bound",
                      "primal objective %.12g below the planted dual bound %.12g" % (R["pcost"], pl["d"]))
                if not isqp:
                    J.req(R["dcost"] <= hi + 1e-7 * (1 + abs(R["dcost"])) + cone.snrm2(z, d) * R["resz"] * 0,
                          "dual-objective-above-planted-primal-bound",
                          "dual objective %.12g above the planted primal value %.12g" % (R["dcost"], pl["p"]))
        else:
            want = "primal infeasible" if kind == "pinf" else "dual infeasible"
            J.req(st != "optimal", "infeasible-classified-optimal", "planted %s instance classified 'optimal'" % kind)
            if not isqp:
                if st == "unknown":
                    ctx.count("infeasible-unknown")
                J.req(st == want, "%s-classified-%s" % (kind, str(st).replace(" ", "-")),
                      "planted strict %s instance (certificate margin %.3g) classified %r after %r iterations" %
                      (kind, pr.pl.get("margin_z", pr.pl.get("margin_s", 0)), st, it), sv=pr.pl.get("sv"))
        c.cls(entry, kind, d.shape_class(), st, "sp" if sparse else "de", cls_extra)
        ctx.count("judged.%s.%s" % (entry, kind))
        if cls_extra: ctx.count("class.rowsG<n,p>0")
        if c.k < 2:
            ctx.sample({"desc": c.desc, "status": st, "iterations": it})

    for k in ctx.cases():
        ctx.run_case(k, {}, one)
