"""C04  'optimal' from cpl/cp/gp satisfies the nonlinear KKT conditions in-domain."""
import math

LEVEL = "exploration"
TECHNIQUE = ("runtime monitoring: the harness owns F (independent numpy value/gradient/domain), logs every call the solver makes to it, "
             "and re-verifies every 'optimal' result of cpl/cp/gp (KKT residuals against the documented start-point normalisers, cone "
             "membership, gap rule, weak-duality optimality bound, cp-vs-coneqp and gp-vs-cp agreement)")
LEVEL_TEXT = "every observed 'optimal' result and every observed F call is judged by an oracle independent of the solver; held on the generated problems, not a proof"
RULE = ("planted strictly feasible smooth convex problems from six closed-form families (quadratic, -sum log, entropy, log-sum-exp, "
        "quadratically constrained cpl, gp), with linear cone constraints, equalities, dense/sparse Df and H, kktsolver names, "
        "refinement and tolerance options, artificially restricted domains; class signature = entry x family x #nonlinear x cone shape x "
        "kktsolver x storage x option class x status")
ASSUMPTIONS = [
    "'for all convex F' is sampled from six closed-form families",
    "for cp/gp the epigraph variable t and its multiplier are internal: the stationarity bound used is feastol*dres0*(1+||grad f0(x)||), implied by what the solver guarantees",
    "accuracy fields of cp/gp contain the internal epigraph terms and are compared only where they are recomputable (cpl: all fields)",
]
REQUIRED_COUNTERS = ["optimal.cpl", "optimal.cp", "optimal.gp", "family.quad", "family.neglog", "family.entropy", "family.lse",
                     "family.cpl-quad", "family.gp", "backtrack-on-None", "cp-vs-coneqp", "gp-vs-cp", "Fxz-calls-checked",
                     "kkt.ldl", "kkt.ldl2", "kkt.chol", "kkt.chol2", "sparse-Df", "restricted-domain", "zero-optimum", "junk-upper-triangles-in-G-h", "kept-start-point", "prox-objective-reads-kept-start-point", "gp.exponent-matrix-object-reused-after-in-place-change"]


def plan(tier):
    if tier == "thorough":
        return [{"variant": "plain", "workers": 16, "cases": 5000}]
    return [{"variant": "plain", "workers": 16, "cases": 80}]


def run(ctx):
    import numpy as np
    from cvxopt import matrix, spmatrix, solvers
    from vlib.oracle import cone, certs
    from vlib.oracle.cone import Dims
    from vlib.gen import nlprob as nl, coneprob as gp
    from vlib import solverun as sr
    from vlib.solve_cases import gen_options

    ROUND = certs.ROUND

    def vecn(m):
        return np.array(list(m), dtype=float) if m is not None else None

    def start_norms(pr, entry):
        """pres0, dres0 as the solver documents/computes them at x0 = F(), s = e, z = e, y = 0"""
        d = pr.dims
        x0 = pr.x0
        f0 = pr.fvals(x0); Df0 = pr.Df(x0)
        e = cone.identity(d)
        Gs = np.column_stack([cone.symmetrize(pr.G[:, j], d) for j in range(pr.n)]) if pr.n else pr.G
        hs = cone.symmetrize(pr.h, d)
        if entry == "cpl":
            rx = pr.c + Df0.T @ np.ones(len(f0)) + Gs.T @ e
            rznl = 1.0 + f0
        else:
            rx = Df0.T @ np.ones(len(f0)) + Gs.T @ e            # z0 = 1 multiplies grad f0; t-component is 1 - z0 = 0
            rznl = 1.0 + f0                                      # first entry: s0 + f0(x0) - t with t = 0
        ry = pr.A @ x0 - pr.b
        rzl = e + Gs @ x0 - hs
        pres0 = max(1.0, math.sqrt(float(ry @ ry) + float(rznl @ rznl) + cone.sdot(rzl, rzl, d)))
        dres0 = max(1.0, float(np.linalg.norm(rx)))
        return pres0, dres0, Gs, hs

    def judge(c, pr, entry, sol, opts, log):
        st = sol["status"]
        d = pr.dims
        key = entry
        feastol = opts.get("feastol", 1e-7); abstol = opts.get("abstol", 1e-7); reltol = opts.get("reltol", 1e-6)
        x = vecn(sol["x"]); y = vecn(sol["y"])
        znl, zl, snl, sl = vecn(sol["znl"]), vecn(sol["zl"]), vecn(sol["snl"]), vecn(sol["sl"])
        m = len(pr.funcs)
        mres = m if entry == "cpl" else m - 1
        if not c.require(len(x) == pr.n and len(y) == pr.A.shape[0] and len(znl) == mres and len(snl) == mres and
                         len(zl) == d.N and len(sl) == d.N, key + ":vector-shapes", "result vector shapes wrong"):
            return
        if not c.require(pr.indom(x), key + ":x-outside-domain", "returned x is outside dom f", x=x):
            return
        c.require(cone.symmetric_ok(sl, d) and cone.symmetric_ok(zl, d), key + ":s-z-symmetric", "'s' blocks of sl/zl not symmetric")
        sls, zls = cone.symmetrize(sl, d), cone.symmetrize(zl, d)
        pres0, dres0, Gs, hs = start_norms(pr, entry)
        f = pr.fvals(x); Df = pr.Df(x)
        nG, nA = float(np.linalg.norm(Gs)), float(np.linalg.norm(pr.A))
        if entry == "cpl":
            fnl, Dnl, grad0 = f, Df, pr.c
        else:
            fnl, Dnl, grad0 = f[1:], Df[1:], Df[0]
        rx = grad0 + Dnl.T @ znl + Gs.T @ zls + pr.A.T @ y
        ry = pr.A @ x - pr.b
        rznl = snl + fnl
        rzl = sls + Gs @ x - hs
        resx = float(np.linalg.norm(rx))
        prim = math.sqrt(float(ry @ ry) + float(rznl @ rznl) + cone.sdot(rzl, rzl, d))
        sx = float(np.linalg.norm(grad0)) + float(np.linalg.norm(Dnl)) * float(np.linalg.norm(znl)) + nG * cone.snrm2(zls, d) + nA * float(np.linalg.norm(y))
        sp = nA * float(np.linalg.norm(x)) + float(np.linalg.norm(pr.b)) + float(np.linalg.norm(snl)) + float(np.linalg.norm(fnl)) + \
            cone.snrm2(sls, d) + nG * float(np.linalg.norm(x)) + cone.snrm2(hs, d)
        if entry == "cpl":
            dbound = feastol * dres0
        else:
            dbound = feastol * dres0 * (1.0 + float(np.linalg.norm(grad0)))
        ctx.maxobs("%s.stationarity/bound" % entry, resx / dbound)
        ctx.maxobs("%s.primal/bound" % entry, prim / (feastol * pres0))
        c.require(resx <= dbound * (1 + 1e-6) + ROUND * sx, key + ":optimal-stationarity",
                  "stationarity residual %.3g > %.3g (feastol %.3g, dres0 %.3g)" % (resx, dbound, feastol, dres0))
        c.require(prim <= feastol * pres0 * (1 + 1e-6) + ROUND * sp, key + ":optimal-primal-residual",
                  "primal residual %.3g > feastol*pres0 = %.3g" % (prim, feastol * pres0))
        # cone membership
        tol_s = ROUND * max(1.0, cone.snrm2(sls, d)); tol_z = ROUND * max(1.0, cone.snrm2(zls, d))
        c.require(cone.margin(sls, d) >= -tol_s and (len(snl) == 0 or float(np.min(snl)) >= -ROUND * max(1.0, float(np.linalg.norm(snl)))),
                  key + ":optimal-s-in-cone", "snl/sl outside the cone: %r / margin %.3g" % (snl, cone.margin(sls, d)))
        c.require(cone.margin(zls, d) >= -tol_z and (len(znl) == 0 or float(np.min(znl)) >= -ROUND * max(1.0, float(np.linalg.norm(znl)))),
                  key + ":optimal-z-in-cone", "znl/zl outside the cone: %r / margin %.3g" % (znl, cone.margin(zls, d)))
        gapk = float(snl @ znl) + cone.sdot(sls, zls, d)
        gscale = float(np.linalg.norm(snl)) * float(np.linalg.norm(znl)) + cone.snrm2(sls, d) * cone.snrm2(zls, d)
        if entry == "cpl":
            pcost = float(pr.c @ x)
            dcost = pcost + float(y @ ry) + float(znl @ rznl) + cone.sdot(zls, rzl, d) - gapk
            J = certs.Judge(c, ctx, key)
            J.field_eq(sol, "primal objective", pcost, max(float(np.linalg.norm(pr.c)) * float(np.linalg.norm(x)), 1e-300))
            J.field_eq(sol, "dual objective", dcost, max(abs(pcost) + gscale + sp * (float(np.linalg.norm(y)) + float(np.linalg.norm(znl)) + cone.snrm2(zls, d)), 1e-300))
            J.field_eq(sol, "gap", gapk, max(gscale, 1e-300), rel=1e-2)
            J.field_eq(sol, "primal infeasibility", prim / pres0, max(sp / pres0, 1e-300))
            J.field_eq(sol, "dual infeasibility", resx / dres0, max(sx / dres0, 1e-300))
            svec = np.concatenate([snl, sls]); zvec = np.concatenate([znl, zls])
            dm = Dims(d.l, d.q, d.s, mnl=len(snl))
            J.field_eq(sol, "primal slack", cone.margin(svec, dm), max(float(np.linalg.norm(svec)), 1e-300) if len(svec) else 1.0)
            J.field_eq(sol, "dual slack", cone.margin(zvec, dm), max(float(np.linalg.norm(zvec)), 1e-300) if len(zvec) else 1.0)
            okgap = gapk <= abstol + ROUND * gscale
            for cd in certs.relgap_candidates(pcost, dcost, gapk):
                if cd is not None and cd <= reltol * (1 + 1e-6) + ROUND * gscale / max(abs(pcost), abs(dcost), 1e-300):
                    okgap = True
            c.require(okgap, key + ":optimal-gap-criterion", "gap %.3g abstol %.3g reltol %.3g pcost %.6g dcost %.6g" % (gapk, abstol, reltol, pcost, dcost))
        else:
            # the known part of the gap cannot exceed the reported (epigraph) gap
            gf = sol.get("gap")
            c.require(isinstance(gf, float) and gapk <= gf + ROUND * gscale + 1e-9 * abs(gf), key + ":gap-field-below-known-part",
                      "reported gap %r smaller than snl'znl + sl'zl = %r" % (gf, gapk))
            c.require(gf <= abstol or (sol.get("relative gap") is not None and sol["relative gap"] <= reltol), key + ":optimal-gap-criterion-fields",
                      "neither gap %r <= abstol nor relative gap %r <= reltol" % (gf, sol.get("relative gap")))
            # 'primal objective' of cp is the epigraph variable t ~ f0(x) (|s0 + f0 - t| and s0 z0 are within the tolerances)
            po = sol.get("primal objective")
            c.require(isinstance(po, float) and abs(po - f[0]) <= feastol * pres0 * (1 + 1e-6) + gf * 1.01 / max(1 - feastol * dres0, 0.5) + 1e-9 * (1 + abs(f[0])),
                      key + ":primal-objective-vs-f0", "primal objective %r vs f0(x) = %r" % (po, f[0]))
        # weak-duality optimality bound against the planted feasible point xs (convexity + KKT):
        #   obj(xs) >= obj(x) - [gap + |z.r| terms + ||rx|| ||xs - x||]
        obj = (lambda v: float(pr.c @ v)) if entry == "cpl" else (lambda v: pr.funcs[0].val(v))
        slack = abs(gapk) + abs(float(znl @ rznl)) + abs(cone.sdot(zls, rzl, d)) + abs(float(y @ ry)) + resx * float(np.linalg.norm(pr.xs - x)) \
            + 1e-8 * (1 + abs(obj(x)))
        c.require(obj(x) <= obj(pr.xs) + slack, key + ":not-optimal-vs-planted-feasible-point",
                  "objective %.12g at the returned x exceeds the value %.12g at a known strictly feasible point by more than the KKT bound %.3g"
                  % (obj(x), obj(pr.xs), slack))
        return {"x": x, "obj": obj(x), "slack": slack, "gapk": gapk, "resx": resx}

    def domain_log_checks(c, entry, log):
        nviol = sum(1 for k, _, _ in log if k.startswith("VIOLATION"))
        nxz = sum(1 for k, _, _ in log if k == "F(x,z)")
        ctx.count("Fxz-calls-checked", nxz)
        c.check()
        if nviol:
            c.fail(entry + ":F(x,z)-called-outside-domain", "F(x, z) was called %d times at a point outside dom f" % nviol)
        nb = sum(1 for k, _, ind in log if k == "F(x)" and not ind)
        if nb:
            ctx.count("backtrack-on-None", nb)
        return nb

    def call(entry, pr, F, kkt, opts):
        a = {"G": sr.mk(pr.G, pr.sparse_lin), "h": sr.mk(pr.h), "dims": pr.dims.asdict(), "A": sr.mk(pr.A, pr.sparse_lin), "b": sr.mk(pr.b)}
        try:
            with sr.poisoned_globals_if_empty(opts):
                if entry == "cpl":
                    sol = solvers.cpl(sr.mk(pr.c), F, a["G"], a["h"], a["dims"], a["A"], a["b"], kktsolver=kkt, options=opts)
                elif entry == "cp":
                    sol = solvers.cp(F, a["G"], a["h"], a["dims"], a["A"], a["b"], kktsolver=kkt, options=opts)
                else:
                    Fm = sr.mk(pr.Fgp, pr.sparse_lin)
                    if getattr(pr, "gp_reused_F", False) and len(Fm):
                        # the caller's exponent matrix object was used by an earlier gp() call with other entries and has been
                        # rewritten in place since (a parameter sweep): the second call must see the current entries
                        keep = matrix(Fm.V) if pr.sparse_lin else matrix(Fm)
                        decoy = pr.gp_decoy
                        if pr.sparse_lin:
                            Fm.V = matrix([float(decoy[int(i_), int(j_)]) for i_, j_ in zip(Fm.I, Fm.J)], (len(Fm.V), 1))
                        else:
                            Fm[:] = matrix([float(v_) for v_ in decoy.reshape(-1, order="F")], Fm.size)
                        try:
                            solvers.gp(pr.K, Fm, sr.mk(pr.ggp), a["G"], a["h"], a["A"], a["b"], options={"show_progress": False})
                        except (ValueError, ArithmeticError):
                            pass
                        if pr.sparse_lin: Fm.V = keep
                        else: Fm[:] = keep
                        ctx.count("gp.exponent-matrix-object-reused-after-in-place-change")
                    sol = solvers.gp(pr.K, Fm, sr.mk(pr.ggp), a["G"], a["h"], a["A"], a["b"], kktsolver=kkt, options=opts)
            return sol, None
        except Exception as e:
            return None, e

    def one(c):
        rng = c.rng
        entry = rng.choices(["cpl", "cp", "gp"], [0.35, 0.45, 0.2])[0]
        if entry == "cpl":
            pr = nl.gen_cpl(rng)
        elif entry == "gp":
            pr = nl.gen_gp(rng)
        else:
            pr = nl.gen_cp(rng)
        d = pr.dims
        pr.sparse_lin = rng.random() < 0.3
        if entry == "gp" and rng.random() < 0.4:
            pr.gp_reused_F = True
            pr.gp_decoy = pr.Fgp * np.array([[rng.choice([0.5, 1.5, -1.0]) for _ in range(pr.Fgp.shape[1])] for _ in range(pr.Fgp.shape[0])]).reshape(pr.Fgp.shape)
            if rng.random() < 0.6: pr.sparse_lin = True
        zero_opt = False
        if rng.random() < 0.15:
            # optimal value ~ 0: the iterates have pcost > 0 >= dcost, the documented relative gap is undefined (None) and
            # only gap <= abstol can end the iteration.  The instance is derived from a preliminary solve; the verdicts on
            # it are recomputed from its own data.
            s0, e0 = call(entry, pr, pr.make_F([]) if entry != "gp" else None, None, {"show_progress": False})
            if e0 is None and s0["status"] == "optimal":
                xs0 = vecn(s0["x"])
                p0 = float(pr.c @ xs0) if entry == "cpl" else pr.funcs[0].val(xs0)
                nl.zero_optimum(pr, entry, xs0, p0)
                zero_opt = True
                ctx.count("zero-optimum")
        if d.s and rng.random() < 0.4:
            # 'L' storage: the strict upper triangles of the 's' blocks of G's columns and of h are not referenced
            mag = rng.choice([0.0, 0.0, 50.0])       # zeros (lower triangle only) or unrelated numbers
            pr.G = gp.add_junk(rng, pr.G, d, mag)
            pr.h = gp.add_junk(rng, pr.h, d, mag)
            ctx.count("junk-upper-triangles-in-G-h")
        restricted = False
        if entry != "gp" and rng.random() < 0.2:
            # artificially restricted convex domain around the planted point (forces None answers in the line search)
            k = rng.randint(1, 2)
            Hs = np.array([[rng.gauss(0, 1) for _ in range(pr.n)] for _ in range(k)])
            hsv = Hs @ pr.xs + np.array([rng.uniform(0.3, 1.5) for _ in range(k)])
            rad = rng.uniform(1.0, 4.0)
            pr.funcs[0] = nl.Restricted(pr.funcs[0], Hs, hsv, pr.xs.copy(), rad)
            if not pr.indom(pr.x0):
                pr.x0 = pr.xs.copy()
            restricted = True
            ctx.count("restricted-domain")
        if rng.random() < 0.3:
            pr.junkH = np.array([[rng.uniform(-50, 50) for _ in range(pr.n)] for _ in range(pr.n)])
        prox = False
        if entry in ("cp", "cpl") and rng.random() < 0.3:
            # F() hands out a matrix the caller keeps; for cp in half of these cases the objective is a proximal step
            # f0(x) + rho/2 ||x - x0||^2 whose centre F reads from that very matrix on every call
            prox = True
            if entry == "cp" and rng.random() < 0.5:
                pr.funcs[0] = nl.Prox(pr.funcs[0], pr.x0.copy(), rng.uniform(0.2, 2.0))
                ctx.count("prox-objective-reads-kept-start-point")
            ctx.count("kept-start-point")
        sparse_Df, sparse_H = rng.random() < 0.3, rng.random() < 0.3
        opts, oclass = gen_options(rng, d)
        if "maxiters" in opts and opts["maxiters"] < 5:
            opts["maxiters"] = rng.choice([5, 10, 30])
        names = ["ldl", "ldl2", "chol"] + ([] if (d.q or d.s) else ["chol2"])
        kl = rng.choice(["default"] + names)
        kkt = None if kl == "default" else kl
        log = []
        F = pr.make_F(log, sparse_Df=sparse_Df, sparse_H=sparse_H, scalar_f=rng.random() < 0.3, none_style=rng.choice([0, 1]),
                      keep_x0=prox, live_centre=prox) if entry != "gp" else None
        c.desc.update({"entry": entry, "family": pr.family, "n": pr.n, "mnl": len(pr.funcs) - (0 if entry == "cpl" else 1), "dims": d.key(),
                       "p": pr.A.shape[0], "kkt": kl, "opts": opts, "restricted": restricted, "kept-x0": prox, "sparse": [pr.sparse_lin, sparse_Df, sparse_H], "zero-optimum": zero_opt})
        sol, exc = call(entry, pr, F, kkt, opts)
        ctx.count("family." + pr.family)
        if prox and F is not None and F.x0_object is not None:
            c.require([float(v) for v in F.x0_object] == [float(v) for v in pr.x0], entry + ":kept-start-point-modified",
                      "the matrix returned by F() as start point was modified by the solver")
        if exc is not None:
            ctx.count("exception.%s" % type(exc).__name__)
            c.desc["exception"] = "%s: %s" % (type(exc).__name__, exc)
            if F is not None:
                domain_log_checks(c, entry, log)
            return
        st = sol["status"]
        c.desc["status"] = st
        ctx.count("status.%s.%s" % (entry, st))
        nb = domain_log_checks(c, entry, log) if F is not None else 0
        # every status: final x must be in the domain (iterates are accepted only inside dom f)
        xfin = vecn(sol["x"])
        c.require(pr.indom(xfin), entry + ":x-outside-domain", "final x (status %s) is outside dom f" % st)
        res = None
        if st == "optimal":
            res = judge(c, pr, entry, sol, opts, log)
            ctx.count("optimal." + entry)
            ctx.count("kkt." + kl)
            if sparse_Df: ctx.count("sparse-Df")
            if sparse_H: ctx.count("sparse-H")
        # cross-solver agreement
        if st == "optimal" and res is not None and entry == "cp" and pr.family == "quad" and len(pr.funcs) == 1 and not restricted and hasattr(pr.funcs[0], "Q"):
            # cp on a convex quadratic objective vs coneqp
            f0 = pr.funcs[0]
            q = gp.Prob(c=f0.r, q=f0.r, P=f0.Q, G=pr.G, h=pr.h, A=pr.A, b=pr.b, dims=d, kind="feasible")
            a = sr.cvx_args(q, rng)
            try:
                s2 = solvers.coneqp(a["P"], a["q"], a["G"], a["h"], a["dims"], a["A"], a["b"], options={"show_progress": False})
            except Exception as e:
                s2 = None
            if s2 is not None and s2["status"] == "optimal":
                ctx.count("cp-vs-coneqp")
                x2 = vecn(s2["x"])
                lam = float(np.linalg.eigvalsh(f0.Q)[0])
                tol = res["slack"] + abs(s2["gap"]) + 1e-6 * (1 + abs(res["obj"]))
                c.require(abs(f0.val(x2) - res["obj"]) <= tol, "cp:objective-differs-from-coneqp",
                          "cp %.12g vs coneqp %.12g (tol %.3g)" % (res["obj"], f0.val(x2), tol))
                bound = 2 * math.sqrt(2 * tol / lam) + 1e-6
                c.require(float(np.linalg.norm(x2 - res["x"])) <= bound, "cp:minimiser-differs-from-coneqp",
                          "||x_cp - x_coneqp|| = %.3g > %.3g" % (float(np.linalg.norm(x2 - res["x"])), bound))
        if st == "optimal" and res is not None and entry == "gp":
            # gp vs cp on the same log-sum-exp data (F built by the harness)
            log2 = []
            F2 = pr.make_F(log2)
            s2, e2 = call("cp", pr, F2, None, {"show_progress": False})
            if s2 is not None and s2["status"] == "optimal":
                ctx.count("gp-vs-cp")
                x2 = vecn(s2["x"])
                o2 = pr.funcs[0].val(x2)
                tol = 2 * res["slack"] + 2 * abs(s2["gap"]) + 1e-6 * (1 + abs(res["obj"]))
                c.require(abs(o2 - res["obj"]) <= tol, "gp:objective-differs-from-cp", "gp %.12g vs cp %.12g (tol %.3g)" % (res["obj"], o2, tol))
        c.cls(entry, pr.family, "m%d" % (len(pr.funcs) - (0 if entry == "cpl" else 1)), d.shape_class(), kl,
              "spDf" if sparse_Df else "", oclass, st, "restricted" if restricted else "", "bt" if nb else "")
        if c.k < 2:
            ctx.sample({"desc": c.desc, "F-calls": len(log), "status": st})

    for k in ctx.cases():
        ctx.run_case(k, {}, one)
