"""O-mps: an independent reader of fixed-column MPS files.

Fields (1-based columns): 1 = 2-3, 2 = 5-12, 3 = 15-22, 4 = 25-36, 5 = 40-47,
6 = 50-61.  Sections NAME, ROWS, COLUMNS, RHS, RANGES, BOUNDS, ENDATA; lines
starting with '*' and blank lines are ignored.

Semantics (the usual ones):
  ROWS     N (first one = objective, later ones ignored), L  a'x <= rhs,
           G  a'x >= rhs,  E  a'x = rhs;  rhs defaults to 0.
  COLUMNS  column, row, value [, row, value]
  RHS      set, row, value [, row, value];  an entry on the objective row gives
           minus the objective's constant term.
  RANGES   R on an L row: rhs-|R| <= a'x <= rhs;  G row: rhs <= a'x <= rhs+|R|;
           E row: R > 0: rhs <= a'x <= rhs+R,  R < 0: rhs+R <= a'x <= rhs,  R = 0: equality.
  BOUNDS   default 0 <= x < inf;  LO lower, UP upper, FX both, FR free,
           MI lower = -inf, PL upper = +inf.
Only the first RHS / RANGES / BOUNDS vector name is read.
"""
import math

INF = math.inf
_F = {1: (1, 3), 2: (4, 12), 3: (14, 22), 4: (24, 36), 5: (39, 47), 6: (49, 61)}


class MPSError(Exception):
    pass


def _field(line, k):
    a, b = _F[k]
    return line[a:b].strip()


def read(path, strict=True):
    """strict=False: a BOUNDS line for a column that has no COLUMNS entry declares the column
    (recorded in 'undeclared') instead of being an error.
    -> dict(name, objective=dict(row, coef={col: v}, const), rows=[dict(name, type, coef, rhs, lo, hi)],
               cols=[names in order of first appearance], bounds={col: (lo, hi)})"""
    with open(path) as f:
        lines = f.read().split("\n")
    name = None
    rows, rowidx, order = {}, {}, []
    objrow, free_rows = None, set()
    cols, colset = [], set()
    rhs, ranges, bounds = {}, {}, {}
    rhs_set = rng_set = bnd_set = None
    undeclared = []
    section = None
    ended = False
    for raw in lines:
        line = raw.rstrip("\r\n")
        if not line.strip() or line[0] == "*":
            continue
        if line[0] != " ":
            word = line.split()[0]
            if word == "NAME":
                name = line[14:22].strip()
                section = "NAME"
            elif word in ("ROWS", "COLUMNS", "RHS", "RANGES", "BOUNDS"):
                section = word
            elif word == "ENDATA":
                ended = True
                break
            else:
                raise MPSError("unknown section %r" % word)
            continue
        if section == "ROWS":
            t, nm = _field(line, 1), _field(line, 2)
            if t not in ("N", "L", "G", "E"):
                raise MPSError("row type %r" % t)
            if t == "N":
                if objrow is None:
                    objrow = nm
                else:
                    free_rows.add(nm)
            else:
                if nm in rows:
                    raise MPSError("duplicate row %r" % nm)
                rows[nm] = {"name": nm, "type": t, "coef": {}, "rhs": 0.0}
                order.append(nm)
        elif section == "COLUMNS":
            cn = _field(line, 2)
            if cn not in colset:
                colset.add(cn); cols.append(cn)
            for kr, kv in ((3, 4), (5, 6)):
                rn = _field(line, kr)
                if not rn:
                    continue
                v = float(_field(line, kv))
                if rn == objrow:
                    objcoef = rows.setdefault("\0obj", {"coef": {}})["coef"]
                    objcoef[cn] = v
                elif rn in free_rows:
                    pass
                elif rn in rows:
                    rows[rn]["coef"][cn] = v
                else:
                    raise MPSError("COLUMNS: unknown row %r" % rn)
        elif section in ("RHS", "RANGES"):
            sn = _field(line, 2)
            if section == "RHS":
                if rhs_set is None:
                    rhs_set = sn
                if sn != rhs_set:
                    continue
            else:
                if rng_set is None:
                    rng_set = sn
                if sn != rng_set:
                    continue
            for kr, kv in ((3, 4), (5, 6)):
                rn = _field(line, kr)
                if not rn:
                    continue
                v = float(_field(line, kv))
                if rn != objrow and rn not in rows and rn not in free_rows:
                    raise MPSError("%s: unknown row %r" % (section, rn))
                (rhs if section == "RHS" else ranges)[rn] = v
        elif section == "BOUNDS":
            t, sn, cn = _field(line, 1), _field(line, 2), _field(line, 3)
            if bnd_set is None:
                bnd_set = sn
            if sn != bnd_set:
                continue
            if cn not in colset:
                if strict:
                    raise MPSError("BOUNDS: unknown column %r" % cn)
                colset.add(cn); cols.append(cn); undeclared.append(cn)
            lo, hi = bounds.get(cn, (0.0, INF))
            if t == "LO":
                lo = float(_field(line, 4))
            elif t == "UP":
                hi = float(_field(line, 4))
            elif t == "FX":
                lo = hi = float(_field(line, 4))
            elif t == "FR":
                lo, hi = -INF, INF
            elif t == "MI":
                lo = -INF
            elif t == "PL":
                hi = INF
            else:
                raise MPSError("bound type %r" % t)
            bounds[cn] = (lo, hi)
        else:
            raise MPSError("data line outside a section: %r" % line)
    if not ended:
        raise MPSError("no ENDATA")
    objcoef = rows.pop("\0obj", {"coef": {}})["coef"]
    out_rows = []
    for nm in order:
        r = rows[nm]
        b = rhs.get(nm, 0.0)
        r["rhs"] = b
        t = r["type"]
        lo, hi = {"L": (-INF, b), "G": (b, INF), "E": (b, b)}[t]
        if nm in ranges:
            R = ranges[nm]
            if t == "L":
                lo = b - abs(R)
            elif t == "G":
                hi = b + abs(R)
            elif R > 0:
                hi = b + R
            elif R < 0:
                lo = b + R
        r["lo"], r["hi"] = lo, hi
        out_rows.append(r)
    for cn in cols:
        bounds.setdefault(cn, (0.0, INF))
    return {"name": name, "objective": {"row": objrow, "coef": objcoef, "const": -rhs.get(objrow, 0.0)},
            "rows": out_rows, "cols": cols, "bounds": bounds, "undeclared": undeclared}


def halfspaces(m, with_bounds=True):
    """canonical list of the constraints of a read model:
    ('<', {col: a}, b)  meaning a'x <= b   and   ('=', {col: a}, b)"""
    out = []
    for r in m["rows"]:
        a = dict(r["coef"])
        if r["lo"] == r["hi"]:
            out.append(("=", a, r["lo"]))
            continue
        if r["hi"] < INF:
            out.append(("<", a, r["hi"]))
        if r["lo"] > -INF:
            out.append(("<", {k: -v for k, v in a.items()}, -r["lo"]))
    if with_bounds:
        for cn in m["cols"]:
            lo, hi = m["bounds"][cn]
            if lo == hi:
                out.append(("=", {cn: 1.0}, lo))
                continue
            if lo > -INF:
                out.append(("<", {cn: -1.0}, -lo))
            if hi < INF:
                out.append(("<", {cn: 1.0}, hi))
    return out


def fmt_line(f1="", f2="", f3="", f4="", f5="", f6=""):
    """a data line with the six fields at their fixed columns (f4, f6 already formatted, <= 12 characters)"""
    for f, w in ((f1, 2), (f2, 8), (f3, 8), (f4, 12), (f5, 8), (f6, 12)):
        assert len(f) <= w, (f, w)
    s = " " + f1.ljust(2) + " " + f2.ljust(8) + "  " + f3.ljust(8) + "  " + f4.rjust(12) + "   " + f5.ljust(8) + "  " + f6.rjust(12)
    return s.rstrip()


def selftest():
    import tempfile, os
    L = fmt_line
    txt = "\n".join([
        "* a comment", "NAME          TEST", "ROWS", L("N", "COST"), L("L", "LIM1"), L("G", "LIM2"), L("E", "MYEQN"),
        "COLUMNS", L("", "X", "COST", "1.0", "LIM1", "1.0"), L("", "X", "LIM2", "1.0"), "",
        L("", "Y", "COST", "2.0", "LIM1", "1.0"), L("", "Y", "MYEQN", "-1.0"), L("", "Z", "COST", "-1.0", "MYEQN", "1.0"),
        "RHS", L("", "RHS", "COST", "-2.5"), L("", "RHS", "LIM1", "4.0", "LIM2", "1.0"), L("", "RHS", "MYEQN", "7.0"),
        "RANGES", L("", "RNG", "LIM1", "2.5", "LIM2", "4.0"), L("", "RNG", "MYEQN", "-3.0"),
        "BOUNDS", L("UP", "BND", "X", "4.0"), L("LO", "BND", "Y", "-1.0"), L("UP", "BND", "Y", "1.0"), L("MI", "BND", "Z"),
        "ENDATA", ""])
    assert L("UP", "BND", "X", "4.0")[1:3] == "UP" and L("", "X", "COST", "1.0", "LIM1", "1.0")[39:47].strip() == "LIM1"
    fd, p = tempfile.mkstemp(suffix=".mps")
    os.write(fd, txt.encode()); os.close(fd)
    try:
        m = read(p)
    finally:
        os.unlink(p)
    assert m["name"] == "TEST" and m["cols"] == ["X", "Y", "Z"]
    assert m["objective"]["coef"] == {"X": 1.0, "Y": 2.0, "Z": -1.0} and m["objective"]["const"] == 2.5
    r = {x["name"]: x for x in m["rows"]}
    assert (r["LIM1"]["lo"], r["LIM1"]["hi"]) == (1.5, 4.0) and r["LIM1"]["coef"] == {"X": 1.0, "Y": 1.0}
    assert (r["LIM2"]["lo"], r["LIM2"]["hi"]) == (1.0, 5.0)
    assert (r["MYEQN"]["lo"], r["MYEQN"]["hi"]) == (4.0, 7.0) and r["MYEQN"]["coef"] == {"Y": -1.0, "Z": 1.0}
    assert m["bounds"] == {"X": (0.0, 4.0), "Y": (-1.0, 1.0), "Z": (-INF, INF)}
    hs = halfspaces(m)
    assert ("<", {"X": 1.0, "Y": 1.0}, 4.0) in hs and ("<", {"X": -1.0, "Y": -1.0}, -1.5) in hs
    assert ("<", {"X": -1.0}, -0.0) in hs and ("<", {"X": 1.0}, 4.0) in hs and len(hs) == 6 + 2 + 2 + 0
