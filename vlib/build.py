"""Build a scratch `cvxopt` package from /repo's *current working tree*.

Variants
  plain : gcc -O2 -g
  asan  : gcc -O1 -g -fsanitize=address,undefined -fno-sanitize-recover=undefined
  guard : plain + -include vguard.h (+ vguard.c linked into every module)

The four modules that can be compiled here (base, blas, lapack, misc_solvers)
come from /repo/src/C; the seven plug-in modules whose third-party headers are
not installed (cholmod umfpack amd glpk dsdp gsl fftw) are taken from the wheel
in /venv (they talk to base only through the _C_API capsule).  All Python files
come from /repo/src/python.  misc_py.py is misc.py with `use_C = True` flipped.
"""
import os, sys, shutil, subprocess, tempfile, glob, sysconfig, re
from concurrent.futures import ThreadPoolExecutor

REPO = os.environ.get("VERIF_REPO", "/repo")
VERIF = os.path.dirname(os.path.dirname(os.path.abspath(__file__)))
VENV_PY = "/venv/bin/python"
WHEEL_PKG = "/venv/lib/python3.12/site-packages/cvxopt"
WHEEL_LIBS = "/venv/lib/python3.12/site-packages/cvxopt.libs"
PYINC = "/root/.pyenv/versions/3.12.1/include/python3.12"
SUFFIX = ".cpython-312-x86_64-linux-gnu.so"
PLUGINS = ["cholmod", "umfpack", "amd", "glpk", "dsdp", "gsl", "fftw"]

MODULES = {
    "base": ["base.c", "dense.c", "sparse.c"],
    "blas": ["blas.c"],
    "lapack": ["lapack.c"],
    "misc_solvers": ["misc_solvers.c"],
}

VARIANT_FLAGS = {
    "plain": ["-O2", "-g"],
    "asan": ["-O1", "-g", "-fsanitize=address,undefined",
             "-fno-sanitize-recover=undefined", "-fno-omit-frame-pointer"],
    "guard": ["-O2", "-g"],
}


class BuildFailed(Exception):
    pass


def _pyinc():
    if os.path.isdir(PYINC):
        return PYINC
    out = subprocess.run([VENV_PY, "-c", "import sysconfig;print(sysconfig.get_paths()['include'])"],
                         capture_output=True, text=True).stdout.strip()
    return out


def libasan_path():
    return subprocess.run(["gcc", "-print-file-name=libasan.so"], capture_output=True,
                          text=True).stdout.strip()


def _compile(mod, srcs, variant, pkgdir, log):
    out = os.path.join(pkgdir, mod + SUFFIX)
    cmd = ["gcc", "-fPIC", "-shared", "-w", "-I" + _pyinc(),
           "-I" + os.path.join(REPO, "src/C")] + VARIANT_FLAGS[variant]
    if variant == "guard":
        cmd += ["-include", os.path.join(VERIF, "vguard", "vguard.h")]
    cmd += [os.path.join(REPO, "src/C", s) for s in srcs]
    cmd += ["-o", out]
    if variant == "guard":
        cmd += ["-L" + pkgdir, "-lvguard", "-Wl,-rpath,$ORIGIN"]
    cmd += ["-llapack", "-lblas", "-lm"]
    r = subprocess.run(cmd, capture_output=True, text=True)
    log.append("$ " + " ".join(cmd) + "\n" + r.stdout + r.stderr)
    return r.returncode == 0


def build(variant="plain", scratch=None):
    """Returns the directory to put on PYTHONPATH (contains cvxopt/)."""
    if variant not in VARIANT_FLAGS:
        raise ValueError(variant)
    if scratch is None:
        scratch = tempfile.mkdtemp(prefix="cvxopt-verif-")
    root = os.path.join(scratch, variant)
    pkg = os.path.join(root, "cvxopt")
    os.makedirs(pkg, exist_ok=True)
    # python sources from the working tree
    for f in glob.glob(os.path.join(REPO, "src/python", "*.py")):
        shutil.copy(f, pkg)
    if not os.path.exists(os.path.join(pkg, "_version.py")):
        with open(os.path.join(pkg, "_version.py"), "w") as f:
            f.write("__version__ = version = '0+verif'\n")
    # python fallback kernels: misc.py with use_C flipped
    src = open(os.path.join(pkg, "misc.py")).read()
    n = len(re.findall(r"^use_C = True\s*$", src, flags=re.M))
    if n != 1:
        raise BuildFailed("misc.py: expected exactly one 'use_C = True' line, found %d" % n)
    with open(os.path.join(pkg, "misc_py.py"), "w") as f:
        f.write(re.sub(r"^use_C = True\s*$", "use_C = False", src, flags=re.M))
    # compiled modules
    log = []
    if variant == "guard":
        cmd = ["gcc", "-O2", "-g", "-fPIC", "-shared", os.path.join(VERIF, "vguard", "vguard.c"),
               "-o", os.path.join(pkg, "libvguard.so"), "-lpthread"]
        r = subprocess.run(cmd, capture_output=True, text=True)
        if r.returncode:
            raise BuildFailed(r.stdout + r.stderr)
    with ThreadPoolExecutor(max_workers=4) as ex:
        oks = list(ex.map(lambda kv: _compile(kv[0], kv[1], variant, pkg, log), MODULES.items()))
    if not all(oks):
        raise BuildFailed("\n".join(log)[-6000:])
    # plug-ins from the wheel
    for p in PLUGINS:
        s = os.path.join(WHEEL_PKG, p + SUFFIX)
        if os.path.exists(s):
            shutil.copy(s, pkg)
    link = os.path.join(root, "cvxopt.libs")
    if not os.path.exists(link):
        os.symlink(WHEEL_LIBS, link)
    return root


def worker_env(root, variant, extra_path=()):
    env = dict(os.environ)
    env["PYTHONPATH"] = os.pathsep.join([root] + list(extra_path) + [VERIF])
    env["PYTHONHASHSEED"] = "0"
    env["OPENBLAS_NUM_THREADS"] = "1"
    env["OMP_NUM_THREADS"] = "1"
    env["PYTHONDONTWRITEBYTECODE"] = "1"
    if variant == "asan":
        env["LD_PRELOAD"] = libasan_path()
        env["ASAN_OPTIONS"] = "detect_leaks=0:halt_on_error=1:abort_on_error=1:allocator_may_return_null=1"
        env["UBSAN_OPTIONS"] = "print_stacktrace=1:halt_on_error=1"
        env["PYTHONMALLOC"] = "malloc"
    if variant in ("asan", "guard"):
        # OpenBLAS' AVX kernels (zgemv_n / zdotc_k of the SANDYBRIDGE, HASWELL, COOPERLAKE ... sets) read one or two
        # elements past the end of correctly sized operands (valgrind: "Invalid read of size 16 ... 0 bytes after a block
        # of size 1,008" in zgemv_n_HASWELL <- zlarf <- zgebd2 <- zgesdd on an exactly sized 7x9 matrix).  That is a
        # third-party artefact, harmless under glibc malloc, but under the ASan and guard allocators the read can land
        # on an unmapped page.  The instrumented builds therefore pin the NEHALEM kernel set, calibrated free of it.
        env.setdefault("OPENBLAS_CORETYPE", "NEHALEM")
    return env


if __name__ == "__main__":
    v = sys.argv[1] if len(sys.argv) > 1 else "plain"
    d = sys.argv[2] if len(sys.argv) > 2 else None
    print(build(v, d))
