/* Forced include (-include vguard.h) for the four cvxopt modules built from
 * /repo: every malloc/calloc/realloc/free made by cvxopt's own C code goes to
 * the page-guard allocator in libvguard.so.  Function-like macros, so taking
 * the address of free/malloc is unaffected.  */
#ifndef VGUARD_H
#define VGUARD_H
#include <stddef.h>
#include <stdlib.h>
#include <string.h>
void *vg_malloc(size_t n);
void *vg_calloc(size_t a, size_t b);
void *vg_realloc(void *p, size_t n);
void  vg_free(void *p);
#define malloc(n)      vg_malloc(n)
#define calloc(a, b)   vg_calloc((a), (b))
#define realloc(p, n)  vg_realloc((p), (n))
#define free(p)        vg_free(p)
#endif
