"""Generators of planted cone LPs / QPs (DESIGN.md Appendix A).  Everything is
built in numpy from a random.Random; the planted facts are re-verified
numerically before an instance is handed out."""
import math
import numpy as np
from vlib.oracle import cone
from vlib.oracle.cone import Dims, matL, vecF


class Prob:
    """c, G, h, A, b (numpy; G and h in unpacked storage, symmetric 's' parts),
    dims, optional P, q; planted truth in .pl"""
    def __init__(self, **kw):
        self.P = None; self.q = None
        self.__dict__.update(kw)

    @property
    def n(self): return self.G.shape[1]

    @property
    def p(self): return self.A.shape[0]


def rand_orth(rng, m, k):
    """m x k with orthonormal columns (k <= m)"""
    if m == 0 or k == 0:
        return np.zeros((m, k))
    M = np.array([[rng.gauss(0, 1) for _ in range(k)] for _ in range(m)])
    Q, R = np.linalg.qr(M)
    return Q[:, :k] * np.sign(np.diag(R))[None, :k]


def rand_sv_matrix(rng, m, n, lo=0.3, hi=3.0):
    r = min(m, n)
    if r == 0:
        return np.zeros((m, n))
    sv = np.array([rng.uniform(lo, hi) for _ in range(r)])
    return rand_orth(rng, m, r) @ np.diag(sv) @ rand_orth(rng, n, r).T


def pack_iso(M, dims):
    """columns of M (N x k, symmetric interpretation via lower triangle) -> packed
    isometric form (sqrt(2) on off-diagonals)"""
    M = np.asarray(M, dtype=float)
    if M.ndim == 1:
        M = M.reshape(-1, 1)
    out = np.zeros((dims.Np, M.shape[1]))
    nlq = dims.mnl + dims.l + sum(dims.q)
    out[:nlq] = M[:nlq]
    iu, ip = nlq, nlq
    for m in dims.s:
        for j in range(m):
            seg = M[iu + j * m + j: iu + j * m + m].copy()
            seg[1:] *= math.sqrt(2.0)
            out[ip:ip + m - j] = seg
            ip += m - j
        iu += m * m
    return out


def unpack_iso(Mp, dims):
    Mp = np.asarray(Mp, dtype=float)
    if Mp.ndim == 1:
        Mp = Mp.reshape(-1, 1)
    out = np.zeros((dims.N, Mp.shape[1]))
    nlq = dims.mnl + dims.l + sum(dims.q)
    out[:nlq] = Mp[:nlq]
    iu, ip = nlq, nlq
    for m in dims.s:
        for c in range(Mp.shape[1]):
            S = np.zeros((m, m))
            q = ip
            for j in range(m):
                seg = Mp[q:q + m - j, c].copy()
                seg[1:] /= math.sqrt(2.0)
                S[j:, j] = seg
                S[j, j:] = seg
                q += m - j
            out[iu:iu + m * m, c] = vecF(S)
        ip += m * (m + 1) // 2
        iu += m * m
    return out


def sym_cols(G, dims):
    G = np.array(G, dtype=float)
    for j in range(G.shape[1]):
        G[:, j] = cone.symmetrize(G[:, j], dims)
    return G


def gen_dims(rng, style=None, maxl=5, maxq=4, maxs=3):
    style = style or rng.choice(["l", "l", "lq", "ls", "q", "s", "lqs", "lqs", "degenerate", "multi"])
    if style == "l":
        return Dims(rng.randint(1, maxl + 2))
    if style == "lq":
        return Dims(rng.randint(1, maxl), [rng.randint(2, maxq) for _ in range(rng.randint(1, 2))])
    if style == "ls":
        return Dims(rng.randint(1, maxl), [], [rng.randint(2, maxs) for _ in range(rng.randint(1, 2))])
    if style == "q":
        return Dims(0, [rng.randint(2, maxq + 1) for _ in range(rng.randint(1, 3))])
    if style == "s":
        return Dims(0, [], [rng.randint(2, maxs + 1) for _ in range(rng.randint(1, 2))])
    if style == "lqs":
        return Dims(rng.randint(0, maxl), [rng.randint(2, maxq) for _ in range(rng.randint(1, 2))],
                    [rng.randint(1, maxs) for _ in range(rng.randint(1, 2))])
    if style == "degenerate":
        # 1-dim 'q' cones, order-0 and order-1 's' cones, empty 'l'
        return Dims(rng.randint(0, 3), [rng.choice([1, 1, 2, 3]) for _ in range(rng.randint(1, 3))],
                    [rng.choice([0, 1, 1, 2]) for _ in range(rng.randint(1, 3))])
    if style == "multi":
        return Dims(rng.randint(0, 3), [rng.randint(1, maxq) for _ in range(rng.randint(2, 3))],
                    [rng.randint(1, maxs) for _ in range(rng.randint(2, 3))])
    raise ValueError(style)


def _min_sv(M):
    if M.shape[0] == 0 or M.shape[1] == 0:
        return math.inf if M.shape[1] == 0 else 0.0
    if M.shape[0] < M.shape[1]:
        return 0.0
    return float(np.linalg.svd(M, compute_uv=False)[-1])


def _min_sv_rows(A):
    if A.shape[0] == 0:
        return math.inf
    if A.shape[0] > A.shape[1]:
        return 0.0
    return float(np.linalg.svd(A, compute_uv=False)[-1])


def conditioning(G, A, dims, P=None):
    """(sigma_min of [Gp;A] (resp [P^(1/2);Gp;A]), sigma_min of A as row-rank, sigma_max)"""
    Gp = pack_iso(G, dims)
    blocks = [Gp, A]
    if P is not None:
        blocks = [P] + blocks
    S = np.vstack(blocks)
    smax = float(np.linalg.svd(S, compute_uv=False)[0]) if S.size else 0.0
    return _min_sv(S), _min_sv_rows(A), smax


def gen_GA(rng, dims, n, p, min_sv=0.2):
    """random G (N x n, symmetric 's' columns), A (p x n) with rank A = p and
    sigma_min([G;A]) >= min_sv; returns None if the shape makes it impossible"""
    Np = dims.Np
    if Np + p < n or p > n:
        return None
    for _ in range(50):
        Gp = rand_sv_matrix(rng, Np, n)
        A = rand_sv_matrix(rng, p, n, 0.5, 2.0)
        G = unpack_iso(Gp, dims)
        s1, s2, _ = conditioning(G, A, dims)
        if s1 >= min_sv and s2 >= min_sv:
            return G, A
    return None


def planted_feasible(rng, dims, n, p, qp_rank=None, complementary=False):
    """strictly primal and dual feasible cone LP (or QP when qp_rank is not None)"""
    ga = None
    P = None
    for _ in range(20):
        if qp_rank is None:
            ga = gen_GA(rng, dims, n, p)
            if ga is None:
                return None
            G, A = ga
        else:
            # rank([P; A; G]) = n is what is required
            B = rand_sv_matrix(rng, n, qp_rank, 0.5, 2.0) if qp_rank else np.zeros((n, 0))
            P = B @ B.T
            P = (P + P.T) / 2
            Np = dims.Np
            if p > n:
                return None
            Gp = rand_sv_matrix(rng, Np, n)
            A = rand_sv_matrix(rng, p, n, 0.5, 2.0)
            G = unpack_iso(Gp, dims)
            s1, s2, _ = conditioning(G, A, dims, P=B.T if qp_rank else None)
            if not (s1 >= 0.2 and s2 >= 0.2):
                continue
            ga = (G, A)
        break
    if ga is None:
        return None
    G, A = ga
    xs = np.array([rng.uniform(-2, 2) for _ in range(n)])
    ys = np.array([rng.uniform(-2, 2) for _ in range(p)])
    ss = cone.symmetrize(cone.random_interior(rng, dims, 0.2, 2.0), dims)
    zs = cone.symmetrize(cone.random_interior(rng, dims, 0.2, 2.0), dims)
    h = G @ xs + ss
    b = A @ xs
    Gtz = G.T @ zs          # G symmetric columns, z symmetric -> S inner product
    if P is None:
        c = -Gtz - A.T @ ys
        ppl = float(c @ xs)
        dpl = float(-cone.sdot(h, zs, dims) - b @ ys)
        pr = Prob(c=c, G=G, h=h, A=A, b=b, dims=dims, kind="feasible")
    else:
        q = -P @ xs - Gtz - A.T @ ys
        ppl = float(0.5 * xs @ P @ xs + q @ xs)
        # dual objective at (x*, y*, z*): L(x*) with stationarity holding at x*
        dpl = float(0.5 * xs @ P @ xs + q @ xs + zs @ (G @ xs - h) + ys @ (A @ xs - b))
        pr = Prob(c=q, q=q, P=P, G=G, h=h, A=A, b=b, dims=dims, kind="feasible")
    pr.pl = {"x": xs, "s": ss, "y": ys, "z": zs, "p": ppl, "d": dpl,
             "margin_s": cone.margin(ss, dims), "margin_z": cone.margin(zs, dims)}
    s1, s2, smax = conditioning(G, A, dims)
    pr.pl["sv"] = [s1, s2, smax]
    assert dpl <= ppl + 1e-9 * (1 + abs(ppl)), (dpl, ppl)
    return pr


def planted_pinf(rng, dims, n, p):
    """strictly primal infeasible, strictly dual feasible"""
    Np = dims.Np
    if Np + p - 1 < n or p > n or Np == 0:
        return None
    for _ in range(40):
        ga = gen_GA(rng, dims, n, p)
        if ga is None:
            return None
        G, A = ga
        z = cone.symmetrize(cone.random_interior(rng, dims, 0.3, 2.0), dims)
        y = np.array([rng.uniform(-1, 1) for _ in range(p)])
        zp = pack_iso(z, dims)[:, 0]
        w = np.concatenate([zp, y])
        M = np.vstack([pack_iso(G, dims), A])
        M = M - np.outer(w, w @ M) / float(w @ w)
        G2 = unpack_iso(M[:Np], dims); A2 = M[Np:]
        s1, s2, smax = conditioning(G2, A2, dims)
        if not (s1 >= 0.2 and s2 >= 0.2):
            continue
        hb = np.array([rng.uniform(-2, 2) for _ in range(Np + p)])
        t = float(hb @ w)
        hb = hb - (t + 1.0) * w / float(w @ w)
        h = unpack_iso(hb[:Np], dims)[:, 0]; b = hb[Np:]
        z0 = cone.symmetrize(cone.random_interior(rng, dims, 0.3, 2.0), dims)
        y0 = np.array([rng.uniform(-1, 1) for _ in range(p)])
        c = -G2.T @ z0 - A2.T @ y0
        pr = Prob(c=c, G=G2, h=h, A=A2, b=b, dims=dims, kind="pinf")
        res = float(np.linalg.norm(G2.T @ z + A2.T @ y))
        val = float(cone.sdot(h, z, dims) + b @ y)
        if res > 1e-12 * (1 + np.linalg.norm(w)) or abs(val + 1.0) > 1e-12:
            continue
        pr.pl = {"y": y, "z": z, "margin_z": cone.margin(z, dims), "sv": [s1, s2, smax],
                 "cert_norm": float(np.linalg.norm(w))}
        return pr
    return None


def planted_dinf(rng, dims, n, p, boundary=False):
    """strictly primal feasible with a strictly improving interior ray (dual infeasible).
    boundary=True (needs two 'l' rows and n >= 2): two rows are replaced by +w, -w with w orthogonal to the planted
    ray, so EVERY ray of the problem satisfies w'x = 0: the slack of any valid certificate has exact zeros there
    (a ray on the boundary of the recession cone)."""
    Np = dims.Np
    if p >= n or Np == 0 or n == 0:
        return None
    for _ in range(40):
        ga = gen_GA(rng, dims, n, p)
        if ga is None:
            return None
        G, A = ga
        xr = np.array([rng.gauss(0, 1) for _ in range(n)])
        xr /= np.linalg.norm(xr)
        sr = cone.symmetrize(cone.random_interior(rng, dims, 0.3, 2.0), dims)
        G2 = G + np.outer(-sr - G @ xr, xr)
        A2 = A - np.outer(A @ xr, xr)
        if boundary:
            if dims.l < 2 or n < 2:
                return None
            w = np.array([rng.gauss(0, 1) for _ in range(n)])
            w = w - float(w @ xr) * xr
            if np.linalg.norm(w) < 0.3:
                continue
            w /= np.linalg.norm(w)
            i_, j_ = rng.sample(range(dims.l), 2)
            G2[i_] = w; G2[j_] = -w
            sr = sr.copy(); sr[i_] = 0.0; sr[j_] = 0.0
        s1, s2, smax = conditioning(G2, A2, dims)
        if p and not s2 >= 0.2:
            continue
        if not s1 >= 0.2:
            continue
        x0 = np.array([rng.uniform(-2, 2) for _ in range(n)])
        s0 = cone.symmetrize(cone.random_interior(rng, dims, 0.3, 2.0), dims)
        h = G2 @ x0 + s0; b = A2 @ x0
        c = np.array([rng.uniform(-2, 2) for _ in range(n)])
        c = c - (float(c @ xr) + 1.0) * xr
        pr = Prob(c=c, G=G2, h=h, A=A2, b=b, dims=dims, kind="dinf")
        if np.linalg.norm(G2 @ xr + sr) > 1e-12 * (1 + np.linalg.norm(sr)) or abs(c @ xr + 1) > 1e-12:
            continue
        pr.pl = {"x": xr, "s": sr, "x0": x0, "s0": s0, "margin_s": cone.margin(sr, dims), "sv": [s1, s2, smax]}
        pr.boundary_ray = bool(boundary)
        return pr
    return None


def add_junk(rng, v, dims, mag=50.0):
    """overwrite the strict upper triangles of the 's' blocks (unreferenced storage)"""
    v = np.array(v, dtype=float)
    one = v.ndim == 1
    if one:
        v = v.reshape(-1, 1)
    for kind, st, m in dims.blocks():
        if kind == "s":
            for j in range(v.shape[1]):
                M = v[st:st + m * m, j].reshape((m, m), order="F").copy()
                for a in range(m):
                    for bb in range(a + 1, m):
                        M[a, bb] = rng.uniform(-mag, mag)
                v[st:st + m * m, j] = vecF(M)
    return v[:, 0] if one else v


def planted_sparse_lp(rng, qp=False, with_q=False):
    """strictly feasible LP/QP with GENUINELY sparse data (structural zeros): G = [-I; a few rows with 2-3
    nonzeros], A with 2-3 nonzeros per row, n in 5..12, so that sparse Cholesky orderings are non-trivial.
    Optional diagonal rank-deficient P.  [G; A] has full column rank because of the identity block."""
    n = rng.randint(5, 12)
    p = rng.randint(0, min(4, n - 2))
    extra = rng.randint(1, n // 2 + 1)
    rows = [[-1.0 if j == i else 0.0 for j in range(n)] for i in range(n)]
    for _ in range(extra):
        r = [0.0] * n
        for j in rng.sample(range(n), rng.randint(2, 3)):
            r[j] = rng.gauss(0.0, 1.0)
        rows.append(r)
    rng.shuffle(rows)
    for _ in range(30):
        Ar = []
        for i in range(p):
            r = [0.0] * n
            for j in rng.sample(range(n), rng.randint(2, 3)):
                r[j] = rng.gauss(0.0, 1.0)
            Ar.append(r)
        A = np.array(Ar, dtype=float).reshape(p, n)
        if p == 0 or np.linalg.svd(A, compute_uv=False)[-1] >= 0.2:
            break
    else:
        A = np.zeros((0, n)); p = 0
    G = np.array(rows, dtype=float)
    d = Dims(G.shape[0])
    xs = np.array([rng.uniform(-2, 2) for _ in range(n)])
    ys = np.array([rng.uniform(-2, 2) for _ in range(p)])
    ss = cone.random_interior(rng, d, 0.2, 2.0)
    zs = cone.random_interior(rng, d, 0.2, 2.0)
    h = G @ xs + ss
    b = A @ xs
    if qp:
        dg = np.array([0.0 if (j % 2 and rng.random() < 0.8) else rng.uniform(0.5, 1.5) for j in range(n)])
        P = np.diag(dg)
        q = -P @ xs - G.T @ zs - A.T @ ys
        pr = Prob(c=q, q=q, P=P, G=G, h=h, A=A, b=b, dims=d, kind="feasible")
        pr.rankP = int(np.sum(dg > 0))
        ppl = float(0.5 * xs @ P @ xs + q @ xs)
        dpl = float(ppl + zs @ (G @ xs - h))
    else:
        c = -G.T @ zs - A.T @ ys
        pr = Prob(c=c, G=G, h=h, A=A, b=b, dims=d, kind="feasible")
        ppl = float(c @ xs); dpl = float(-h @ zs - b @ ys)
    s1, s2, smax = conditioning(G, A, d)
    pr.pl = {"x": xs, "s": ss, "y": ys, "z": zs, "p": ppl, "d": dpl, "margin_s": cone.margin(ss, d),
             "margin_z": cone.margin(zs, d), "sv": [s1, s2, smax], "structurally-sparse": True}
    return pr


def zero_some_h(rng, pr):
    """Make some entries of the 'q' / 's' parts of h exactly zero (so that a sparse copy of hq[k] / hs[k] has structural
    zeros and len() != number of rows) on a planted strictly feasible LP, keeping the planted points strictly feasible:
    s* := s* + delta + t*e with delta chosen so that h = G x* + s* vanishes at the chosen positions and t > ||delta||.
    Returns the number of zeroed entries (0 = problem unchanged)."""
    if pr.P is not None or "x" not in getattr(pr, "pl", {}) or "s" not in pr.pl or "z" not in pr.pl:
        return 0
    d = pr.dims
    if not (d.q or d.s):
        return 0
    xs, ss = pr.pl["x"], cone.symmetrize(np.array(pr.pl["s"], dtype=float), d)
    gx = pr.G @ xs
    delta = np.zeros(d.N)
    pos = []
    ind = d.l
    for m in d.q:
        for i in range(1, m):
            if rng.random() < 0.5:
                pos.append(ind + i)
        ind += m
    for m in d.s:
        for j in range(m):
            for i in range(j + 1, m):
                if rng.random() < 0.5:
                    pos.append(ind + j * m + i); pos.append(ind + i * m + j)
        ind += m * m
    if not pos:
        return 0
    for k in pos:
        delta[k] = -(gx[k] + ss[k])
    t = float(np.linalg.norm(delta)) * 1.05 + 0.1
    snew = ss + delta + t * cone.identity(d)
    if cone.margin(snew, d) < 0.05:
        return 0
    h = gx + snew
    for k in pos:
        h[k] = 0.0
    snew = h - gx
    pr.h = h
    pr.pl["s"] = snew
    if "margin_s" in pr.pl:
        pr.pl["margin_s"] = cone.margin(snew, d)
    pr.pl["d"] = float(-cone.sdot(h, pr.pl["z"], d) - pr.b @ pr.pl["y"])
    return len(pos)


def homogenize_equalities(pr):
    """Translate x = u + xhat with A xhat = b: the same problem with homogeneous equality constraints A u = 0 (b exactly
    zero), h := h - G xhat.  Planted points, rays and certificates carry over (objective values shift by c'xhat).
    Returns False if the problem has no equality constraints or is a QP."""
    if pr.P is not None or pr.A.shape[0] == 0:
        return False
    xhat = np.linalg.lstsq(pr.A, pr.b, rcond=None)[0]
    if float(np.linalg.norm(pr.A @ xhat - pr.b)) > 1e-10 * (1 + float(np.linalg.norm(pr.b))):
        return False
    pr.h = pr.h - pr.G @ xhat
    pr.b = np.zeros_like(pr.b)
    pl = getattr(pr, "pl", None)
    if pl:
        for k in ("x", "x0"):
            if k in pl:
                pl[k] = pl[k] - xhat
        shift = float(pr.c @ xhat)
        for k in ("p", "d"):
            if k in pl:
                pl[k] = pl[k] - shift
    return True
