#!/usr/bin/env python3
"""debug helper: run single cases of a property in-process against a scratch build, printing tracebacks
of exceptions raised inside cvxopt entry points.
usage: tools/onecase.py PROP SEED WORKER K [K...]   (env VERIF_REPO to build from another tree)"""
import os, sys, subprocess, tempfile, shutil
HERE = os.path.dirname(os.path.dirname(os.path.abspath(__file__)))
if os.environ.get("_ONECASE_CHILD") != "1":
    sys.path.insert(0, HERE)
    from vlib import build
    d = tempfile.mkdtemp(prefix="cvxopt-verif-one-")
    try:
        root = build.build(os.environ.get("VERIF_VARIANT", "plain"), d)
        env = build.worker_env(root, os.environ.get("VERIF_VARIANT", "plain"), [os.path.join(HERE, ".deps")])
        env["_ONECASE_CHILD"] = "1"
        sys.exit(subprocess.run(["/venv/bin/python", os.path.abspath(__file__)] + sys.argv[1:], env=env, cwd=d).returncode)
    finally:
        shutil.rmtree(d, ignore_errors=True)
import importlib, traceback, json
prop, seed, worker = sys.argv[1].upper(), int(sys.argv[2]), int(sys.argv[3])
ks = [int(a) for a in sys.argv[4:]]
from vlib.harness import Ctx
from cvxopt import solvers
for name in ("conelp", "coneqp", "lp", "qp", "socp", "sdp", "cpl", "cp", "gp"):
    def mkwrap(orig, name):
        def w(*a, **k):
            if os.environ.get("ONECASE_PROGRESS") and isinstance(k.get("options"), dict):
                k["options"] = dict(k["options"], show_progress=True)
            try:
                r = orig(*a, **k)
                print("[%s] -> %s it=%s" % (name, r.get("status"), r.get("iterations")))
                if os.environ.get("ONECASE_DUMP") and r.get("status") == os.environ.get("ONECASE_DUMP_STATUS", "unknown"):
                    import pickle
                    pickle.dump((name, a, {kk: vv for kk, vv in k.items() if not callable(vv)}), open(os.environ["ONECASE_DUMP"], "wb"))
                return r
            except Exception:
                print("[%s] raised:" % name); traceback.print_exc(); raise
        return w
    setattr(solvers, name, mkwrap(getattr(solvers, name), name))
class C2(Ctx):
    def cases(self):
        for k in ks: yield k
mod = importlib.import_module("props." + prop.lower())
ctx = C2(prop, seed, os.environ.get("VERIF_TIER", "quick"), worker, 16, 1, os.environ.get("VERIF_VARIANT", "plain"), "/dev/null",
         params=json.loads(os.environ.get("VERIF_PARAMS", "{}")))
ctx.log = lambda rec: print(json.dumps(rec)[:3000]) if ("end" in rec) else None
mod.run(ctx)
