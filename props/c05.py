"""C05  Well-posed problems are classified correctly (optimal / infeasible / unbounded)."""
LEVEL = "exploration"
TECHNIQUE = "runtime monitoring: planted-truth oracle (instances carry a strictly feasible primal-dual pair or a strict Farkas certificate, verified in numpy before the solve) on the default solver paths"
LEVEL_TEXT = ("the status of every solve on a planted, moderately conditioned instance is compared with the planted truth and the "
              "objective with the planted weak-duality bracket; held on the generated executions, not a proof")
RULE = ("planted instances with sigma_min([G;A]) >= 0.2, interior/certificate margins >= 0.2; default kktsolver and options; "
        "class signature = entry x planted kind x cone shape class x status x storage x (rows(G)<n and p>0)")
ASSUMPTIONS = ["'moderately conditioned' is fixed as singular values of [G;A] in [0.2, ~6] and margins >= 0.2, re-measured after every construction step",
               "cpl/cp/gp are classified on planted strictly feasible smooth problems from the C04 families (they have no infeasibility status)"]
REQUIRED_COUNTERS = ["cpl.mnl-0-cone-lp", "judged.conelp.feasible", "judged.conelp.pinf", "judged.conelp.dinf", "judged.lp.feasible", "judged.lp.pinf",
                     "judged.lp.dinf", "judged.socp.feasible", "judged.socp.pinf", "judged.sdp.feasible", "judged.sdp.dinf",
                     "judged.coneqp.feasible", "judged.coneqp.pinf", "judged.qp.feasible", "judged.cpl.feasible", "judged.cp.feasible", "judged.gp.feasible", "class.rowsG<n,p>0"]


def plan(tier):
    if tier == "thorough":
        return [{"variant": "plain", "workers": 16, "cases": 15000}]
    return [{"variant": "plain", "workers": 16, "cases": 600}]


def run(ctx):
    from vlib import solve_cases
    solve_cases.run_classification(ctx)


def post_check(counters, maxima, tier):
    """the recorded cpl non-convergence finding is a ~4%% phenomenon on the unchanged tree; a rate far above that
    is a different violation (the known-finding entries must not hide a solver that stopped converging)"""
    out = []
    n = counters.get("judged.cpl.feasible", 0) + counters.get("nl-not-converged.cpl", 0)
    bad = counters.get("nl-not-converged.cpl", 0)
    if n >= 60 and bad > 0.15 * n:
        out.append(("cpl:non-convergence-rate-above-known-level",
                    "cpl failed to converge on %d of %d well-posed planted problems (known level ~4%%)" % (bad, n)))
    return out
