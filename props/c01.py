"""C01  'optimal' from conelp/lp/socp/sdp is an independently checkable certificate."""
LEVEL = "exploration"
TECHNIQUE = "runtime monitoring: certificate checker (numpy recomputation of every residual, cone margin, gap and accuracy field) over generated cone LPs on all solver paths"
LEVEL_TEXT = ("every 'optimal' result observed is re-verified from the caller's own data without the solver; "
              "held on the generated executions (classes and counts in the evidence), not a proof")
RULE = ("planted strictly feasible primal-dual cone LPs (plus infeasible/unbounded ones so the other branches run); "
        "class signature = entry point x cone shape class x kktsolver x storage x start kind x option class x status; "
        "only results with status 'optimal' are judged here")
ASSUMPTIONS = [
    "norms of 's' parts are taken in the symmetric interpretation (lower triangle), as the solvers document ('L' storage)",
    "GLPK/DSDP results are held to the back-end's documented default tolerance (1e-5), native results to the caller's tolerances",
    "MOSEK paths cannot run (not installed); cholmod/umfpack/glpk/dsdp C modules come from the wheel, their Python post-processing from /repo",
]
REQUIRED_COUNTERS = ["optimal.conelp", "optimal.lp", "optimal.socp", "optimal.sdp", "kkt.ldl", "kkt.ldl2", "kkt.qr",
                     "kkt.chol", "kkt.chol2", "kkt.callable", "start.both", "start.primal", "start.dual",
                     "storage.sparse", "junk", "wrapper-block-checks", "iteration0-shortcut", "backend.glpk", "backend.dsdp", "sparse-h.structural-zeros"]


def plan(tier):
    if tier == "thorough":
        return [{"variant": "plain", "workers": 16, "cases": 15000}]
    return [{"variant": "plain", "workers": 16, "cases": 120}]


def run(ctx):
    from vlib import solve_cases
    solve_cases.run_conelp_family(ctx, judge_status=("optimal",), mix={"feasible": 0.80, "pinf": 0.07, "dinf": 0.07, "shortcut": 0.06})
