"""C09  Solver calls are isolated, configurable and repeatable."""
LEVEL = "exploration"
TECHNIQUE = ("runtime monitoring: byte images of every argument and of all module-level state before/after each solver call; options= vs "
             "global-options equivalence under poisoned globals; option validation sweep; iteration/KKT-call budget monitor; call histories "
             "compared bit-for-bit with fresh interpreter processes; concurrent solves under a 1 us switch interval with sys.monitoring "
             "yield injection compared bit-for-bit with the sequential results")
LEVEL_TEXT = ("observational equivalence and immutability checked on every generated call, history and thread schedule that was produced; "
              "only schedules the OS/GIL (plus injected yields) actually produced are covered - the number seen is reported")
RULE = ("group iso: one call of a random entry point (conelp coneqp lp qp socp sdp cpl cp gp op.solve) under immutability, global-state, "
        "options-precedence, validation and budget monitors; group hist: random call histories with option edits vs fresh processes; "
        "group threads: T in {2,4,8} threads with per-call options vs sequential.  class signature = monitor x entry x configuration")
ASSUMPTIONS = ["bit-identical means equal pickled byte images of every field of the result dictionary",
               "inputs whose byte image is compared before/after a call: every matrix argument, dims, primalstart/dualstart/initvals dictionaries, "
               "the options dictionaries, and (cpl/cp, half of the calls) a start point that F() hands out from a caller-kept matrix",
               "TSan/helgrind are not used (CPython is not instrumented); schedules are those produced by the interpreter with switch interval 1e-6 and injected sleep(0) yields at LINE events of coneprog/cvxprog/misc"]
ENTRIES = ["conelp", "coneqp", "lp", "qp", "socp", "sdp", "cpl", "cp", "gp", "op"]
REQUIRED_COUNTERS = ["iso." + e for e in ENTRIES] + ["immutability-checks", "global-state-checks", "options-precedence-checks",
                                                      "validation-rejections", "budget-checks", "monotone-tolerance-checks", "split-tolerance-checks", "split-tolerance-checks.dinf.relative-only", "iso.rank-deficient-A", "integer-valued-tolerance-checks",
                                                      "hist.calls-vs-fresh-process", "threads.runs", "threads.results-compared",
                                                      "threads.context-switches-in-solver", "threads.homogeneous-runs", "iso.empty-options-dict", "refinement-checks"]


def plan(tier):
    if tier == "thorough":
        return [{"variant": "plain", "name": "iso", "workers": 8, "cases": 900, "params": {"mon": "iso"}},
                {"variant": "plain", "name": "hist", "workers": 4, "cases": 40, "params": {"mon": "hist"}},
                {"variant": "plain", "name": "threads", "workers": 8, "cases": 300, "params": {"mon": "threads"}}]
    return [{"variant": "plain", "name": "iso", "workers": 8, "cases": 60, "params": {"mon": "iso"}},
            {"variant": "plain", "name": "hist", "workers": 4, "cases": 3, "params": {"mon": "hist"}},
            {"variant": "plain", "name": "threads", "workers": 8, "cases": 30, "params": {"mon": "threads"}}]


def run(ctx):
    import sys, os, copy, pickle, struct, subprocess, threading, time, random as _random, json, hashlib
    import numpy as np
    import cvxopt
    from cvxopt import matrix, spmatrix, solvers, misc, coneprog, cvxprog, modeling
    try:
        from cvxopt import glpk, dsdp       # noqa: imported now, so that the first back-end call does not change the package namespace
    except ImportError:
        pass
    from vlib.oracle import cone
    from vlib.oracle.cone import Dims
    from vlib.gen import coneprob as gp, nlprob as nl
    from vlib import solverun as sr, solve_cases as sc
    from vlib.conv import bits

    QUIET = {"show_progress": False}

    # ---------------------------------------------------------------- images
    def freeze(o):
        tn = type(o).__name__
        if tn in ("matrix", "spmatrix"):
            return bits(o)
        if isinstance(o, dict):
            return ("dict", tuple(sorted((str(k), freeze(v)) for k, v in o.items())))
        if isinstance(o, (list, tuple)):
            return (type(o).__name__, tuple(freeze(v) for v in o))
        if isinstance(o, float):
            return ("f", struct.pack("d", o))
        if callable(o):
            return ("callable", getattr(o, "__qualname__", repr(type(o))))
        return (tn, repr(o))

    def module_state():
        st = {}
        import cvxopt.cholmod, cvxopt.umfpack, cvxopt.amd, cvxopt.glpk, cvxopt.dsdp
        for m in (coneprog, cvxprog, misc, solvers, modeling, cvxopt, cvxopt.cholmod, cvxopt.umfpack, cvxopt.amd, cvxopt.glpk, cvxopt.dsdp):
            for k, v in vars(m).items():
                if k.startswith("__"):
                    continue
                tn = type(v).__name__
                if tn in ("dict", "list", "set", "matrix", "spmatrix", "float", "int", "str", "bool", "NoneType", "tuple"):
                    st[(m.__name__, k)] = (id(v), freeze(v))
                else:
                    st[(m.__name__, k)] = (id(v), None)
        return st

    # ---------------------------------------------------------------- call specifications
    class Call:
        """one solver call on a generated problem; rebuilt deterministically from (entry, seed)"""
        def __init__(self, entry, seed):
            self.entry, self.seed = entry, seed
            rng = _random.Random(seed)
            self.rng = rng
            self.kw = {}
            e = entry
            if e in ("conelp", "lp", "socp", "sdp"):
                self.pr = None
                while self.pr is None:
                    self.pr = sc.gen_instance(rng, e, rng.choice(["feasible", "feasible", "pinf", "dinf"]))
                if e in ("lp", "conelp") and self.pr.p >= 1 and rng.random() < 0.12:
                    # rank-deficient equality constraints: the solver raises the documented ValueError out of a failed KKT
                    # factorization - an error path that must leave arguments and global state alone like any other
                    self.pr.A = np.vstack([self.pr.A, self.pr.A[:1]]); self.pr.b = np.concatenate([self.pr.b, self.pr.b[:1]])
                    self.rank_deficient = True
                self.args = sr.cvx_args(self.pr, rng, sparseG=rng.random() < 0.3) if e == "conelp" else \
                    sr.wrapper_args(e, self.pr, rng, sparse=rng.random() < 0.3, junk=(e == "sdp" and rng.random() < 0.5))
                if rng.random() < 0.3 and self.pr.kind == "feasible":
                    ps, ds, _, _ = sr.start_dicts(e, self.pr, rng.choice(["primal", "dual", "both"]), rng)
                    self.kw["ps"], self.kw["ds"] = ps, ds
                elif e == "lp" and rng.random() < 0.3:
                    self.kw["solver"] = "glpk"          # the external back-ends have their own post-processing code
                elif e == "sdp" and self.pr.p == 0 and rng.random() < 0.3:
                    self.kw["solver"] = "dsdp"
            elif e in ("coneqp", "qp"):
                self.pr = None
                while self.pr is None:
                    self.pr = sc.gen_qp_instance(rng, e)
                self.args = sr.cvx_args(self.pr, rng, sparseG=rng.random() < 0.3, sparseP=rng.random() < 0.3)
                if rng.random() < 0.3:
                    ps, ds, _, _ = sr.start_dicts(e, self.pr, rng.choice(["primal", "dual", "both"]), rng)
                    iv = {}
                    iv.update(ps or {}); iv.update(ds or {})
                    self.kw["iv"] = iv
            elif e in ("cpl", "cp", "gp"):
                self.nl = nl.gen_cpl(rng) if e == "cpl" else nl.gen_gp(rng) if e == "gp" else nl.gen_cp(rng)
                p_ = self.nl
                self.args = {"G": sr.mk(p_.G), "h": sr.mk(p_.h), "dims": p_.dims.asdict(), "A": sr.mk(p_.A), "b": sr.mk(p_.b)}
                if e == "cpl": self.args["c"] = sr.mk(p_.c)
                if e == "gp":
                    self.args["F"] = sr.mk(p_.Fgp); self.args["g"] = sr.mk(p_.ggp); self.args["K"] = list(p_.K)
                self.Flog = []
                self.F = None
                if e != "gp":
                    # in half of the calls the caller keeps the start point that F() hands out
                    self.F = p_.make_F(self.Flog, keep_x0=rng.random() < 0.5)
                    if self.F.x0_object is not None:
                        self.args["x0-returned-by-F"] = self.F.x0_object
            elif e == "op":
                from cvxopt.modeling import variable, op, dot
                self.pr = None
                while self.pr is None:
                    self.pr = sc.gen_instance(rng, "lp", "feasible")
                pr = self.pr
                self.x = variable(pr.n, "x")
                self.args = {"G": sr.mk(pr.G), "h": sr.mk(pr.h), "A": sr.mk(pr.A), "b": sr.mk(pr.b), "c": sr.mk(pr.c)}
                cons = [self.args["G"] * self.x <= self.args["h"]]
                m_ = pr.G.shape[0]
                if m_ >= 3 and rng.random() < 0.6:
                    # the same rows as two or three separate constraint objects (their order in G is the order given)
                    cuts = sorted(rng.sample(range(1, m_), min(2, m_ - 1)))
                    bounds = [0] + cuts + [m_]
                    cons = []
                    for a_, b_ in zip(bounds, bounds[1:]):
                        Gi = sr.mk(pr.G[a_:b_, :]); hi = sr.mk(pr.h[a_:b_])
                        self.args["G%d" % a_] = Gi; self.args["h%d" % a_] = hi
                        cons.append(Gi * self.x <= hi)
                if pr.p:
                    cons.append(self.args["A"] * self.x == self.args["b"])
                self.cons = cons
                self.op = op(dot(self.args["c"], self.x), cons)

        def images(self):
            im = {k: freeze(v) for k, v in self.args.items()}
            for k in ("ps", "ds", "iv"):
                if self.kw.get(k) is not None:
                    im[k] = freeze(self.kw[k])
            return im

        def run(self, options=None, kkt=None):
            e, a = self.entry, self.args
            kw = {}
            if options is not None:
                kw["options"] = options
            if kkt is not None:
                kw["kktsolver"] = kkt
            if self.kw.get("solver"):
                kw["solver"] = self.kw["solver"]
                ctx.count("backend." + self.kw["solver"])
            if e == "conelp":
                return solvers.conelp(a["c"], a["G"], a["h"], a["dims"], a["A"], a["b"], primalstart=self.kw.get("ps"),
                                      dualstart=self.kw.get("ds"), **kw)
            if e == "lp":
                return solvers.lp(a["c"], a["G"], a["h"], a["A"], a["b"], primalstart=self.kw.get("ps"), dualstart=self.kw.get("ds"), **kw)
            if e == "socp":
                return solvers.socp(a["c"], a["Gl"], a["hl"], a["Gq"], a["hq"], a["A"], a["b"], primalstart=self.kw.get("ps"),
                                    dualstart=self.kw.get("ds"), **kw)
            if e == "sdp":
                return solvers.sdp(a["c"], a["Gl"], a["hl"], a["Gs"], a["hs"], a["A"], a["b"], primalstart=self.kw.get("ps"),
                                   dualstart=self.kw.get("ds"), **kw)
            if e == "coneqp":
                return solvers.coneqp(a["P"], a["q"], a["G"], a["h"], a["dims"], a["A"], a["b"], initvals=self.kw.get("iv"), **kw)
            if e == "qp":
                return solvers.qp(a["P"], a["q"], a["G"], a["h"], a["A"], a["b"], initvals=self.kw.get("iv"), **kw)
            if e == "cpl":
                return solvers.cpl(a["c"], self.F, a["G"], a["h"], a["dims"], a["A"], a["b"], **kw)
            if e == "cp":
                return solvers.cp(self.F, a["G"], a["h"], a["dims"], a["A"], a["b"], **kw)
            if e == "gp":
                return solvers.gp(a["K"], a["F"], a["g"], a["G"], a["h"], a["A"], a["b"], **kw)
            if e == "op":
                self.op.solve(**kw)
                return {"status": self.op.status, "x": self.x.value,
                        "mult": [cn.multiplier.value for cn in self.cons], "objective": self.op.objective.value()}

    def run_frozen(call, options=None, kkt=None):
        try:
            return ("ok", freeze(call.run(options=options, kkt=kkt)))
        except Exception as e:
            return ("exc", type(e).__name__, str(e)[:200])

    def rand_options(rng):
        o = dict(QUIET)
        r = rng.random()
        if r < 0.3:
            o["maxiters"] = rng.choice([1, 2, 3, 5, 9, 17])
        elif r < 0.6:
            t = rng.choice([1e-3, 1e-5, 1e-9])
            o.update({"abstol": t, "reltol": t * 10, "feastol": t})
        elif r < 0.75:
            o["refinement"] = rng.choice([0, 1, 2])
        return o

    POISON = {"show_progress": False, "maxiters": 1, "abstol": 1e3, "reltol": 1e3, "feastol": 1e3, "refinement": 0}

    # ---------------------------------------------------------------- monitor: iso
    INVALID = [("maxiters", 0), ("maxiters", -3), ("maxiters", 2.5), ("maxiters", "10"), ("abstol", "1e-7"), ("reltol", "x"),
               ("feastol", 0.0), ("feastol", -1e-7), ("feastol", "a"), ("refinement", -1), ("refinement", 1.5), ("refinement", 0.0),
               ("kktreg", -1.0), ("kktreg", "a"), ("abstol+reltol", (0.0, 0.0)), ("abstol+reltol", (-1.0, -1e-3))]

    def iso(c):
        rng = c.rng
        entry = ENTRIES[(c.k + ctx.worker) % len(ENTRIES)]
        seed = rng.randrange(1 << 30)
        call = Call(entry, seed)
        if getattr(call, "rank_deficient", False): ctx.count("iso.rank-deficient-A")
        c.desc.update({"monitor": "iso", "entry": entry, "callseed": seed})
        ctx.count("iso." + entry)
        opts = rand_options(rng)
        kk_ = None
        if rng.random() < 0.1:
            # an EMPTY per-call dictionary is still the caller's choice ("use the defaults"), not "use the globals"
            opts = {}
            ctx.count("iso.empty-options-dict")
        elif rng.random() < 0.25 and entry != "op":
            # the (undocumented but validated) regularisation option of the 'ldl' KKT solver must follow options= too
            opts["kktreg"] = rng.choice([1e-8, 1e-6]); kk_ = "ldl"
        # --- immutability + global state, options= kwarg, poisoned globals
        saved = dict(solvers.options)
        solvers.options.clear(); solvers.options.update(POISON)
        im0, gs0, o0, g0 = call.images(), module_state(), copy.deepcopy(opts), copy.deepcopy(dict(solvers.options))
        r_kw = run_frozen(call, options=opts, kkt=kk_)
        im1, gs1 = call.images(), module_state()
        ctx.count("immutability-checks"); ctx.count("global-state-checks")
        for k_ in im0:
            c.require(im0[k_] == im1[k_], "%s:argument-modified:%s" % (entry, k_), "argument %r changed during the call" % k_)
        c.require(opts == o0, entry + ":options-dict-modified", "the options= dictionary was modified: %r -> %r" % (o0, opts))
        c.require(dict(solvers.options) == g0, entry + ":global-options-modified", "solvers.options changed during the call")
        changed = [k_ for k_ in gs0 if gs0[k_] != gs1.get(k_)] + [k_ for k_ in gs1 if k_ not in gs0]
        c.require(not changed, entry + ":module-state-modified", "module-level state changed: %r" % (changed[:6],))
        # --- options precedence: same call with the options as globals and no kwarg, on a REBUILT call object
        call2 = Call(entry, seed)
        solvers.options.clear(); solvers.options.update(opts)
        r_gl = run_frozen(call2, kkt=kk_)
        solvers.options.clear(); solvers.options.update(saved)
        ctx.count("options-precedence-checks")
        c.require(r_kw == r_gl, entry + ":options-kwarg-differs-from-global-options",
                  "call(options=O) under poisoned globals is not bit-identical to the same call with solvers.options = O "
                  "(statuses %s / %s)" % (status_of(r_kw), status_of(r_gl)), opts=opts)
        # --- repeatability: same call again on the original object (history: one solve before)
        r_again = run_frozen(call, options=opts, kkt=kk_)
        c.require(r_again == r_kw, entry + ":second-identical-call-differs", "repeating the identical call gave a different result")
        # --- valid option values of integer type are honoured like their float equivalents (documented: "scalar")
        if entry != "op":
            r_int = run_frozen(call, options=dict(QUIET, reltol=0, abstol=1e-7))
            r_flt = run_frozen(Call(entry, seed), options=dict(QUIET, reltol=0.0, abstol=1e-7))
            ctx.count("integer-valued-tolerance-checks")
            c.require(r_int == r_flt, entry + ":integer-tolerance-differs-from-float",
                      "options reltol=0 (int) and reltol=0.0 give different outcomes: %s / %s" % (status_of(r_int) if r_int[0] != "exc" else r_int[:3], status_of(r_flt) if r_flt[0] != "exc" else r_flt[:3]))
        # --- validation
        name, val = INVALID[(c.k // len(ENTRIES) + ctx.worker) % len(INVALID)]
        bad = dict(QUIET)
        if name == "abstol+reltol":
            bad["abstol"], bad["reltol"] = val
        else:
            bad[name] = val
        applicable = not (name == "kktreg" and entry in ("gp",))
        im0 = call.images()
        cb = Call(entry, seed)
        cb.kw.pop("solver", None)         # the native options are validated by the native solvers (GLPK/DSDP have their own)
        rb = run_frozen(cb, options=bad)
        okv = rb[0] == "exc" and rb[1] == "ValueError"
        if okv: ctx.count("validation-rejections")
        c.require(okv, entry + ":invalid-option-not-ValueError:" + name, "options %r: expected ValueError, got %r" % ({name: val}, rb[:3] if rb[0] == "exc" else status_of(rb)))
        # --- budget: iterations <= maxiters, KKT factorisations <= maxiters + 1; tolerances monotone
        if entry in ("conelp", "coneqp"):
            mi = rng.choice([1, 2, 4, 7, 100])
            a = call.args
            fac = misc.kkt_ldl(a["G"], a["dims"], a["A"])
            cnt = {"f": 0}
            if entry == "conelp":
                def kk(W): cnt["f"] += 1; return fac(W)
            else:
                def kk(W): cnt["f"] += 1; return fac(W, a["P"])
            try:
                s = call.run(options=dict(QUIET, maxiters=mi), kkt=kk)
                ctx.count("budget-checks")
                c.require(s["iterations"] <= mi, entry + ":iterations-exceed-maxiters", "iterations %r > maxiters %d" % (s["iterations"], mi))
                c.require(cnt["f"] <= mi + 1, entry + ":kkt-calls-exceed-budget", "%d factorisations with maxiters %d" % (cnt["f"], mi))
                if s["iterations"] == mi and mi < 100:
                    c.require(s["status"] in ("unknown", "optimal", "primal infeasible", "dual infeasible"), entry + ":status-value", "status %r" % s["status"])
            except ValueError:
                pass
            # --- refinement honoured: KKT solves per iteration = (1 for conelp's first solve) + 2*(1 + refinement)
            rf = rng.choice([0, 1, 2])
            per_it = {}
            cur = {"it": "startup"}
            def kk_r(W):
                it_ = sys._getframe(1).f_locals.get("iters", None)
                cur["it"] = "startup" if it_ is None else int(it_)
                f_ = fac(W) if entry == "conelp" else fac(W, a["P"])
                def solve_(x, y, z):
                    per_it[cur["it"]] = per_it.get(cur["it"], 0) + 1
                    return f_(x, y, z)
                return solve_
            try:
                s_r = call.run(options=dict(QUIET, refinement=rf), kkt=kk_r)
                want_n = (1 if entry == "conelp" else 0) + 2 * (1 + rf)
                full = [k_ for k_ in per_it if k_ != "startup" and isinstance(k_, int) and k_ < s_r["iterations"] - 0]
                if s_r["status"] == "optimal" and full:
                    ctx.count("refinement-checks")
                    badk = [(k_, per_it[k_]) for k_ in sorted(full) if per_it[k_] != want_n]
                    c.require(not badk, entry + ":refinement-option-not-honoured",
                              "options refinement=%d: expected %d KKT solves per iteration, observed %r" % (rf, want_n, badk[:4]))
            except ValueError:
                pass
            try:
                s1 = call.run(options=dict(QUIET, abstol=1e-4, reltol=1e-3, feastol=1e-4))
                s2 = call.run(options=dict(QUIET, abstol=1e-8, reltol=1e-7, feastol=1e-8))
                ctx.count("monotone-tolerance-checks")
                c.require(s2["iterations"] >= s1["iterations"], entry + ":tighter-tolerance-fewer-iterations",
                          "tolerances 1e-4 -> %d iterations, 1e-8 -> %d iterations" % (s1["iterations"], s2["iterations"]))
            except ValueError:
                pass
            # --- the given tolerances are the ones applied, each to its own test: feastol to the residuals (also of the
            # infeasibility certificates), abstol / reltol to the gap only.  The certificate oracle (C01-C03) is run with
            # the options of the call, for tolerance sets whose members differ by orders of magnitude.
            if entry == "conelp" or call.pr.kind == "feasible":
                from vlib.oracle import certs as certs_
                for o_split, lab in (({"feastol": 1e-9, "abstol": 1e-2, "reltol": 1e-2}, "gap-loose"),
                                     ({"feastol": 1e-4, "abstol": 1e-10, "reltol": 1e-10}, "gap-tight"),
                                     ({"feastol": 1e-7, "abstol": -1.0, "reltol": 1e-6}, "relative-only")):
                    oo = dict(QUIET); oo.update(o_split)
                    try:
                        s_d = call.run(options=dict(QUIET))
                        s_t = call.run(options=oo)
                    except (ValueError, ArithmeticError):
                        continue
                    ctx.count("split-tolerance-checks")
                    ctx.count("split-tolerance-checks.%s.%s" % (call.pr.kind, lab))
                    if s_t["status"] in ("optimal", "primal infeasible", "dual infeasible"):
                        certs_.judge_cone_result(c, ctx, call.pr, sr.normalise(entry, s_t, call.pr.dims), oo, entry + ":" + lab, qp=(entry == "coneqp"))
                    if s_d["status"] in ("primal infeasible", "dual infeasible") and lab != "gap-loose" and entry == "conelp":
                        # the acceptance of a certificate depends on feastol only
                        c.require(s_t["status"] == s_d["status"], entry + ":certificate-acceptance-depends-on-gap-tolerances",
                                  "status %r with default options, %r with %r" % (s_d["status"], s_t["status"], o_split))
        elif entry in ("cpl", "cp"):
            mi = rng.choice([1, 2, 4, 7])
            n0 = len(call.Flog)
            try:
                call.run(options=dict(QUIET, maxiters=mi))
                ctx.count("budget-checks")
                # one F(x,z)/F(x) evaluation per iteration at the loop top: iterations <= maxiters  =>  top-of-loop calls <= maxiters + 1
                tops = sum(1 for k_, _, _ in call.Flog[n0:] if k_ == "F(x,z)")
                c.require(tops <= 2 * (mi + 1) + 2, entry + ":iterations-exceed-maxiters", "%d F(x,z) evaluations with maxiters %d" % (tops, mi))
            except ValueError:
                pass
        if entry == "op" and len(call.cons) >= 2:
            # a solve after an edit of the same object vs the same problem on a fresh object (whatever solve() keeps
            # between calls must follow the edit)
            from cvxopt.modeling import op as _op, dot as _dot
            try:
                call.op.delconstraint(call.cons[0])
                call.op.solve(options=dict(QUIET))
                ra = ("ok", freeze({"status": call.op.status, "x": call.x.value, "objective": call.op.objective.value()}))
                fresh = _op(_dot(call.args["c"], call.x), call.cons[1:])
                fresh.solve(options=dict(QUIET))
                rb = ("ok", freeze({"status": fresh.status, "x": call.x.value, "objective": fresh.objective.value()}))
            except Exception as e_:
                ra = rb = None
                ctx.count("op.edit-resolve.exception.%s" % type(e_).__name__)
            if ra is not None:
                ctx.count("op.edit-resolve-checks")
                c.require(ra == rb, "op:solve-after-delconstraint-differs-from-fresh-op",
                          "solve; delconstraint; solve on one op object differs from a fresh op with the remaining constraints (%s vs %s)"
                          % (status_of(ra), status_of(rb)))
        c.cls("iso", entry, "v:" + name, json.dumps(sorted(opts.keys())))
        if c.k < 2:
            ctx.sample({"entry": entry, "options": opts, "result": status_of(r_kw), "invalid": [name, repr(val)]})

    def status_of(r):
        if r[0] == "exc":
            return "%s(%s)" % (r[1], r[2][:60])
        try:
            for k, v in r[1][1]:
                if k == "status":
                    return v[1]
        except Exception:
            pass
        return "?"

    # ---------------------------------------------------------------- monitor: hist
    CHILD = r'''
import sys, pickle
sys.path.insert(0, %r)
import props.c09 as m
spec = pickle.loads(bytes.fromhex(sys.argv[1]))
out = m.child_run(spec)
sys.stdout.flush()
sys.stdout.write("\nRESULT-HEX " + pickle.dumps(out).hex() + "\n")
'''

    def hist(c):
        rng = c.rng
        ncalls = rng.randint(6, 12)
        specs = [(ENTRIES[rng.randrange(len(ENTRIES) - 1)], rng.randrange(1 << 30), rand_options(rng)) for _ in range(ncalls)]
        results = []
        saved = dict(solvers.options)
        try:
            for (e, s, o) in specs:
                # option edits between calls: globals are changed arbitrarily, the call uses options=
                solvers.options.clear()
                if rng.random() < 0.7:
                    solvers.options.update(rand_options(rng)); solvers.options.update({"show_progress": False})
                else:
                    solvers.options.update(POISON)
                results.append(run_frozen(Call(e, s), options=dict(o)))
                if rng.random() < 0.3:      # unrelated allocations / calls in between
                    junk = [matrix(1.0, (rng.randint(1, 50), rng.randint(1, 50))) for _ in range(5)]
        finally:
            solvers.options.clear(); solvers.options.update(saved)
        # same calls in reversed order in this process
        for i in reversed(range(ncalls)):
            e, s, o = specs[i]
            r = run_frozen(Call(e, s), options=dict(o))
            c.require(r == results[i], "history:%s:result-depends-on-call-order" % e, "call %d (%s) differs when the history is reversed" % (i, e))
        # fresh interpreter process for a sample of the calls
        env = dict(os.environ)
        for i in rng.sample(range(ncalls), min(3 if ctx.tier == "quick" else 6, ncalls)):
            e, s, o = specs[i]
            p = subprocess.run([sys.executable, "-c", CHILD % os.path.dirname(os.path.dirname(os.path.abspath(__file__))),
                                pickle.dumps((e, s, o)).hex()], capture_output=True, text=True, env=env, timeout=300)
            if p.returncode != 0:
                c.check(); c.fail("history:child-process-failed", p.stderr[-800:]); continue
            # (GLPK / DSDP write their own log lines to the C-level stdout: take the marked line only)
            hexl = [l_ for l_ in p.stdout.splitlines() if l_.startswith("RESULT-HEX ")]
            if not hexl:
                c.check(); c.fail("history:child-process-failed", "no result line; stdout tail: %r" % p.stdout[-300:]); continue
            ref = pickle.loads(bytes.fromhex(hexl[-1].split()[1]))
            ctx.count("hist.calls-vs-fresh-process")
            c.require(ref == results[i], "history:%s:differs-from-fresh-process" % e,
                      "call %d (%s, options %r) in a history differs from the same call in a fresh interpreter (%s vs %s)" %
                      (i, e, o, status_of(results[i]), status_of(ref)))
        c.desc.update({"monitor": "hist", "ncalls": ncalls, "entries": [s_[0] for s_ in specs]})
        c.cls("hist", "n%d" % ncalls)

    # ---------------------------------------------------------------- monitor: threads
    def threads_mon(c):
        rng = c.rng
        T = rng.choice([2, 4, 8])
        per = rng.randint(2, 4)
        ents = ["conelp", "coneqp", "lp", "qp", "socp", "sdp", "cpl", "cp", "gp"]
        specs = [[(ents[rng.randrange(len(ents))], rng.randrange(1 << 30), rand_options(rng)) for _ in range(per)] for _ in range(T)]
        kkts = [[None] * per for _ in range(T)]
        homogeneous = rng.random() < 0.5
        if homogeneous:
            # all threads solve problems of ONE shape with ONE KKT solver at the same time (per-call options still differ):
            # state shared between solver instances "of the same size" (scratch buffers, caches keyed by shape or id)
            # only collides in this configuration
            e0, s0 = ents[rng.randrange(len(ents))], rng.randrange(1 << 30)
            k0 = [None, "ldl", "ldl2", "chol", "chol2", "qr"][(c.k + ctx.worker) % 6]      # every solver in turn
            specs = [[(e0, s0, rand_options(rng)) for _ in range(per)] for _ in range(T)]
            kkts = [[k0] * per for _ in range(T)]
            ctx.count("threads.homogeneous-runs")
        inject = rng.random() < 0.6
        prob = rng.choice([0.02, 0.1, 0.3])
        # sequential reference (problems pre-generated: the generators use their own PRNGs, never the global one)
        calls = [[Call(e, s) for (e, s, o) in th] for th in specs]
        seq = [[run_frozen(calls[t][i], options=dict(specs[t][i][2]), kkt=kkts[t][i]) for i in range(per)] for t in range(T)]
        calls = [[Call(e, s) for (e, s, o) in th] for th in specs]
        out = [[None] * per for _ in range(T)]
        trace = []
        lock = threading.Lock()
        # KKT-level trace: wrap the built-in factories so every factor call logs the thread id
        origs = {}
        tl = threading.local()
        def wrapf(name):
            o = getattr(misc, name); origs[name] = o
            def w(*a, **k):
                f = o(*a, **k)
                def factor(*fa, **fk):
                    with lock:
                        trace.append(getattr(tl, "tid", -1))
                    return f(*fa, **fk)
                return factor
            setattr(misc, name, w)
        for nm in ("kkt_ldl", "kkt_ldl2", "kkt_qr", "kkt_chol", "kkt_chol2"):
            wrapf(nm)
        TOOL = 3
        mon = getattr(sys, "monitoring", None)
        yields = {"n": 0}
        targets = tuple(os.path.join(os.path.dirname(cvxopt.__file__), f) for f in ("coneprog.py", "cvxprog.py", "misc.py"))
        yrng = _random.Random(rng.randrange(1 << 30))
        if inject and mon is not None:
            def on_line(code, line):
                if code.co_filename not in targets:
                    return mon.DISABLE
                if yrng.random() < prob:
                    yields["n"] += 1
                    time.sleep(0)
            try:
                mon.use_tool_id(TOOL, "verif-yield")
                mon.register_callback(TOOL, mon.events.LINE, on_line)
                mon.set_events(TOOL, mon.events.LINE)
            except Exception:
                inject = False
        saved = dict(solvers.options)
        solvers.options.clear(); solvers.options.update(POISON)
        oldsw = sys.getswitchinterval()
        sys.setswitchinterval(1e-6)
        errs = []
        def work(t):
            tl.tid = t
            try:
                for i in range(per):
                    out[t][i] = run_frozen(calls[t][i], options=dict(specs[t][i][2]), kkt=kkts[t][i])
            except BaseException as e:
                errs.append(repr(e))
        try:
            ths = [threading.Thread(target=work, args=(t,)) for t in range(T)]
            for th in ths: th.start()
            for th in ths: th.join()
        finally:
            sys.setswitchinterval(oldsw)
            if inject and mon is not None:
                try:
                    mon.set_events(TOOL, 0); mon.register_callback(TOOL, mon.events.LINE, None); mon.free_tool_id(TOOL)
                    mon.restart_events()
                except Exception:
                    pass
            for nm, o in origs.items():
                setattr(misc, nm, o)
            solvers.options.clear(); solvers.options.update(saved)
        ctx.count("threads.runs")
        c.require(not errs, "threads:worker-exception", "exception in a solver thread: %r" % errs[:2])
        for t in range(T):
            for i in range(per):
                ctx.count("threads.results-compared")
                c.require(out[t][i] == seq[t][i], "threads:%s:result-differs-from-sequential" % specs[t][i][0],
                          "thread %d call %d (%s, options %r): concurrent result differs from the sequential one (%s vs %s)" %
                          (t, i, specs[t][i][0], specs[t][i][2], status_of(out[t][i]) if out[t][i] else None, status_of(seq[t][i])))
        sw = sum(1 for a, b in zip(trace, trace[1:]) if a != b)
        ctx.count("threads.context-switches-in-solver", sw)
        ctx.count("threads.kkt-events", len(trace))
        ctx.count("threads.yields-injected", yields["n"])
        sig = hashlib.sha1(bytes([x % 256 for x in trace])).hexdigest()[:12]
        c.desc.update({"monitor": "threads", "T": T, "per": per, "inject": inject, "switches": sw, "trace-signature": sig,
                       "homogeneous": homogeneous})
        c.cls("threads", "T%d" % T, "inj" if inject else "noinj", "homog" if homogeneous else "mixed", sig)

    for k in ctx.cases():
        ctx.run_case(k, {}, {"iso": iso, "hist": hist, "threads": threads_mon}[ctx.params.get("mon", "iso")])


def child_run(spec):
    """executed in a fresh interpreter: one call, frozen result"""
    ns = {}
    # reuse the machinery of run() without a harness: build a minimal context
    import types, random
    holder = {}
    class _Ctx:
        tier = "quick"; params = {"mon": "none"}; worker = 0
        def cases(self): return []
        def count(self, *a): pass
        def sample(self, *a): pass
        def run_case(self, *a): pass
    # run() defines Call/run_frozen as closures; extract them by executing run() with a hook
    import props.c09 as me
    src = open(me.__file__).read()
    start = src.index("def run(ctx):")
    end = src.index("    # ---------------------------------------------------------------- monitor: iso")
    body = src[start:end] + "\n    return Call, run_frozen\n"
    exec(compile(body, me.__file__, "exec"), ns)
    Call, run_frozen = ns["run"](_Ctx())
    e, s, o = spec
    from cvxopt import solvers
    return run_frozen(Call(e, s), options=dict(o))
