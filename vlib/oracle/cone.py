"""O-cone: numpy definition of the product cone  R^mnl_+ x R^l_+ x Q.. x S..,
written from doc/source/coneprog.rst.  's' blocks are column-major m x m and are
interpreted through their LOWER triangle only."""
import math
import numpy as np

EPS = 2.0 ** -53


class Dims:
    def __init__(self, l=0, q=(), s=(), mnl=0):
        self.mnl, self.l, self.q, self.s = int(mnl), int(l), [int(k) for k in q], [int(k) for k in s]

    @property
    def N(self):      # length in unpacked storage
        return self.mnl + self.l + sum(self.q) + sum(k * k for k in self.s)

    @property
    def Np(self):     # packed
        return self.mnl + self.l + sum(self.q) + sum(k * (k + 1) // 2 for k in self.s)

    @property
    def cdim_diag(self):
        return self.mnl + self.l + sum(self.q) + sum(self.s)

    def asdict(self):
        return {"l": self.l, "q": list(self.q), "s": list(self.s)}

    def blocks(self):
        """[(kind, start, size_or_order)] in storage order"""
        out, ind = [], 0
        if self.mnl:
            out.append(("nl", 0, self.mnl)); ind += self.mnl
        out.append(("l", ind, self.l)); ind += self.l
        for m in self.q:
            out.append(("q", ind, m)); ind += m
        for m in self.s:
            out.append(("s", ind, m)); ind += m * m
        return out

    def key(self):
        return "nl%d_l%d_q%s_s%s" % (self.mnl, self.l, "-".join(map(str, self.q)) or "x",
                                     "-".join(map(str, self.s)) or "x")

    def shape_class(self):
        kinds = []
        if self.mnl: kinds.append("nl")
        if self.l: kinds.append("l")
        if self.q: kinds.append("q")
        if self.s: kinds.append("s")
        deg = []
        if any(m == 1 for m in self.q): deg.append("q1")
        if any(m == 0 for m in self.s): deg.append("s0")
        if any(m == 1 for m in self.s): deg.append("s1")
        if len(self.s) > 1: deg.append("ss")
        if len(self.q) > 1: deg.append("qq")
        return "+".join(kinds or ["empty"]) + ("/" + ",".join(deg) if deg else "")


def matL(block, m):
    """symmetric matrix defined by the lower triangle of a column-major m*m block"""
    M = np.asarray(block, dtype=float).reshape((m, m), order="F")
    L = np.tril(M)
    return L + np.tril(M, -1).T


def vecF(M):
    return np.asarray(M, dtype=float).reshape(-1, order="F")


def sdot(u, v, dims):
    u = np.asarray(u, dtype=float).ravel(); v = np.asarray(v, dtype=float).ravel()
    a = 0.0
    for kind, st, m in dims.blocks():
        if kind == "s":
            a += float(np.sum(matL(u[st:st + m * m], m) * matL(v[st:st + m * m], m)))
        else:
            a += float(np.dot(u[st:st + m], v[st:st + m]))
    return a


def snrm2(u, dims):
    return math.sqrt(max(sdot(u, u, dims), 0.0))


def margin(u, dims):
    """largest t such that u - t e is in the cone (negative if u is outside).
    = - max_step(u).  Returns +inf for an empty cone."""
    u = np.asarray(u, dtype=float).ravel()
    t = [math.inf]
    for kind, st, m in dims.blocks():
        if kind in ("nl", "l"):
            if m: t.append(float(np.min(u[st:st + m])))
        elif kind == "q":
            if m: t.append(float(u[st] - np.linalg.norm(u[st + 1:st + m])))
        else:
            if m: t.append(float(np.linalg.eigvalsh(matL(u[st:st + m * m], m))[0]))
    return min(t)


def identity(dims):
    e = np.zeros(dims.N)
    for kind, st, m in dims.blocks():
        if kind in ("nl", "l"):
            e[st:st + m] = 1.0
        elif kind == "q":
            if m: e[st] = 1.0
        else:
            e[st:st + m * m] = vecF(np.eye(m))
    return e


def degree(dims):
    return dims.mnl + dims.l + len(dims.q) + sum(dims.s)


def symmetric_ok(u, dims):
    """are the 's' blocks exactly symmetric (bitwise)?"""
    u = np.asarray(u, dtype=float).ravel()
    for kind, st, m in dims.blocks():
        if kind == "s":
            M = u[st:st + m * m].reshape((m, m), order="F")
            if not np.array_equal(M, M.T):
                return False
    return True


def symmetrize(u, dims):
    """copy with the upper triangles of the 's' blocks filled from the lower"""
    u = np.array(u, dtype=float).ravel()
    for kind, st, m in dims.blocks():
        if kind == "s":
            u[st:st + m * m] = vecF(matL(u[st:st + m * m], m))
    return u


def random_interior(rng, dims, lo=0.2, hi=2.0, junk=False, nprng=None):
    """strictly interior point with margin in [lo, hi]; rng = random.Random"""
    u = np.zeros(dims.N)
    for kind, st, m in dims.blocks():
        if kind in ("nl", "l"):
            for i in range(m):
                u[st + i] = rng.uniform(lo, hi)
        elif kind == "q":
            if m:
                w = np.array([rng.gauss(0, 1) for _ in range(m - 1)])
                u[st + 1:st + m] = w
                u[st] = float(np.linalg.norm(w)) + rng.uniform(lo, hi)
        else:
            if m:
                B = np.array([[rng.gauss(0, 1) for _ in range(m)] for _ in range(m)])
                M = B @ B.T * rng.uniform(0.2, 1.0) + rng.uniform(lo, hi) * np.eye(m)
                M = (M + M.T) / 2
                if junk:
                    M = np.tril(M) + np.triu(np.array([[rng.uniform(-50, 50) for _ in range(m)]
                                                       for _ in range(m)]), 1)
                u[st:st + m * m] = vecF(M)
    return u


def random_vector(rng, dims, symmetric=True, scale=1.0):
    u = np.array([rng.gauss(0, scale) for _ in range(dims.N)])
    if symmetric:
        u = symmetrize(u, dims)
    return u


# ---------------------------------------------------------------------------
# Nesterov-Todd scaling: definition of W from the dictionary entries
# ---------------------------------------------------------------------------

def npW(W):
    """convert a cvxopt scaling dictionary to numpy pieces"""
    out = {}
    for k in ("dnl", "dnli", "d", "di"):
        if k in W:
            out[k] = np.array(list(W[k]), dtype=float)
    out["beta"] = [float(b) for b in W["beta"]]
    out["v"] = [np.array(list(v), dtype=float) for v in W["v"]]
    out["r"] = [np.array(list(r), dtype=float).reshape(r.size, order="F") for r in W["r"]]
    out["rti"] = [np.array(list(r), dtype=float).reshape(r.size, order="F") for r in W["rti"]]
    return out


def W_dims(Wn):
    return Dims(l=len(Wn["d"]), q=[len(v) for v in Wn["v"]], s=[r.shape[0] for r in Wn["r"]],
                mnl=len(Wn["dnl"]) if "dnl" in Wn else 0)


def W_apply(Wn, x, trans="N", inverse="N", use_rti=False):
    """definition of x -> W x, W' x, W^-1 x, W^-T x from (dnl, d, beta, v, r) ONLY
    (use_rti=False) -- di, dnli, rti are not trusted, they are checked separately.
    's' blocks: W u = vec(r' mat(u) r),  W' u = vec(r mat(u) r').
    Operates on the symmetric interpretation of x (lower triangle)."""
    x = np.asarray(x, dtype=float).ravel()
    dims = W_dims(Wn)
    y = np.zeros_like(x)
    for kind, st, m in dims.blocks():
        if kind in ("nl", "l"):
            d = Wn["dnl"] if kind == "nl" else Wn["d"]
            y[st:st + m] = x[st:st + m] * d if inverse == "N" else x[st:st + m] / d
    ind = dims.mnl + dims.l
    for k, v in enumerate(Wn["v"]):
        m = len(v)
        J = np.eye(m); J[1:, 1:] *= -1
        if m:
            J[0, 0] = 1.0
        H = Wn["beta"][k] * (2.0 * np.outer(v, v) - J)     # symmetric
        if inverse == "I":
            H = np.linalg.inv(H)
        y[ind:ind + m] = H @ x[ind:ind + m]
        ind += m
    for k, r in enumerate(Wn["r"]):
        m = r.shape[0]
        X = matL(x[ind:ind + m * m], m)
        if inverse == "N":
            Y = r.T @ X @ r if trans == "N" else r @ X @ r.T
        else:
            ri = np.linalg.inv(r) if m else r
            # W^-1 u = vec(r^-T mat(u) r^-1),  W^-T u = vec(r^-1 mat(u) r^-T)
            Y = ri.T @ X @ ri if trans == "N" else ri @ X @ ri.T
        y[ind:ind + m * m] = vecF(Y)
        ind += m * m
    return y


def W_matrix(Wn, trans="N", inverse="N"):
    """dense N x N matrix of the map on *symmetric* unpacked vectors"""
    dims = W_dims(Wn)
    N = dims.N
    M = np.zeros((N, N))
    for j in range(N):
        e = np.zeros(N); e[j] = 1.0
        M[:, j] = W_apply(Wn, e, trans, inverse)
    return M


def check_W_invariants(Wn, tol=1e-10):
    """documented invariants of a scaling dictionary; returns list of (key, measured)"""
    bad = []
    meas = {}
    for a, b in (("d", "di"), ("dnl", "dnli")):
        if a in Wn:
            d, di = Wn[a], Wn[b]
            if len(d) != len(di):
                bad.append(("W-" + a + "-length", 0)); continue
            if len(d):
                if not np.all(np.isfinite(d)) or not np.all(d > 0):
                    bad.append(("W-" + a + "-not-positive", float(np.min(d))))
                err = float(np.max(np.abs(d * di - 1.0))) if len(d) else 0.0
                meas[a + "*" + b + "-1"] = err
                if not err <= tol:
                    bad.append(("W-" + b + "-not-reciprocal", err))
    if len(Wn["beta"]) != len(Wn["v"]):
        bad.append(("W-beta-v-length", 0))
    for k, v in enumerate(Wn["v"]):
        b = Wn["beta"][k]
        if not (b > 0 and math.isfinite(b)):
            bad.append(("W-beta-not-positive", b))
        if len(v):
            if not v[0] > 0:
                bad.append(("W-v0-not-positive", float(v[0])))
            hyp = float(v[0] ** 2 - np.dot(v[1:], v[1:]))
            err = abs(hyp - 1.0) / max(1.0, float(np.dot(v, v)))
            meas["vJv-1"] = max(meas.get("vJv-1", 0.0), err)
            if not err <= tol:
                bad.append(("W-vJv-not-1", err))
    if len(Wn["r"]) != len(Wn["rti"]):
        bad.append(("W-r-rti-length", 0))
    for k, r in enumerate(Wn["r"]):
        rti = Wn["rti"][k]
        m = r.shape[0]
        if r.shape != rti.shape or r.shape[0] != r.shape[1]:
            bad.append(("W-r-shape", 0)); continue
        if m:
            P = r.T @ rti      # should be identity: rti = r^{-T}  <=>  r' rti = I
            err = float(np.max(np.abs(P - np.eye(m)))) / max(1.0, np.linalg.norm(r, 2) * np.linalg.norm(rti, 2))
            meas["r'rti-I"] = max(meas.get("r'rti-I", 0.0), err)
            if not np.all(np.isfinite(r)) or not err <= tol:
                bad.append(("W-rti-not-inverse-transpose", err))
    return bad, meas
