"""Planted smooth convex problems for cpl / cp / gp (DESIGN.md Appendix A,
'Nonlinear families').  The harness owns F, so it owns the truth about f:
numpy value/gradient/Hessian and the domain predicate are independent of
cvxopt; the cvxopt call-back is a thin wrapper that logs every call."""
import math
import numpy as np
from vlib.oracle import cone
from vlib.oracle.cone import Dims
from vlib.gen import coneprob as gp


class Quad:
    name = "quad"
    def __init__(self, Q, r, t=0.0):
        self.Q, self.r, self.t = Q, r, t
    def indom(self, x): return True
    def val(self, x): return float(0.5 * x @ self.Q @ x + self.r @ x - self.t)
    def grad(self, x): return self.Q @ x + self.r
    def hess(self, x): return self.Q


class NegLogAff:
    """-sum log(b - A x), domain A x < b"""
    name = "neglog"
    def __init__(self, A, b):
        self.A, self.b = A, b
    def indom(self, x): return bool(np.all(self.b - self.A @ x > 0))
    def val(self, x): return float(-np.sum(np.log(self.b - self.A @ x)))
    def grad(self, x): return self.A.T @ (1.0 / (self.b - self.A @ x))
    def hess(self, x):
        d = 1.0 / (self.b - self.A @ x)
        return self.A.T @ np.diag(d * d) @ self.A


class Entropy:
    """sum x_i log x_i + r'x, domain x > 0"""
    name = "entropy"
    def __init__(self, r):
        self.r = r
    def indom(self, x): return bool(np.all(x > 0))
    def val(self, x): return float(np.sum(x * np.log(x)) + self.r @ x)
    def grad(self, x): return np.log(x) + 1.0 + self.r
    def hess(self, x): return np.diag(1.0 / x)


class LSE:
    """log sum exp(F x + g) (+ shift)"""
    name = "lse"
    def __init__(self, F, g, shift=0.0):
        self.F, self.g, self.shift = F, g, shift
    def indom(self, x): return True
    def _p(self, x):
        u = self.F @ x + self.g
        m = float(np.max(u))
        e = np.exp(u - m)
        return m, e, float(np.sum(e))
    def val(self, x):
        m, e, s = self._p(x)
        return m + math.log(s) - self.shift
    def grad(self, x):
        m, e, s = self._p(x)
        return self.F.T @ (e / s)
    def hess(self, x):
        m, e, s = self._p(x)
        p = e / s
        return self.F.T @ (np.diag(p) - np.outer(p, p)) @ self.F


class Restricted:
    """fn with an artificially restricted convex domain (half-spaces and a ball)"""
    def __init__(self, fn, Hs, hs, centre, radius):
        self.fn, self.Hs, self.hs, self.centre, self.radius = fn, Hs, hs, centre, radius
        self.name = fn.name + "+restricted"
    def indom(self, x):
        return self.fn.indom(x) and bool(np.all(self.Hs @ x < self.hs)) and float(np.linalg.norm(x - self.centre)) < self.radius
    def val(self, x): return self.fn.val(x)
    def grad(self, x): return self.fn.grad(x)
    def hess(self, x): return self.fn.hess(x)


class Prox:
    """fn(x) + rho/2 ||x - centre||^2: a proximal step.  In the call-back handed to the solver the centre is read from
    the caller's start-point matrix on every call (make_F(live_centre=True)); the oracle's copy keeps the fixed centre."""
    def __init__(self, fn, centre, rho):
        self.fn, self.centre, self.rho = fn, np.array(centre, dtype=float), float(rho)
    def indom(self, x): return self.fn.indom(x)
    def val(self, x): return self.fn.val(x) + 0.5 * self.rho * float((x - self.centre) @ (x - self.centre))
    def grad(self, x): return self.fn.grad(x) + self.rho * (x - self.centre)
    def hess(self, x): return self.fn.hess(x) + self.rho * np.eye(len(x))


class Shifted:
    """fn - const (same domain and derivatives): moves the optimal value of a cp problem"""
    def __init__(self, fn, const):
        self.fn, self.const = fn, float(const)
        self.name = fn.name
    def indom(self, x): return self.fn.indom(x)
    def val(self, x): return self.fn.val(x) - self.const
    def grad(self, x): return self.fn.grad(x)
    def hess(self, x): return self.fn.hess(x)


class Translated:
    """u -> fn(t + u)"""
    def __init__(self, fn, t):
        self.fn, self.t = fn, np.array(t, dtype=float)
        self.name = fn.name
    def indom(self, u): return self.fn.indom(self.t + u)
    def val(self, u): return self.fn.val(self.t + u)
    def grad(self, u): return self.fn.grad(self.t + u)
    def hess(self, u): return self.fn.hess(self.t + u)


def zero_optimum(pr, entry, xsol, pstar):
    """Rewrite pr in place so that its optimal value is (approximately) zero: cp/gp objectives are shifted by the
    optimal value, a cpl problem (linear objective) is translated to u = x - xsol.  xsol/pstar come from a preliminary
    solve and only shape the instance; every verdict on the new instance is recomputed from its own data."""
    if entry == "cpl":
        t = np.array(xsol, dtype=float)
        pr.funcs = [Translated(f, t) for f in pr.funcs]
        pr.h = pr.h - pr.G @ t
        pr.b = pr.b - pr.A @ t
        pr.xs = pr.xs - t
        pr.x0 = pr.x0 - t
    elif entry == "gp":
        K0 = pr.K[0]
        pr.ggp = pr.ggp.copy(); pr.ggp[:K0] -= pstar
        f0 = pr.funcs[0]
        pr.funcs[0] = LSE(f0.F, f0.g - pstar)
    else:
        f0 = pr.funcs[0]
        if isinstance(f0, Quad):
            pr.funcs[0] = Quad(f0.Q, f0.r, f0.t + pstar)
        else:
            pr.funcs[0] = Shifted(f0, pstar)
    return pr


class NLProb:
    """minimize f0(x) (cp/gp) or c'x (cpl) s.t. f_k(x) <= 0, G x <=_K h, A x = b"""
    def __init__(self, **kw):
        self.__dict__.update(kw)

    def indom(self, x):
        return all(f.indom(x) for f in self.funcs)

    def fvals(self, x):
        return np.array([f.val(x) for f in self.funcs])

    def Df(self, x):
        return np.array([f.grad(x) for f in self.funcs]).reshape(len(self.funcs), self.n)

    def H(self, x, z):
        Hm = np.zeros((self.n, self.n))
        for zk, f in zip(z, self.funcs):
            Hm = Hm + zk * f.hess(x)
        return Hm

    def make_F(self, log, sparse_Df=False, sparse_H=False, scalar_f=False, none_style=0, keep_x0=False, live_centre=False):
        """cvxopt call-back.  log receives (kind, x, indom) for every call.
        keep_x0: F() returns the same caller-owned matrix object on every call (F.x0_object); a solver that
        uses it as its iterate overwrites the caller's start point."""
        from cvxopt import matrix, spmatrix, sparse
        prob = self
        x0_object = matrix([float(v) for v in prob.x0], (prob.n, 1)) if keep_x0 else None
        m = len(self.funcs)
        mret = m if self.kind == "cpl" else m - 1

        def mk(a, sp):
            a = np.asarray(a, dtype=float)
            M = matrix([float(v) for v in a.reshape(-1, order="F")], a.shape, "d") if a.size else matrix(0.0, a.shape)
            return sparse(M) if sp else M

        def F(x=None, z=None):
            if x is None:
                log.append(("start", None, True))
                if x0_object is not None:
                    return mret, x0_object
                return mret, matrix([float(v) for v in prob.x0], (prob.n, 1))
            xv = np.array(list(x), dtype=float)
            if live_centre and x0_object is not None and isinstance(prob.funcs[0], Prox):
                # the user's objective reads its prox centre from the matrix it handed out as start point
                fixed = prob.funcs[0].centre
                prob.funcs[0].centre = np.array(list(x0_object), dtype=float)
                try:
                    return F_inner(x, z, xv)
                finally:
                    prob.funcs[0].centre = fixed
            return F_inner(x, z, xv)

        def F_inner(x, z, xv):
            ind = prob.indom(xv)
            log.append(("F(x,z)" if z is not None else "F(x)", xv, ind))
            if not ind:
                if z is not None:
                    log.append(("VIOLATION-F(x,z)-outside-domain", xv, False))
                return None if none_style == 0 else (None, None)
            f = prob.fvals(xv)
            Df = prob.Df(xv)
            fm = matrix([float(v) for v in f], (m, 1)) if not (scalar_f and m == 1) else float(f[0])
            if z is None:
                return fm, mk(Df, sparse_Df)
            zv = np.array(list(z), dtype=float)
            Hm = prob.H(xv, zv)
            Hl = np.tril(Hm)          # only the lower triangle is documented to be used
            if prob.junkH is not None:
                Hl = Hl + np.triu(prob.junkH, 1)
            return fm, mk(Df, sparse_Df), mk(Hl, sparse_H)
        F.x0_object = x0_object
        return F


def _rand_pd(rng, n, lo=0.5, hi=2.0):
    B = gp.rand_orth(rng, n, n)
    return B @ np.diag([rng.uniform(lo, hi) for _ in range(n)]) @ B.T


def gen_linear(rng, n, xs, allow_cones=True, p=None):
    """linear cone constraints G x + s = h with xs strictly inside, equalities A xs = b"""
    if allow_cones and rng.random() < 0.5:
        d = gp.gen_dims(rng, rng.choice(["l", "lq", "ls", "lqs"]), maxl=3, maxq=3, maxs=2)
    else:
        d = Dims(rng.choice([0, 1, 2, 3]))
    if p is None:
        p = rng.choice([0, 0, 1]) if n > 1 else 0
    G = gp.unpack_iso(gp.rand_sv_matrix(rng, d.Np, n), d) if d.Np else np.zeros((0, n))
    ss = cone.symmetrize(cone.random_interior(rng, d, 0.3, 2.0), d)
    h = G @ xs + ss
    A = gp.rand_sv_matrix(rng, p, n, 0.5, 2.0)
    b = A @ xs
    return d, G, h, A, b


def gen_cp(rng, family=None):
    """strictly feasible convex problem with nonlinear objective (bounded below, minimiser exists)"""
    family = family or rng.choice(["quad", "neglog", "entropy", "lse"])
    n = rng.randint(1, 4)
    funcs = []
    if family == "entropy":
        xs = np.array([rng.uniform(0.5, 2.0) for _ in range(n)])
    else:
        xs = np.array([rng.uniform(-1.0, 1.0) for _ in range(n)])
    box = None
    if family == "quad":
        f0 = Quad(_rand_pd(rng, n), np.array([rng.uniform(-2, 2) for _ in range(n)]))
    elif family == "neglog":
        # bounded polytope: rows +-I plus random rows
        k = rng.randint(0, 2)
        Ad = np.vstack([np.eye(n), -np.eye(n)] + [np.array([[rng.gauss(0, 1) for _ in range(n)]]) for _ in range(k)])
        bd = Ad @ xs + np.array([rng.uniform(0.5, 2.0) for _ in range(Ad.shape[0])])
        f0 = NegLogAff(Ad, bd)
    elif family == "entropy":
        f0 = Entropy(np.array([rng.uniform(-1, 1) for _ in range(n)]))
        box = 6.0
    else:
        K = rng.randint(1, 4)
        f0 = LSE(np.array([[rng.gauss(0, 1) for _ in range(n)] for _ in range(K)]),
                 np.array([rng.uniform(-1, 1) for _ in range(K)]))
        box = 3.0
    funcs.append(f0)
    mnl = rng.choice([0, 0, 1, 2])
    for _ in range(mnl):
        Q = _rand_pd(rng, n, 0.5, 2.0) if rng.random() < 0.8 else np.zeros((n, n))
        r = np.array([rng.uniform(-1, 1) for _ in range(n)])
        t = float(0.5 * xs @ Q @ xs + r @ xs) + rng.uniform(0.3, 2.0)
        funcs.append(Quad(Q, r, t))
    d, G, h, A, b = gen_linear(rng, n, xs)
    if box is not None:     # keep the problem bounded: |x - xs|_inf <= box as extra 'l' rows
        Gb = np.vstack([np.eye(n), -np.eye(n)])
        hb = np.concatenate([xs + box, -xs + box])
        d = Dims(d.l + 2 * n, d.q, d.s)
        G = np.vstack([Gb, G]); h = np.concatenate([hb, h])
    pr = NLProb(kind="cp", family=family, n=n, funcs=funcs, dims=d, G=G, h=h, A=A, b=b, xs=xs, junkH=None)
    # start point: in dom f (documented requirement), not necessarily feasible
    pr.x0 = xs.copy()
    for _ in range(20):
        cand = xs + np.array([rng.uniform(-0.4, 0.4) for _ in range(n)])
        if pr.indom(cand):
            pr.x0 = cand
            break
    return pr


def gen_cpl(rng):
    """linear objective, 1..3 convex quadratic (ellipsoid) constraints -> bounded feasible set"""
    n = rng.randint(1, 4)
    xs = np.array([rng.uniform(-1, 1) for _ in range(n)])
    mnl = rng.randint(1, 3)
    funcs = []
    for k in range(mnl):
        Q = _rand_pd(rng, n, 0.5, 2.0) if (k == 0 or rng.random() < 0.7) else np.zeros((n, n))
        r = np.array([rng.uniform(-1, 1) for _ in range(n)])
        t = float(0.5 * xs @ Q @ xs + r @ xs) + rng.uniform(0.3, 2.0)
        funcs.append(Quad(Q, r, t))
    d, G, h, A, b = gen_linear(rng, n, xs)
    c = np.array([rng.uniform(-2, 2) for _ in range(n)])
    pr = NLProb(kind="cpl", family="cpl-quad", n=n, funcs=funcs, dims=d, G=G, h=h, A=A, b=b, xs=xs, c=c, junkH=None)
    pr.x0 = xs + np.array([rng.uniform(-0.5, 0.5) for _ in range(n)])
    return pr


def gen_gp(rng, steep=False):
    """geometric program in convex form, strictly feasible, bounded (box).
    steep: 4..8 variables and exponents N(0, 4..8): the merit function of cpl then varies over many orders of magnitude
    inside the box, which is what drives cpl through its relaxed line-search state machine (series saved, resumed,
    ended) - about 7% of such programs reach the 'resume last saved line search' branch, against < 0.1% of the tame ones."""
    n = rng.randint(4, 8) if steep else rng.randint(1, 3)
    sig = rng.choice([4.0, 6.0, 8.0]) if steep else 1.0
    xs = np.array([rng.uniform(-1, 1) for _ in range(n)]) if not steep else np.zeros(n)
    m = rng.choice([1, 2, 3]) if steep else rng.choice([0, 1, 2])
    K, Fs, gs, funcs = [], [], [], []
    for i in range(m + 1):
        Ki = rng.randint(1, 4) if steep else rng.randint(1, 3)
        Fi = np.array([[rng.gauss(0, sig) for _ in range(n)] for _ in range(Ki)])
        gi = np.array([rng.uniform(-1, 1) for _ in range(Ki)])
        if i > 0:
            # make f_i(xs) = -margin: shift g
            v = LSE(Fi, gi).val(xs)
            gi = gi - v - rng.uniform(0.3, 1.5)
        K.append(Ki); Fs.append(Fi); gs.append(gi); funcs.append(LSE(Fi, gi))
    box = rng.uniform(1.5, 3.0) if steep else 3.0
    Gb = np.vstack([np.eye(n), -np.eye(n)])
    hb = np.concatenate([xs + box, -xs + box])
    k2 = 0 if steep else rng.choice([0, 1, 2])
    Ge = np.array([[rng.gauss(0, 1) for _ in range(n)] for _ in range(k2)]).reshape(k2, n)
    he = Ge @ xs + np.array([rng.uniform(0.3, 2) for _ in range(k2)])
    G = np.vstack([Gb, Ge]); h = np.concatenate([hb, he])
    p = 0 if steep else (rng.choice([0, 0, 1]) if n > 1 else 0)
    A = gp.rand_sv_matrix(rng, p, n, 0.5, 2.0); b = A @ xs
    pr = NLProb(kind="cp", family="gp-steep" if steep else "gp", n=n, funcs=funcs, dims=Dims(G.shape[0]), G=G, h=h, A=A, b=b, xs=xs, junkH=None,
                K=K, Fgp=np.vstack(Fs), ggp=np.concatenate(gs))
    pr.x0 = np.zeros(n)
    return pr
