"""Branch observation inside a pure-Python function of the code under test, without editing it.

`BranchMonitor(func, {"name": "text that occurs on a comment or code line of the branch"})` locates, in the *source of
the running build*, the first executable line at or after each marker and counts how often it is executed
(sys.monitoring LINE events restricted to func's code object; all other lines DISABLE themselves after their first
event, so the cost is negligible).  A marker that cannot be found is reported in `.missing` - the caller turns that
into a counter so that a renamed comment makes the coverage claim disappear instead of silently reading zero."""
import sys, inspect

TOOL_ID = 4


class BranchMonitor(object):
    def __init__(self, func, markers):
        self.func = func
        self.code = func.__code__
        self.lines = {}
        self.missing = []
        self.hits = {}
        self.on = False
        try:
            src, start = inspect.getsourcelines(func)
        except (OSError, TypeError):
            self.missing = list(markers); return
        for name, text in markers.items():
            found = None
            for i, l in enumerate(src):
                if text in l:
                    j = i
                    while j < len(src) and (not src[j].strip() or src[j].strip().startswith("#")):
                        j += 1
                    if j < len(src):
                        found = start + j
                    break
            if found is None:
                self.missing.append(name)
            else:
                self.lines[found] = name

    def start(self):
        mon = getattr(sys, "monitoring", None)
        if mon is None or not self.lines:
            return False
        try:
            mon.use_tool_id(TOOL_ID, "verif-branch")
        except ValueError:
            pass
        lines, hits, DISABLE = self.lines, self.hits, mon.DISABLE

        def on_line(code, line):
            n = lines.get(line)
            if n is None:
                return DISABLE
            hits[n] = hits.get(n, 0) + 1
        mon.register_callback(TOOL_ID, mon.events.LINE, on_line)
        mon.set_local_events(TOOL_ID, self.code, mon.events.LINE)
        self.on = True
        return True

    def take(self):
        """hits since the last take()"""
        h = dict(self.hits)
        self.hits.clear()
        return h

    def stop(self):
        mon = getattr(sys, "monitoring", None)
        if mon is not None and self.on:
            mon.set_local_events(TOOL_ID, self.code, 0)
            mon.register_callback(TOOL_ID, mon.events.LINE, None)
            try:
                mon.free_tool_id(TOOL_ID)
            except Exception:
                pass
        self.on = False


CPL_MARKERS = {
    "resume-saved-line-search": "Resume last saved line search",
    "relaxed-series-ends-ok": "Series of relaxed line searches ends",
    "relaxed-step-sufficient": "Relaxed l.s. gives sufficient decrease",
    "relaxed-series-saved": "# Save state.",
    "restore-after-failed-factorization": "The arithmetic error may be caused by a relaxed line",
}
