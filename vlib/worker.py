"""Worker entry point: python -m vlib.worker PROP --seed S --tier T --worker i ..."""
import sys, os, argparse, importlib, json, faulthandler


def main():
    ap = argparse.ArgumentParser()
    ap.add_argument("prop")
    ap.add_argument("--seed", type=int, default=0)
    ap.add_argument("--tier", default="quick")
    ap.add_argument("--worker", type=int, default=0)
    ap.add_argument("--nworkers", type=int, default=1)
    ap.add_argument("--cases", type=int, default=10)
    ap.add_argument("--variant", default="plain")
    ap.add_argument("--journal", required=True)
    ap.add_argument("--only", type=int, default=None)
    ap.add_argument("--params", default="{}")
    a = ap.parse_args()
    faulthandler.enable()
    from vlib.harness import Ctx
    mod = importlib.import_module("props." + a.prop.lower())
    ctx = Ctx(a.prop, a.seed, a.tier, a.worker, a.nworkers, a.cases, a.variant, a.journal,
              only=a.only, params=json.loads(a.params))
    try:
        mod.run(ctx)
    finally:
        ctx.finish()


if __name__ == "__main__":
    main()
