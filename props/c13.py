"""C13  An op object stays consistent under any sequence of edits.

A 20-line sequential model (objective, [constraints in insertion order]) is run
next to a real cvxopt.modeling.op through random histories of addconstraint,
delconstraint, objective reassignment and solve."""

LEVEL = "exploration"
TECHNIQUE = "model-based testing of op against a sequential list model, with a freshly constructed op as solve oracle"
LEVEL_TEXT = ("random edit histories (<= 25 steps) over a pool of 3-4 variables, 8-12 constraints and 4 objectives; "
              "after every step variables()/constraints()/inequalities()/equalities() are compared with the model and "
              "checked to be copies; every solve is compared with a fresh op built from the model")
RULE = ("each case = one history; every step is one oracle evaluation of the bookkeeping, every solve one of the "
        "fresh-op comparison. distinct = multiset of step kinds x which mechanism classes occurred "
        "(shared variable deleted, objective-only variable, constant-only constraint, duplicate add)")
ASSUMPTIONS = [
    "'the variables of the problem' = union of objective.variables() and c.variables() of the current constraints (identity)",
    "the order of the returned lists is not specified by the manual and not compared",
    "adding a member twice may keep one or two entries (unspecified); whichever the op shows is taken into the model and must then stay consistent",
    "deleting a non-member may be ignored or refused with ValueError/KeyError/LookupError (unspecified); the bookkeeping must not change",
    "solves are compared with the fresh op only on problems that are well posed by construction (every variable boxed on both sides, at most one equality constraint, no constant-only equality): solvers.lp documents the rank conditions and an unbounded or rank-deficient problem has no unique outcome",
    "status 'unknown' or the documented rank-deficiency ValueError of solvers.lp on only one side of a solve comparison is counted, not judged",
]
STEPS = ["add", "del-member", "del-nonmember", "add-twice", "objective", "objective-inplace", "objective-rejected", "solve"]
REQUIRED_COUNTERS = ["step." + s for s in STEPS] + [
    "check.variables", "check.lists", "check.copies", "check.solve-vs-fresh", "check.values-after-solve", "solve.optimal",
    "mech.del-last-user-of-variable", "mech.del-shared-variable", "mech.del-multi-variable-constraint",
    "mech.objective-only-variable", "mech.objective-inplace-brings-new-variable", "mech.constant-only-constraint", "mech.objective-variable-also-constrained"]


def plan(tier):
    if tier == "thorough":
        return [{"variant": "plain", "workers": 16, "cases": 12000}]
    return [{"variant": "plain", "workers": 8, "cases": 90}]


def run(ctx):
    import numpy as np
    import cvxopt.modeling as M
    from cvxopt import matrix, spmatrix, solvers
    solvers.options["show_progress"] = False
    R = 10.0

    class Model:                       # the sequential specification
        def __init__(self, obj, cons):
            self.obj, self.cons = obj, list(cons)
        def add(self, c):
            self.cons.append(c)
        def delete(self, c):
            for i, d in enumerate(self.cons):
                if d is c:
                    del self.cons[i]
                    return True
            return False
        def ineqs(self):
            return [c for c in self.cons if c.type() == "<"]
        def eqs(self):
            return [c for c in self.cons if c.type() == "="]
        def variables(self, objf):
            out = {}
            for f in [objf] + self.cons:
                for v in f.variables():
                    out[id(v)] = v
            return out

    def rmat(rng, m, n, sparse=False):
        vals = [rng.choice([1.0, -1.0, 2.0, 0.5, round(rng.uniform(-2, 2), 1)]) for _ in range(m * n)]
        A = matrix(vals, (m, n))
        if sparse:
            from cvxopt import sparse as sp
            A = sp(A)
        return A

    def make_pool(rng):
        nv = rng.randint(3, 4)
        vs = [M.variable(rng.randint(1, 3), "v%d" % i) for i in range(nv)]
        x0 = [matrix([round(rng.uniform(-3, 3), 1) for _ in range(len(v))]) for v in vs]
        val = lambda f: f.value()
        for v, x in zip(vs, x0):
            v.value = x
        pool, desc = [], []

        def put(c, text, tags=()):
            c.name = "k%d" % len(pool)
            pool.append((c, text, set(tags)))
        # boxes (one or two constraints per variable)
        for i, v in enumerate(vs):
            if rng.random() < 0.5:
                put(v <= R, "v%d <= 10" % i, ["box", "boxu%d" % i]); put(v >= -R, "v%d >= -10" % i, ["box", "boxl%d" % i])
            else:
                I = matrix(0.0, (2 * len(v), len(v)))
                for k in range(len(v)):
                    I[k, k] = 1.0; I[len(v) + k, k] = -1.0
                put(I * v <= R, "[I;-I]*v%d <= 10" % i, ["box", "boxu%d" % i, "boxl%d" % i])
        ncons = rng.randint(4, 7)
        kinds = ["lin1", "lin2", "lin2", "idx2", "eq1", "eq2", "abs2", "max1", "const", "sum2", "lin3", "lin1"]
        for _ in range(ncons):
            k = rng.choice(kinds)
            i, j = rng.sample(range(nv), 2)
            v, w = vs[i], vs[j]
            m = rng.randint(1, 3)
            mg = round(rng.uniform(0.5, 2.0), 1)
            if k == "lin1":
                f = rmat(rng, m, len(v), rng.random() < 0.3) * v
                put(f <= val(f) + mg, "A*v%d <= h" % i)
            elif k == "lin2":
                f = rmat(rng, m, len(v)) * v + rmat(rng, m, len(w), rng.random() < 0.3) * w
                put(f <= val(f) + mg, "A*v%d + B*v%d <= h" % (i, j), ["multi"])
            elif k == "lin3" and nv >= 3:
                l = [t for t in range(nv) if t not in (i, j)][0]
                f = rmat(rng, 1, len(v)) * v + rmat(rng, 1, len(w)) * w - rmat(rng, 1, len(vs[l])) * vs[l]
                put(f >= val(f) - mg, "a'v%d + b'v%d - c'v%d >= h" % (i, j, l), ["multi"])
            elif k == "idx2":
                f = v[rng.randrange(len(v))] + 2 * w[rng.randrange(len(w))]
                put(f >= val(f) - mg, "v%d[a] + 2*v%d[b] >= h" % (i, j), ["multi"])
            elif k == "eq1":
                f = M.sum(v) if len(v) > 1 else 2 * v
                put(f == val(f), "sum(v%d) == b" % i, ["eq", "eqsig:sum%d" % i])
            elif k == "eq2":
                f = rmat(rng, 1, len(v)) * v - w[0]
                put(f == val(f), "a'v%d - v%d[0] == b" % (i, j), ["eq", "multi", "eqsig:pair%d-%d" % (min(i, j), max(i, j))])
            elif k == "abs2":
                f = abs(v) - M.sum(w)
                put(f <= val(f) + mg, "abs(v%d) - sum(v%d) <= h" % (i, j), ["multi", "pwl"])
            elif k == "max1":
                f = M.max(v, 0.5) if len(v) > 1 else abs(v)
                put(f <= val(f) + mg, "max(v%d, 0.5) <= h" % i, ["pwl"])
            elif k == "sum2":
                f = M.sum(v) + M.sum(w)
                put(f <= val(f) + mg, "sum(v%d) + sum(v%d) <= h" % (i, j), ["multi"])
            else:
                if rng.random() < 0.7:
                    put(0 * v + 1.0 <= 2.0, "0*v%d + 1 <= 2" % i, ["const"])
                else:
                    put(0 * v[0] + 1.0 == 1.0, "0*v%d[0] + 1 == 1" % i, ["const", "eq"])
        if rng.random() < 0.4:
            # one constraint that contradicts the box of its variable: histories that contain it (and the box) are
            # primal infeasible, so a later solve has to REPLACE the values of an earlier optimal solve by None
            i = rng.randrange(nv)
            put(vs[i][0] <= -R - 5.0, "v%d[0] <= -15" % i, ["contra"])
            ctx.count("pool.contradiction")
        for v in vs:
            v.value = None
        # objectives: affine on two variables, PWL, a scalar variable / constant, one on the last variable only
        objs = []
        a, b = rng.sample(range(nv), 2)
        objs.append((rmat(rng, 1, len(vs[a])) * vs[a] + rmat(rng, 1, len(vs[b])) * vs[b] + 1.5, "a'v%d + b'v%d + 1.5" % (a, b)))
        objs.append((M.sum(abs(vs[a])) + M.max(vs[b]) if len(vs[b]) > 1 else M.sum(abs(vs[a])) + abs(vs[b]), "sum(abs(v%d)) + max(v%d)" % (a, b)))
        sc = [v for v in vs if len(v) == 1]
        if sc and rng.random() < 0.6:
            objs.append((sc[0], "scalar variable %s" % sc[0].name))
        else:
            objs.append((rng.choice([0.0, 2.5, 3]), "constant"))
        objs.append((M.sum(vs[-1]) * rng.choice([1.0, -1.0]), "+-sum(v%d)" % (nv - 1)))
        objs.append((M.dot(matrix([1.0] * len(vs[0])), vs[0]), "dot(1, v0)"))
        return vs, pool, objs

    def as_function(o):
        if type(o) is M.variable:
            return +o
        if isinstance(o, (int, float)):
            class _C:
                @staticmethod
                def variables():
                    return []
            return _C
        return o

    def outcome(p):
        try:
            p.solve()
        except Exception as e:
            return ("exc", type(e).__name__)
        val = None
        if p.status == "optimal":
            try:
                val = float(p.objective.value()[0])
            except Exception as e:
                return ("exc-in-objective-value", type(e).__name__)
        return ("status", p.status, val)

    def one(c):
        rng = c.rng
        vs, pool, objs = make_pool(rng)
        names = {id(v): v.name for v in vs}
        hist = ["pool: " + "; ".join("k%d: %s" % (i, t) for i, (_, t, _) in enumerate(pool)),
                "objectives: " + "; ".join("o%d: %s" % (i, t) for i, (_, t) in enumerate(objs))]
        c.desc["history"] = hist
        # ---- construction
        oi = rng.randrange(len(objs))
        boxes = [i for i, (_, _, tg) in enumerate(pool) if "box" in tg]
        init = [i for i in boxes if rng.random() < 0.8] + [i for i in range(len(pool)) if i not in boxes and rng.random() < 0.3]
        rng.shuffle(init)
        how = rng.choice(["list", "list", "list", "empty", "single"])
        try:
            if how == "empty":
                p = M.op(); init = []; cur_obj = 0.0
                hist.append("p = op()")
            elif how == "single" and init:
                init = init[:1]
                p = M.op(objs[oi][0], pool[init[0]][0]); cur_obj = objs[oi][0]
                hist.append("p = op(o%d, k%d)" % (oi, init[0]))
            else:
                p = M.op(objs[oi][0], [pool[i][0] for i in init]); cur_obj = objs[oi][0]
                hist.append("p = op(o%d, [%s])" % (oi, ", ".join("k%d" % i for i in init)))
        except Exception as e:
            c.check(); c.fail("op:constructor-%s" % type(e).__name__, str(e)); return
        model = Model(cur_obj, [pool[i][0] for i in init])
        kinds_seen, mechs = [], set()

        def users(v, skip=None):
            n = 0
            for d in model.cons:
                if d is not skip and any(w is v for w in d.variables()):
                    n += 1
            return n

        def compare(step):
            """bookkeeping of p against the model; False stops the history"""
            objf = as_function(model.obj)
            ok = True
            ctx.count("check.variables")
            want = model.variables(objf)
            got = p.variables()
            gid = [id(v) for v in got]
            if not c.require(len(gid) == len(set(gid)) and set(gid) == set(want), step + ":variables-differ-from-model",
                             "variables() = %s, objective and constraints use %s"
                             % (sorted(names.get(i, "?") for i in gid), sorted(names[i] for i in want)),
                             private=sorted(names.get(id(v), "?") + ":" + "".join(k for k in "o" if d["o"]) + "i%d" % len(d["i"]) + "e%d" % len(d["e"])
                                            for v, d in getattr(p, "_variables", {}).items())):
                ok = False
            ctx.count("check.lists")
            for name, gotl, wantl in (("inequalities", p.inequalities(), model.ineqs()), ("equalities", p.equalities(), model.eqs()),
                                      ("constraints", p.constraints(), model.cons)):
                if not c.require(sorted(map(id, gotl)) == sorted(map(id, wantl)), "%s:%s-differ-from-model" % (step, name),
                                 "%s() = %s, model %s" % (name, [d.name for d in gotl], [d.name for d in wantl])):
                    ok = False
            ctx.count("check.copies")
            for name in ("variables", "inequalities", "equalities", "constraints"):
                l1 = getattr(p, name)()
                n1 = list(map(id, l1))
                l1.append(None); del l1[:1]
                n2 = list(map(id, getattr(p, name)()))
                if not c.require(n1 == n2, "%s-returns-internal-list" % name, "mutating the list returned by %s() changed the problem" % name):
                    ok = False
            return ok

        if not compare("constructor"):
            return
        nsteps = rng.randint(5, 25)
        for s in range(nsteps):
            members = list(model.cons)
            nonmembers = [i for i, (d, _, _) in enumerate(pool) if not any(d is m for m in members)]
            kind = rng.choice(["add"] * 7 + ["del-member"] * 5 + ["del-nonmember"] * 2 + ["add-twice"] * 1 + ["objective"] * 3 + ["objective-inplace"] * 2 + ["objective-rejected"] * 1 + ["solve"] * 4)
            if kind == "add" and not nonmembers:
                kind = "del-member"
            if kind in ("del-member", "add-twice") and not members:
                kind = "add" if nonmembers else "objective"
            if kind == "del-nonmember" and not nonmembers:
                kind = "solve"
            ctx.count("step." + kind)
            kinds_seen.append(kind)
            try:
                if kind == "add":
                    i = rng.choice(nonmembers)
                    hist.append("p.addconstraint(k%d)" % i)
                    if "const" in pool[i][2]:
                        mechs.add("constant-only-constraint"); ctx.count("mech.constant-only-constraint")
                    p.addconstraint(pool[i][0]); model.add(pool[i][0])
                elif kind == "del-member":
                    nonbox = [m for m in members if not any(m is q_ and "box" in tg for q_, _, tg in pool)]
                    d = rng.choice(nonbox) if nonbox and rng.random() < 0.7 else rng.choice(members)
                    hist.append("p.delconstraint(%s)" % d.name)
                    dv = d.variables()
                    objv = as_function(model.obj).variables()
                    if len(dv) > 1:
                        ctx.count("mech.del-multi-variable-constraint")
                    if not dv:
                        mechs.add("constant-only-constraint"); ctx.count("mech.constant-only-constraint")
                    for v in dv:
                        inobj = any(w is v for w in objv)
                        if users(v, skip=d) == 0 and not inobj and sum(1 for m in members if m is d) == 1:
                            mechs.add("last-user"); ctx.count("mech.del-last-user-of-variable")
                        elif users(v, skip=d) > 0:
                            mechs.add("shared"); ctx.count("mech.del-shared-variable")
                        if inobj:
                            ctx.count("mech.objective-variable-also-constrained")
                    p.delconstraint(d); model.delete(d)
                elif kind == "del-nonmember":
                    i = rng.choice(nonmembers)
                    hist.append("p.delconstraint(k%d)  # not in the problem" % i)
                    try:
                        p.delconstraint(pool[i][0])
                    except (ValueError, LookupError):
                        ctx.count("del-nonmember.refused")
                elif kind == "add-twice":
                    d = rng.choice(members)
                    hist.append("p.addconstraint(%s)  # already in the problem" % d.name)
                    n0 = sum(1 for m in p.constraints() if m is d)
                    p.addconstraint(d)
                    n1 = sum(1 for m in p.constraints() if m is d)
                    mechs.add("duplicate")
                    if not c.require(n1 in (n0, n0 + 1), "addconstraint:duplicate-count", "count of the constraint went %d -> %d" % (n0, n1)):
                        return
                    if n1 == n0 + 1:
                        model.add(d)
                elif kind == "objective":
                    j = rng.randrange(len(objs))
                    hist.append("p.objective = o%d" % j)
                    old = as_function(model.obj).variables()
                    if any(users(v) == 0 for v in old) or any(users(v) == 0 for v in as_function(objs[j][0]).variables()):
                        mechs.add("objective-only"); ctx.count("mech.objective-only-variable")
                    p.objective = objs[j][0]; model.obj = objs[j][0]
                elif kind == "objective-rejected":
                    # an objective the op must refuse (not a scalar convex function): TypeError, and nothing else changes
                    longv = [v for v in vs if len(v) > 1]
                    cand = [("a string", "abc")] + ([("a vector variable", longv[0]), ("a vector function", 2.0 * longv[0] + 1.0)] if longv else []) + \
                           [("a concave function", -abs(vs[0][0]))]
                    label_, bad_ = rng.choice(cand)
                    hist.append("p.objective = <%s>  # must be refused" % label_)
                    try:
                        p.objective = bad_
                        c.check(); c.fail("objective-rejected:accepted", "op.objective accepted %s" % label_); return
                    except TypeError:
                        ctx.count("mech.objective-assignment-refused")
                elif kind == "objective-inplace":
                    # p.objective += t / -= t: Python reads the attribute, applies the in-place operator to what it got
                    # (possibly mutating the stored function) and assigns the result back through the setter
                    iv = rng.randrange(len(vs))
                    v_ = vs[iv]
                    coef = rng.choice([2.0, -1.5, 1.0])
                    sign = rng.choice(["+=", "-="])
                    term = coef * v_[rng.randrange(len(v_))]
                    hist.append("p.objective %s %g*v%d[k]" % (sign, coef, iv))
                    base_ = +model.obj if type(model.obj) is M.variable else model.obj
                    exp_obj = (base_ + term) if sign == "+=" else (base_ - term)
                    if users(v_) == 0 and not any(w is v_ for w in as_function(model.obj).variables()):
                        mechs.add("objective-inplace-new-variable"); ctx.count("mech.objective-inplace-brings-new-variable")
                    if sign == "+=":
                        p.objective += term
                    else:
                        p.objective -= term
                    model.obj = exp_obj
                else:
                    hist.append("p.solve()")
                    # the values left by earlier solves of this history stay in place: solve() has to overwrite them
                    # (with the new solution, or with None when there is none)
                    stale_ = [v for v in vs if v.value is not None]
                    a = outcome(p)
                    if a[0] == "status" and a[1] in ("optimal", "primal infeasible"):
                        ctx.count("check.values-after-solve")
                        mine = [v for v in p.variables()]
                        if a[1] == "primal infeasible":
                            c.require(all(v.value is None for v in mine), "solve:primal-infeasible-but-variable-keeps-an-old-value",
                                      "status 'primal infeasible' but %r still have values (%d had values before the call)" %
                                      ([v.name for v in mine if v.value is not None], len(stale_)))
                        else:
                            c.require(all(v.value is not None for v in mine), "solve:optimal-but-variable-None", "optimal, value None")
                    for v in vs:
                        v.value = None
                    try:
                        fresh = M.op(model.obj, list(model.cons))
                        b = outcome(fresh)
                    except Exception as e:
                        b = ("fresh-constructor-exc", type(e).__name__)
                    # judged only on problems that are well posed by construction (rank conditions of solvers.lp,
                    # bounded feasible set): every variable of the model has both sides of its box among the
                    # constraints, the equalities are pairwise different kinds, none is constant-only
                    tagsof = lambda d: [tg for q_, _, tg in pool if q_ is d][0]
                    alltags = [tagsof(d) for d in model.cons]
                    have = set(t_ for tg in alltags for t_ in tg)
                    mv = model.variables(as_function(model.obj))
                    boxed = all(("boxu%d" % i in have and "boxl%d" % i in have) for i, v in enumerate(vs) if id(v) in mv)
                    eqs = [tg for tg in alltags if "eq" in tg]
                    sigs = [t_ for tg in eqs for t_ in tg if t_.startswith("eqsig:")]
                    eqvars = set()
                    for t_ in sigs:
                        eqvars |= set(t_.split(":")[1].replace("sum", "").replace("pair", "").split("-"))
                    posed = boxed and not any("const" in tg for tg in eqs) and len(sigs) == len(eqs) and len(set(sigs)) == len(sigs) \
                        and len(sigs) <= 1
                    if not posed:
                        ctx.count("solve.not-well-posed-by-construction")
                        if a[:2] != b[:2] or (a[0] == "status" and a[1] == "optimal" and abs(a[2] - b[2]) > 1e-5 * max(1.0, abs(b[2]))):
                            ctx.count("solve.not-well-posed.differs")
                        a = b = ("skipped",)
                    else:
                        ctx.count("check.solve-vs-fresh")
                    if a[0] == "status" and a[1] == "optimal":
                        ctx.count("solve.optimal")
                    if a[0] == "skipped":
                        continue
                    if a[0] == "status":
                        ctx.count("solve.status." + a[1].replace(" ", "-"))
                    else:
                        ctx.count("solve.exception." + a[1])
                    c.check()
                    unk = (a[0] == "status" and a[1] == "unknown") or (b[0] == "status" and b[1] == "unknown")
                    # solvers.lp documents ValueError for rank-deficient problems; whether a singular KKT matrix
                    # is noticed depends on the order of rows/columns, so a one-sided ValueError is not judged
                    rank = (a[:2] == ("exc", "ValueError")) != (b[:2] == ("exc", "ValueError"))
                    if rank and a[:2] != b[:2]:
                        ctx.count("solve.rank-error-one-side")
                    elif unk and a[:2] != b[:2]:
                        ctx.count("solve.unknown-one-side")
                    elif a[:2] != b[:2]:
                        c.fail("solve:edited-op-differs-from-fresh-op", "edited op: %r, fresh op from the model: %r" % (a, b))
                        return
                    elif a[0] == "status" and a[1] == "optimal":
                        err = abs(a[2] - b[2]) / max(1.0, abs(b[2]))
                        ctx.maxobs("solve.value-vs-fresh", err)
                        if not c.require(err <= 1e-5, "solve:edited-op-value-differs-from-fresh-op", "edited %r fresh %r" % (a, b)):
                            return
            except Exception as e:
                import traceback
                c.check()
                where = traceback.extract_tb(e.__traceback__)[-1].name
                key = "%s:undocumented-%s" % (where, type(e).__name__)
                if where == "delconstraint" and isinstance(e, UnboundLocalError):
                    key = "delconstraint:constant-only-UnboundLocalError"
                c.fail(key, "step %d (%s) raised %s: %s" % (s, hist[-1], type(e).__name__, e))
                return
            step = {"add": "addconstraint", "del-member": "delconstraint", "del-nonmember": "delconstraint-nonmember",
                    "add-twice": "addconstraint-twice", "objective": "objective-assignment", "objective-inplace": "objective-inplace", "objective-rejected": "objective-rejected", "solve": "solve"}[kind]
            nf = len(c.failed)
            if not compare(step):
                # name the mechanism of the two known-by-reading shapes (diagnostic only)
                for f in c.failed[nf:]:
                    if f["key"] == "delconstraint:variables-differ-from-model":
                        try:
                            want = model.variables(as_function(model.obj))
                            objv = as_function(model.obj).variables()
                            extra = [v for v in p.variables() if id(v) not in want]
                            have = set(id(v) for v in p.variables())
                            if any(i not in have for i in want):
                                f["key"] = "delconstraint:variable-dropped-while-still-used"
                                continue
                            f["key"] = "delconstraint:variable-not-collected"
                            if extra and all(p._variables[v]["o"] and not any(w is v for w in objv) for v in extra):
                                f["key"] = "delconstraint:stale-objective-flag-keeps-variable"
                        except Exception:
                            pass
                return
        c.cls("".join(sorted(set(k[0] + k[-1] for k in kinds_seen))), "+".join(sorted(mechs)), how)
        if c.k < 2:
            ctx.sample({"history": hist[:12]})

    for k in ctx.cases():
        ctx.run_case(k, {}, one)
