"""C10  Numerical failures inside a solve are contained and reported as documented."""
LEVEL = "fault_enumeration"
EXHAUSTIVE = True
TECHNIQUE = ("runtime fault injection through the public kktsolver=/F= extension points: for every sampled problem the index of the failing "
             "factor() call and of the failing solve() call is enumerated exhaustively over all calls of the fault-free run; outcome classifier "
             "{documented rank ValueError in start-up/iteration 0, 'unknown' with consistent fields and interior iterates, certified result}")
LEVEL_TEXT = ("exhaustive over the fault index (every KKT factor/solve call of the fault-free trace, one-shot and persistent) for each sampled "
              "problem; the problems, and the refusal patterns of domain-restricted F, are sampled")
RULE = ("problem sample: planted feasible cone LPs/QPs and smooth problems; per problem all F factor indices (one-shot + persistent) and all S solve "
        "indices are injected; class signature = solver x start kind x fault site x tag(startup/iteration 0/later) x outcome class")
ASSUMPTIONS = ["the fault model is ArithmeticError raised by the user-visible KKT call-back at a chosen call (what a singular factorisation produces)",
               "exhaustive: true refers to the injection index per sampled problem, not to the problems",
               "'during start-up and the first iteration it raises the documented ValueError': demanded for every start-up call, for iteration 0 of "
               "coneqp/cpl/cp, and for iteration 0 of conelp when both start points are supplied (then it is the first use of the KKT system); "
               "conelp answers 'unknown' for an iteration-0 failure that follows a successful start-up factorisation - both outcomes are accepted there"]
REQUIRED_COUNTERS = ["inject.conelp.factor", "inject.conelp.solve", "inject.coneqp.factor", "inject.coneqp.solve", "inject.cpl.factor",
                     "inject.cpl.solve", "inject.cp.factor", "inject.cp.solve", "outcome.unknown", "outcome.rank-ValueError",
                     "refusing-F.runs", "with-start-points", "coneqp.no-inequalities", "nl.zero-optimum", "nl.show-progress", "cone.show-progress", "conelp.user-defined-x-y-types", "cone.kktreg-option-present"]


def plan(tier):
    if tier == "thorough":
        return [{"variant": "plain", "workers": 16, "cases": 300}]
    return [{"variant": "plain", "workers": 16, "cases": 8}]


S_ABORT = ()


def run(ctx):
    import sys, math
    import numpy as np
    from cvxopt import matrix, misc, solvers
    from vlib.oracle import cone, certs
    from vlib.oracle.cone import Dims
    from vlib.gen import coneprob as gp, nlprob as nl
    from vlib import solverun as sr, solve_cases as sc

    OPTS = {"show_progress": False}
    OPTS0 = {"show_progress": False}

    class Fault(ArithmeticError):
        pass

    class Injector:
        """delegates to a built-in factory; raises ArithmeticError at the chosen factor / solve call"""
        def __init__(self, make, depth, fail_factor=None, fail_solve=None, persistent=False):
            self.make, self.depth = make, depth
            self.ff, self.fs, self.persistent = fail_factor, fail_solve, persistent
            self.nf = self.ns = 0
            self.tags_f, self.tags_s = [], []
            self.cur = "startup"
            self.fired = False

        def tag(self):
            fr = sys._getframe(self.depth + 2)
            it = fr.f_locals.get("iters", None)
            return "startup" if it is None else int(it)

        def __call__(self, *a):
            k = self.nf; self.nf += 1
            self.cur = self.tag()
            self.tags_f.append(self.cur)
            if self.ff is not None and (k == self.ff or (self.persistent and k >= self.ff)):
                self.fired = True
                raise ArithmeticError("injected factorisation failure #%d" % k)
            f = self.make(*a)
            outer = self

            def solve(x, y, z):
                j = outer.ns; outer.ns += 1
                outer.tags_s.append(outer.cur)
                if outer.fs is not None and (j == outer.fs or (outer.persistent and j >= outer.fs)):
                    outer.fired = True
                    raise ArithmeticError("injected KKT solve failure #%d" % j)
                return f(x, y, z)
            return solve

    def strictly_interior(v, d, name, c, key):
        m = cone.margin(cone.symmetrize(v, d), d)
        return c.require(m > 0 or d.N == 0, key, "%s not strictly inside the cone after a contained failure (margin %.3g)" % (name, m))

    def classify(c, solver, site, tag, pr, sol, exc, opts, nlpr=None, entry=None, start="none"):
        """outcome classifier; returns outcome label"""
        key = "%s:%s" % (solver, site)
        early = tag in ("startup", 0)
        if exc is not None:
            if isinstance(exc, ValueError) and "Rank" in str(exc):
                ctx.count("outcome.rank-ValueError")
                c.require(early, key + ":rank-ValueError-after-first-iteration",
                          "rank ValueError raised for a failure injected at %s (only start-up / iteration 0 may raise it)" % (tag,))
                return "rank-ValueError"
            c.check()
            c.fail(key + ":escaped-" + ("domain-error" if (isinstance(exc, ValueError) and "domain error" in str(exc)) else type(exc).__name__),
                   "failure injected at %s call (tag %s) escaped as %s: %s" %
                   (site, tag, type(exc).__name__, exc))
            return "escaped"
        st = sol.get("status")
        # "during start-up and the first iteration it raises the documented ValueError about rank": required for every
        # start-up call, for iteration 0 of coneqp and cpl/cp, and for iteration 0 of conelp when both start points
        # were supplied (no start-up factorisation took place: it is the first time the KKT system is used).  conelp
        # returns 'unknown' for an iteration-0 failure that follows a successful start-up factorisation; the code
        # documents that distinction, so both outcomes are accepted there.
        must_raise = tag == "startup" or (tag == 0 and (solver != "conelp" or start == "both"))
        if early:
            ctx.count("early-failure.%s" % ("must-raise" if must_raise else "either"))
        c.require(not must_raise, key + ":no-rank-ValueError-for-failure-in-startup-or-first-iteration",
                  "failure injected at %s call (tag %s, start points %s) did not raise the documented rank ValueError; "
                  "status %r returned" % (site, tag, start, st))
        if nlpr is None:
            qp = pr.P is not None
            d = pr.dims
            if st == "unknown":
                ctx.count("outcome.unknown")
                certs.judge_cone_result(c, ctx, pr, sol, opts, key + ":unknown", qp=qp)
                for v, nm in (("s", "primal slack"), ("z", "dual slack")):
                    if sol.get(v) is not None and d.N:
                        strictly_interior(certs.vec_or_none(sol[v]), d, v, c, key + ":unknown-iterate-not-interior")
                        c.require(sol.get(nm) is not None and sol[nm] > 0, key + ":unknown-slack-field-not-positive",
                                  "field %r = %r after a contained failure" % (nm, sol.get(nm)))
                return "unknown"
            ctx.count("outcome." + str(st).replace(" ", "-"))
            certs.judge_cone_result(c, ctx, pr, sol, opts, key + ":" + str(st).replace(" ", "-"), qp=qp)
            return str(st)
        # cpl / cp
        d = nlpr.dims
        x = np.array(list(sol["x"]), dtype=float)
        c.require(nlpr.indom(x), key + ":x-outside-domain", "final x outside dom f (status %s)" % st)
        snl, znl = np.array(list(sol["snl"])), np.array(list(sol["znl"]))
        sl, zl = np.array(list(sol["sl"])), np.array(list(sol["zl"]))
        if st == "unknown":
            ctx.count("outcome.unknown")
            c.require((len(snl) == 0 or snl.min() > 0) and (len(znl) == 0 or znl.min() > 0), key + ":unknown-iterate-not-interior",
                      "snl/znl not strictly positive: %r %r" % (snl, znl))
            if d.N:
                strictly_interior(sl, d, "sl", c, key + ":unknown-iterate-not-interior")
                strictly_interior(zl, d, "zl", c, key + ":unknown-iterate-not-interior")
            for nm in ("primal slack", "dual slack"):
                c.require(sol.get(nm) is not None and sol[nm] > 0, key + ":unknown-slack-field-not-positive", "field %r = %r" % (nm, sol.get(nm)))
            # 'primal infeasibility' = ||(A x - b, f(x) + snl, G x + sl - h)|| / pres0 recomputed from the returned iterate
            # (pres0 = max(1, the same norm at the start x0 = F(), s = e), as documented and computed by cpl)
            try:
                e_ = cone.identity(d)
                Gs_ = np.column_stack([cone.symmetrize(nlpr.G[:, j], d) for j in range(nlpr.n)]) if nlpr.n else nlpr.G
                hs_ = cone.symmetrize(nlpr.h, d)
                f0_ = nlpr.fvals(nlpr.x0)
                fn0 = f0_ if entry == "cpl" else f0_      # cp: first entry is s0 + f0(x0) - t with t = 0
                ry0 = nlpr.A @ nlpr.x0 - nlpr.b; rz0 = e_ + Gs_ @ nlpr.x0 - hs_
                pres0 = max(1.0, math.sqrt(float(ry0 @ ry0) + float((1.0 + fn0) @ (1.0 + fn0)) + cone.sdot(rz0, rz0, d)))
                fx = nlpr.fvals(x)
                fnl_ = fx if entry == "cpl" else fx[1:]
                ry_ = nlpr.A @ x - nlpr.b
                rzl_ = cone.symmetrize(sl, d) + Gs_ @ x - hs_
                prim_ = math.sqrt(float(ry_ @ ry_) + float((snl + fnl_) @ (snl + fnl_)) + cone.sdot(rzl_, rzl_, d))
                pf = sol.get("primal infeasibility")
                if entry == "cpl":
                    ctx.count("check.unknown-field-primal-infeasibility")
                    c.require(pf is not None and abs(pf - prim_ / pres0) <= 1e-6 * max(pf, prim_ / pres0) + 1e-12,
                              key + ":unknown-field-primal-infeasibility",
                              "'primal infeasibility' %r, recomputed from the returned iterate %r" % (pf, prim_ / pres0))
            except S_ABORT:
                pass
            # self-consistency of the recomputable fields
            gapk = float(snl @ znl) + cone.sdot(cone.symmetrize(sl, d), cone.symmetrize(zl, d), d)
            gf = sol.get("gap")
            if entry == "cpl":
                sc_ = float(np.linalg.norm(snl) * np.linalg.norm(znl)) + cone.snrm2(sl, d) * cone.snrm2(zl, d)
                c.require(gf is not None and abs(gf - gapk) <= 1e-2 * max(abs(gf), abs(gapk)) + certs.ROUND * max(sc_, 1e-300),
                          key + ":unknown-field-gap", "gap field %r vs recomputed %r" % (gf, gapk))
                pc = float(nlpr.c @ x)
                c.require(abs(sol["primal objective"] - pc) <= 1e-9 * (1 + abs(pc)), key + ":unknown-field-primal-objective",
                          "primal objective %r vs c'x %r" % (sol["primal objective"], pc))
            return "unknown"
        ctx.count("outcome." + str(st))
        c.require(st == "optimal", key + ":status-value", "unexpected status %r" % st)
        if st == "optimal":
            # a recovered one-shot fault may legitimately end 'optimal': it must then be a real optimum
            Gs = np.column_stack([cone.symmetrize(nlpr.G[:, j], d) for j in range(nlpr.n)]) if nlpr.n else nlpr.G
            f = nlpr.fvals(x); Df = nlpr.Df(x)
            fnl, Dnl, g0 = (f, Df, nlpr.c) if entry == "cpl" else (f[1:], Df[1:], Df[0])
            y = np.array(list(sol["y"]))
            zls, sls = cone.symmetrize(zl, d), cone.symmetrize(sl, d)
            rx = g0 + Dnl.T @ znl + Gs.T @ zls + nlpr.A.T @ y
            prim = math.sqrt(float(np.sum((nlpr.A @ x - nlpr.b) ** 2)) + float(np.sum((snl + fnl) ** 2)) +
                             cone.sdot(sls + Gs @ x - cone.symmetrize(nlpr.h, d), sls + Gs @ x - cone.symmetrize(nlpr.h, d), d))
            obj = (lambda v: float(nlpr.c @ v)) if entry == "cpl" else (lambda v: nlpr.funcs[0].val(v))
            gapk = float(snl @ znl) + cone.sdot(sls, zls, d)
            slack = abs(gapk) + float(np.linalg.norm(rx)) * float(np.linalg.norm(nlpr.xs - x)) + \
                prim * (float(np.linalg.norm(y)) + float(np.linalg.norm(znl)) + cone.snrm2(zls, d)) + 1e-6 * (1 + abs(obj(x)))
            c.require(obj(x) <= obj(nlpr.xs) + slack and prim <= 1e-5 * max(1.0, cone.snrm2(nlpr.h, d) + 10),
                      key + ":optimal-after-fault-not-optimal", "status 'optimal' after an injected fault but objective %.10g vs feasible value %.10g, primal residual %.3g"
                      % (obj(x), obj(nlpr.xs), prim))
        return str(st)

    # ------------------------------------------------------------------
    def cone_case(c, rng, solver):
        if solver == "conelp":
            pr = sc.gen_instance(rng, "conelp", "feasible")
        else:
            # one coneqp problem in eight has no inequality constraints: coneqp then makes ONE factor and ONE solve call
            # (its start-up) and returns
            noineq = rng.random() < 0.125
            pr = sc.gen_qp_instance(rng, "coneqp", noineq=noineq)
            if noineq and pr is not None:
                ctx.count("coneqp.no-inequalities")
        if pr is None:
            ctx.count("generator.none"); return
        d = pr.dims
        args = sr.cvx_args(pr, rng, sparseG=rng.random() < 0.3)
        nm = rng.choice(["ldl", "ldl2", "chol"] + (["qr"] if solver == "conelp" else []))
        fac = getattr(misc, "kkt_" + nm)(args["G"], args["dims"], args["A"])
        make = (lambda W: fac(W)) if solver == "conelp" else (lambda W: fac(W, args["P"]))
        start = rng.choice(["none", "none", "both", "primal", "dual"])
        ps = ds = None
        if start != "none":
            ps, ds, _, _ = sr.start_dicts(solver, pr, start, rng)
            ctx.count("with-start-points")
        opts = dict(OPTS)
        if rng.random() < 0.3:
            opts["refinement"] = rng.choice([0, 1, 2])
        if rng.random() < 0.2:
            opts["show_progress"] = True              # the progress / termination messages are code paths too
            ctx.count("cone.show-progress")
        if rng.random() < 0.2:
            # the (validated) regularisation option of the 'ldl' solver present in the options: the containment rules are the same
            opts["kktreg"] = rng.choice([1e-9, 0.0, 0])
            ctx.count("cone.kktreg-option-present")
        custom = solver == "conelp" and rng.random() < 0.3
        if custom:
            # user-defined vector types for x and y (documented: xnewcopy, xdot, xaxpy, xscal, ynewcopy, ...; G and A as
            # operators, user KKT solver): every exit of conelp has to handle them with the user's own operations
            ctx.count("conelp.user-defined-x-y-types")
            from cvxopt import blas, base as cbase

            class Vec(object):
                def __init__(self, m): self.m = m
            vnew = lambda u: Vec(matrix(u.m))
            vdot = lambda u, v: blas.dot(u.m, v.m)
            def vaxpy(u, v, alpha=1.0): blas.axpy(u.m, v.m, alpha)
            def vscal(alpha, u): blas.scal(alpha, u.m)
            Gm, Am, dd_ = args["G"], args["A"], args["dims"]
            def Gop(u, v, alpha=1.0, beta=0.0, trans="N"):
                if trans == "N": misc.sgemv(Gm, u.m, v, dd_, trans="N", alpha=alpha, beta=beta)
                else: misc.sgemv(Gm, u, v.m, dd_, trans="T", alpha=alpha, beta=beta)
            def Aop(u, v, alpha=1.0, beta=0.0, trans="N"):
                cbase.gemv(Am, u.m, v.m, trans=trans, alpha=alpha, beta=beta)
            make0 = make
            def make(W):
                f_ = make0(W)
                return lambda x, y, z: f_(x.m, y.m, z)
            psc = {"x": Vec(ps["x"]), "s": ps["s"]} if ps else None
            dsc = {"y": Vec(ds["y"]), "z": ds["z"]} if ds else None

            def call_custom(kk):
                try:
                    sol_ = solvers.conelp(Vec(matrix(args["c"])), Gop, args["h"], dd_, Aop, Vec(matrix(args["b"])), primalstart=psc, dualstart=dsc,
                                          kktsolver=kk, xnewcopy=vnew, xdot=vdot, xaxpy=vaxpy, xscal=vscal,
                                          ynewcopy=vnew, ydot=vdot, yaxpy=vaxpy, yscal=vscal, options=opts)
                except Exception as e_:
                    return None, None, e_
                for k_ in ("x", "y"):
                    if isinstance(sol_.get(k_), Vec): sol_[k_] = sol_[k_].m
                return sol_, None, None
            run_ = call_custom
        else:
            run_ = lambda kk: sr.call_entry(solver, pr, args, kktsolver=kk, ps=ps, ds=ds, options=opts)
        base = Injector(make, 0)
        sol0, _, exc0 = run_(base)
        if exc0 is not None or sol0["status"] != "optimal":
            ctx.count("fault-free-not-optimal"); return
        F, S = base.nf, base.ns
        c.desc.update({"solver": solver, "dims": d.key(), "n": pr.n, "p": pr.p, "kkt": nm, "start": start, "F": F, "S": S,
                       "iterations": sol0.get("iterations")})
        plan_ = [("factor", k, False) for k in range(F)] + [("factor", k, True) for k in range(F)] + [("solve", j, False) for j in range(S)]
        if ctx.tier == "quick" and len(plan_) > 60:
            # quick tier: all factor indices, every solve index of the first 3 iterations, then a stride (thorough = all)
            keep = [p_ for p_ in plan_ if p_[0] == "factor"]
            sols = [p_ for p_ in plan_ if p_[0] == "solve"]
            keep += sols[:20] + sols[20::3]
            plan_ = keep
        for site, idx, pers in plan_:
            inj = Injector(make, 0, fail_factor=idx if site == "factor" else None, fail_solve=idx if site == "solve" else None, persistent=pers)
            sol, _, exc = run_(inj)
            tag = (base.tags_f if site == "factor" else base.tags_s)[idx]
            ctx.count("inject.%s.%s" % (solver, site))
            out = classify(c, solver, site + ("+persistent" if pers else ""), tag, pr, sol, exc, opts, start=start)
            c.require(inj.fired, "%s:%s:fault-not-reached" % (solver, site), "injection index %d never reached (fault-free trace had it)" % idx)
            ctx.count("tagclass.%s" % ("startup" if tag == "startup" else "iter0" if tag == 0 else "later"))
        c.cls(solver, start, nm, d.shape_class(), "F%d" % min(F, 12), "custom-xy" if custom else "")

    def nl_case(c, rng, entry):
        pr = nl.gen_cpl(rng) if entry == "cpl" else nl.gen_cp(rng)
        d = pr.dims
        OPTS = dict(OPTS0)
        if rng.random() < 0.3:
            # optimal value ~ 0 (pcost >= 0 >= dcost, 'relative gap' None while iterating): the exit code paths that
            # format or compare the statistics see None
            try:
                s0_ = (solvers.cpl(sr.mk(pr.c), pr.make_F([]), sr.mk(pr.G), sr.mk(pr.h), d.asdict(), sr.mk(pr.A), sr.mk(pr.b), options=OPTS0)
                       if entry == "cpl" else
                       solvers.cp(pr.make_F([]), sr.mk(pr.G), sr.mk(pr.h), d.asdict(), sr.mk(pr.A), sr.mk(pr.b), options=OPTS0))
            except Exception:
                s0_ = None
            if s0_ is not None and s0_["status"] == "optimal":
                xs0 = np.array(list(s0_["x"]), dtype=float)
                nl.zero_optimum(pr, entry, xs0, float(pr.c @ xs0) if entry == "cpl" else pr.funcs[0].val(xs0))
                ctx.count("nl.zero-optimum")
        if rng.random() < 0.3:
            OPTS["show_progress"] = True          # the progress / termination messages are code paths too
            ctx.count("nl.show-progress")
        log = []
        F_ = pr.make_F(log)
        mnl = len(pr.funcs) - (0 if entry == "cpl" else 1)
        Gm, Am = sr.mk(pr.G), sr.mk(pr.A)
        nm = rng.choice(["ldl", "ldl2", "chol"])
        fac = getattr(misc, "kkt_" + nm)(Gm, d.asdict(), Am, mnl)
        if entry == "cpl":
            def make(x, z, W):
                f, Df, H = F_(x, z)
                return fac(W, H, Df)
            depth = 0
        else:
            def make(x, z, W):
                f, Df, H = F_(x, z)
                return fac(W, H, Df[1:, :])
            depth = 1      # cp wraps the user kktsolver in kktsolver_e

        def call(inj):
            try:
                if entry == "cpl":
                    return solvers.cpl(sr.mk(pr.c), F_, Gm, sr.mk(pr.h), d.asdict(), Am, sr.mk(pr.b), kktsolver=inj, options=OPTS), None
                return solvers.cp(F_, Gm, sr.mk(pr.h), d.asdict(), Am, sr.mk(pr.b), kktsolver=inj, options=OPTS), None
            except Exception as e:
                return None, e
        base = Injector(make, depth)
        sol0, exc0 = call(base)
        if exc0 is not None or sol0["status"] != "optimal":
            ctx.count("fault-free-not-optimal"); return
        Fn, S = base.nf, base.ns
        c.desc.update({"solver": entry, "family": pr.family, "dims": d.key(), "n": pr.n, "kkt": nm, "F": Fn, "S": S})
        plan_ = [("factor", k, False) for k in range(Fn)] + [("factor", k, True) for k in range(Fn)] + [("solve", j, False) for j in range(S)]
        if ctx.tier == "quick" and len(plan_) > 60:
            keep = [p_ for p_ in plan_ if p_[0] == "factor"]
            sols = [p_ for p_ in plan_ if p_[0] == "solve"]
            plan_ = keep + sols[:20] + sols[20::3]
        for site, idx, pers in plan_:
            inj = Injector(make, depth, fail_factor=idx if site == "factor" else None, fail_solve=idx if site == "solve" else None, persistent=pers)
            sol, exc = call(inj)
            tag = (base.tags_f if site == "factor" else base.tags_s)[idx]
            ctx.count("inject.%s.%s" % (entry, site))
            classify(c, entry, site + ("+persistent" if pers else ""), tag, None, sol, exc, OPTS, nlpr=pr, entry=entry)
            ctx.count("tagclass.%s" % ("startup" if tag == "startup" else "iter0" if tag == 0 else "later"))
        nv = sum(1 for k_, _, _ in log if k_.startswith("VIOLATION"))
        c.require(nv == 0, entry + ":F(x,z)-called-outside-domain", "F(x,z) called outside dom f %d times" % nv)
        c.cls(entry, pr.family, nm, d.shape_class(), "F%d" % min(Fn, 12))

    def refusing_case(c, rng):
        """F with a random convex domain that refuses (None / (None, None)) outside it; full steps leave it"""
        entry = rng.choice(["cp", "cpl"])
        pr = nl.gen_cpl(rng) if entry == "cpl" else nl.gen_cp(rng)
        d = pr.dims
        nruns = 6
        for r in range(nruns):
            k = rng.randint(1, 3)
            Hs = np.array([[rng.gauss(0, 1) for _ in range(pr.n)] for _ in range(k)])
            hsv = Hs @ pr.xs + np.array([rng.uniform(0.05, 1.0) for _ in range(k)])
            rad = rng.uniform(0.3, 3.0)
            base_fn = pr.funcs[0].fn if isinstance(pr.funcs[0], nl.Restricted) else pr.funcs[0]
            pr.funcs[0] = nl.Restricted(base_fn, Hs, hsv, pr.xs.copy(), rad)
            pr.x0 = pr.xs.copy()
            for _ in range(10):
                cand = pr.xs + np.array([rng.uniform(-0.3, 0.3) for _ in range(pr.n)])
                if pr.indom(cand):
                    pr.x0 = cand; break
            log = []
            F_ = pr.make_F(log, none_style=rng.choice([0, 1]), sparse_Df=rng.random() < 0.3)
            try:
                if entry == "cpl":
                    sol = solvers.cpl(sr.mk(pr.c), F_, sr.mk(pr.G), sr.mk(pr.h), d.asdict(), sr.mk(pr.A), sr.mk(pr.b), options=OPTS)
                else:
                    sol = solvers.cp(F_, sr.mk(pr.G), sr.mk(pr.h), d.asdict(), sr.mk(pr.A), sr.mk(pr.b), options=OPTS)
                exc = None
            except Exception as e:
                sol, exc = None, e
            ctx.count("refusing-F.runs")
            refusals = sum(1 for k_, _, ind in log if k_ == "F(x)" and not ind)
            ctx.count("refusing-F.refusals", refusals)
            if exc is not None:
                c.check()
                c.fail("%s:refusing-F:escaped-%s" % (entry, type(exc).__name__), "domain refusal escaped as %s: %s" % (type(exc).__name__, exc))
                continue
            x = np.array(list(sol["x"]), dtype=float)
            c.require(pr.indom(x), entry + ":refusing-F:x-outside-domain", "final x outside the (restricted) domain, status %s" % sol["status"])
            nv = sum(1 for k_, _, _ in log if k_.startswith("VIOLATION"))
            c.require(nv == 0, entry + ":refusing-F:F(x,z)-called-outside-domain", "F(x,z) called outside the domain %d times" % nv)
            ctx.count("refusing-F.status." + sol["status"])
        c.cls("refusing-F", entry, pr.family, d.shape_class())

    def one(c):
        rng = c.rng
        m = (c.k + ctx.worker) % 5
        kind = ["conelp", "coneqp", "cpl", "cp", "refusing"][m]
        c.desc["kind"] = kind
        if kind in ("conelp", "coneqp"):
            cone_case(c, rng, kind)
        elif kind in ("cpl", "cp"):
            nl_case(c, rng, kind)
        else:
            refusing_case(c, rng)
        if c.k < 2:
            ctx.sample(dict(c.desc))

    for k in ctx.cases():
        ctx.run_case(k, {}, one)
