"""C06  The answer does not depend on problem presentation or solver path."""
LEVEL = "exploration"
TECHNIQUE = ("runtime monitoring: metamorphic oracle - one planted problem solved through two equivalent presentations; statuses must be "
             "equal, objectives inside each other's certified bracket, both certificates valid; exhaustive kktsolver-name validation with "
             "instrumented KKT factories")
LEVEL_TEXT = "pairs of executions compared under a metamorphic relation; held on the generated pairs, not a proof"
RULE = ("base = default presentation of a planted instance (feasible / infeasible / unbounded); second = one transformation from the list "
        "(storage, kktsolver name, wrapper, operator form, start points, l-row as 1-dim q / order-1 s cone, row permutation, variable "
        "permutation, objective scaling, GLPK/DSDP, Python-fallback kernels); class signature = transformation x entry x cone shape class x status")
ASSUMPTIONS = ["objective agreement bound: (gap_A+gap_B) + (pres_A+pres_B)(||y||max(1,||b||)+||z||max(1,||h||)) + (dres_A+dres_B)||x||max(1,||c||), times 2, plus 1e-8(1+|p|)",
               "x is compared only where the solution is unique by construction (P positive definite): strong-convexity bound",
               "GLPK/DSDP are held to 1e-5 relative objective agreement (their documented default tolerances)"]
TRANSFORMS = ["storage", "kktsolver", "wrapper", "operator", "start", "l-as-q1", "l-as-s1", "perm-rows", "perm-vars",
              "scale-objective", "backend", "python-kernels"]
REQUIRED_COUNTERS = ["pair." + t for t in TRANSFORMS] + ["operator.x-operations-given.A-None", "names.enumerated", "names.rejected-before-factor", "names.accepted"]


def plan(tier):
    if tier == "thorough":
        return [{"variant": "plain", "workers": 16, "cases": 5000}]
    return [{"variant": "plain", "workers": 16, "cases": 90}]


def run(ctx):
    import numpy as np
    import cvxopt
    from cvxopt import matrix, spmatrix, solvers, misc, misc_py
    from vlib.oracle import cone, certs
    from vlib.oracle.cone import Dims
    from vlib.gen import coneprob as gp
    from vlib import solverun as sr, solve_cases as sc
    from vlib.conv import to_matrix, vec

    OPTS = {"show_progress": False}

    def solve(entry, pr, rng, sparse=False, kkt=None, start="none", opts=None, backend=None, operators=False, mixed=None, junk=False, xops=False):
        isqp = pr.P is not None
        sG, sA, sP = mixed if mixed is not None else (sparse, sparse, sparse)
        if junk:
            ctx.count("junk-upper-triangles")
        if entry in ("conelp", "coneqp"):
            args = sr.cvx_args(pr, rng, sparseG=sG, sparseA=sA, sparseP=sP, junk=junk)
        else:
            if isqp:
                args = sr.cvx_args(pr, rng, sparseG=sG, sparseA=sA, sparseP=sP, junk=junk)
            else:
                args = sr.wrapper_args(entry, pr, rng, sparse=sparse, junk=junk)
        ps = ds = None
        if start != "none":
            ps, ds, _, _ = sr.start_dicts(entry, pr, start, rng)
        if operators:
            if isqp:
                fP, fG, fA = sc.operator_args(pr, args)
                args["P"], args["G"], args["A"] = fP, fG, fA
            else:
                pr2 = gp.Prob(**{k: v for k, v in pr.__dict__.items()})
                pr2.P = np.zeros((pr.n, pr.n))
                _, fG, fA = sc.operator_args(pr2, args)
                args["G"], args["A"] = fG, fA
        o = dict(OPTS)
        if opts: o.update(opts)
        if backend == "glpk":
            o.update({"glpk": {"msg_lev": "GLP_MSG_OFF"}})
        if operators and xops and entry == "conelp":
            # the documented vector operations passed explicitly (here: the ones conelp uses by default), and no equality
            # constraints given as A = None, b = None when the problem has none
            from cvxopt import blas as blas_
            kw_ = dict(xnewcopy=matrix, xdot=blas_.dot, xaxpy=blas_.axpy, xscal=blas_.scal)
            A_, b_ = (None, None) if pr.p == 0 else (args["A"], args["b"])
            if pr.p == 0: ctx.count("operator.x-operations-given.A-None")
            try:
                sol = solvers.conelp(args["c"], args["G"], args["h"], args["dims"], A_, b_, primalstart=ps, dualstart=ds, kktsolver=kkt, options=o, **kw_)
                exc = None
            except Exception as e_:
                sol, exc = None, e_
        else:
            sol, inner, exc = sr.call_entry(entry, pr, args, kktsolver=kkt, ps=ps, ds=ds, options=o, solver=backend)
        if sol is not None:
            sol = sr.normalise(entry, sol, pr.dims)
        return sol, exc

    def facts(pr, sol):
        D = certs.Data(pr)
        x, s, y, z = (certs.vec_or_none(sol.get(k)) for k in "xsyz")
        s = cone.symmetrize(s, pr.dims); z = cone.symmetrize(z, pr.dims)
        R = certs.recompute(D, x, s, y, z)
        R["x"], R["y"], R["z"] = x, y, z
        R["D"] = D
        return R

    def objective_tol(Ra, Rb):
        tol = 0.0
        for R in (Ra, Rb):
            D = R["D"]
            tol += abs(R["gap"]) + R["pres"] * (np.linalg.norm(R["y"]) * D.resy0 + cone.snrm2(R["z"], D.dims) * D.resz0) \
                + R["dres"] * np.linalg.norm(R["x"]) * D.resx0
        return 2.0 * tol + 1e-8 * (1 + abs(Ra["pcost"]))

    def compare(c, name, prA, solA, excA, prB, solB, excB, alpha=1.0, ext=False, map_x=None):
        """metamorphic relation between presentation A and B"""
        key = name
        if excA is not None or excB is not None:
            same = excA is not None and excB is not None and type(excA) is type(excB)
            dom = any(isinstance(e_, ValueError) and "domain error" in str(e_) for e_ in (excA, excB))
            # mechanism split: sqrt of a negative number in update_scaling when an accuracy-limited KKT solver lets
            # the iterates drift out of the cone after convergence stalls (escapes as ValueError('domain error'))
            c.require(same, key + (":escaped-domain-error" if dom else ":exception-in-one-presentation"),
                      "A: %r   B: %r" % (excA, excB))
            return "exception"
        stA, stB = solA["status"], solB["status"]
        if ext and "unknown" in (stA, stB):
            c.check(); return stA
        if ext and stB in ("primal infeasible", "dual infeasible") and name.endswith("glpk"):
            # GLPK's presolver reports only "no primal feasible / no dual feasible solution"
            c.require(stA == stB or stA in ("primal infeasible", "dual infeasible"), key + ":status-differs",
                      "status %r vs %r" % (stA, stB))
            return stA
        if stA != stB and prA.P is not None and not ext and sorted([stA, stB]) == ["optimal", "unknown"]:
            # mechanism split: coneqp's Mehrotra corrector cycles (period 3-4) between primal/dual feasible iterates while
            # the gap oscillates, until maxiters (the recorded C05 finding 'coneqp:unknown-at-maxiters-feasible-iterates-
            # gap-cycling'); whether it strikes depends on the presentation, so it surfaces here as a status difference
            su = solA if stA == "unknown" else solB
            if (su.get("iterations") or 0) >= 100 and (su.get("primal infeasibility") or 1) <= 1e-6 and \
                    (su.get("dual infeasibility") or 1) <= 1e-6:
                ctx.count("coneqp-gap-cycling-in-one-presentation")
                c.check()
                c.fail("coneqp-gap-cycling:" + key, "status %r (base) vs %r (transformed): the 'unknown' run stopped at maxiters with "
                       "feasible iterates (pres %.1e, dres %.1e) and gap %.2e" % (stA, stB, su["primal infeasibility"],
                                                                                su["dual infeasibility"], su["gap"]),
                       itA=solA.get("iterations"), itB=solB.get("iterations"))
                return stA
        if not c.require(stA == stB, key + ":status-differs", "status %r (base) vs %r (transformed)" % (stA, stB),
                         itA=solA.get("iterations"), itB=solB.get("iterations")):
            return stA
        if stA == "optimal":
            Ra, Rb = facts(prA, solA), facts(prB, solB)
            pa, pb = Ra["pcost"] * alpha, Rb["pcost"]
            tol = objective_tol(Ra, Rb) * max(alpha, 1.0)
            if ext:
                tol += 1e-5 * (1 + abs(pa)) * 3
            ctx.maxobs("objective-diff/tol." + name.split(":")[0], abs(pa - pb) / tol)
            c.require(abs(pa - pb) <= tol, key + ":optimal-value-differs",
                      "optimal value %.12g vs %.12g (tolerance %.3g)" % (pa, pb, tol))
            if prA.P is not None and getattr(prA, "rankP", 0) == prA.n and not ext:
                lam = float(np.linalg.eigvalsh(Ra["D"].P)[0])
                xa = Ra["x"] if map_x is None else map_x(Ra["x"])
                bound = 2.0 * np.sqrt(2.0 * max(tol, 0.0) / max(lam, 1e-12)) + 1e-7 * (1 + np.linalg.norm(xa))
                dx = float(np.linalg.norm(xa - Rb["x"]))
                ctx.maxobs("x-diff/bound", dx / bound)
                ctx.count("unique-solution-compared")
                c.require(dx <= bound, key + ":solution-differs", "||x_A - x_B|| = %.3g > %.3g" % (dx, bound))
        return stA

    # ---------------------------------------------------------------- name validation (enumerated once per worker)
    def name_validation(c):
        from cvxopt import coneprog, cvxprog
        rng = c.rng
        counts = {"factory": 0, "factor": 0}
        originals = {}

        def wrap(fname):
            orig = getattr(misc, fname)
            originals[fname] = orig
            def w(*a, **k):
                counts["factory"] += 1
                f = orig(*a, **k)
                def factor(*fa, **fk):
                    counts["factor"] += 1
                    return f(*fa, **fk)
                return factor
            setattr(misc, fname, w)
        for fn in ("kkt_ldl", "kkt_ldl2", "kkt_qr", "kkt_chol", "kkt_chol2"):
            wrap(fn)
        try:
            NAMES = ["ldl", "ldl2", "qr", "chol", "chol2", "QR", "", "foo", "Chol2"]
            ACCEPT = {"conelp": {"ldl", "ldl2", "qr", "chol", "chol2"}, "conelp-q": {"ldl", "ldl2", "qr", "chol"}, "lp": {"ldl", "ldl2", "qr", "chol", "chol2"},
                      "socp": {"ldl", "ldl2", "qr", "chol"}, "sdp": {"ldl", "ldl2", "qr", "chol"},
                      "coneqp": {"ldl", "ldl2", "chol", "chol2"}, "qp": {"ldl", "ldl2", "chol", "chol2"},
                      "cpl": {"ldl", "ldl2", "chol", "chol2"}, "cp": {"ldl", "ldl2", "chol", "chol2"},
                      "gp": {"ldl", "ldl2", "chol", "chol2"}}
            lpd = Dims(4)
            prl = sc.gen_instance(rng, "lp", "feasible", dims=lpd)
            prq = sc.gen_instance(rng, "socp", "feasible", dims=Dims(2, [3]))
            prs = sc.gen_instance(rng, "sdp", "feasible", dims=Dims(2, [], [2]))
            prQ = None
            while prQ is None:
                prQ = sc.gen_qp_instance(rng, "qp")
            # a tiny smooth problem for cpl / cp / gp
            def F_cp(x=None, z=None):
                if x is None: return 0, matrix(0.0, (2, 1))
                f = matrix(sum((x[i] - 1.0) ** 2 for i in range(2)))
                Df = matrix([2 * (x[0] - 1.0), 2 * (x[1] - 1.0)], (1, 2))
                if z is None: return f, Df
                return f, Df, z[0] * matrix([2.0, 0.0, 0.0, 2.0], (2, 2))
            def F_cpl(x=None, z=None):
                if x is None: return 1, matrix(0.0, (2, 1))
                f = matrix(x[0] ** 2 + x[1] ** 2 - 4.0)
                Df = matrix([2 * x[0], 2 * x[1]], (1, 2))
                if z is None: return f, Df
                return f, Df, z[0] * matrix([2.0, 0.0, 0.0, 2.0], (2, 2))
            Gc, hc = matrix([[1.0, -1.0], [0.0, 0.0]]), matrix([3.0, 3.0])
            Kgp, Fgp, ggp = [2], matrix([[1.0, -1.0], [1.0, -1.0]]).T, matrix([0.0, 0.0])
            Ggp, hgp = matrix([[1.0, -1.0, 0.0, 0.0], [0.0, 0.0, 1.0, -1.0]]), matrix([1.0, 1.0, 1.0, 1.0])

            def call(entry, nm):
                if entry == "conelp":
                    a = sr.cvx_args(prl, rng); return solvers.conelp(a["c"], a["G"], a["h"], a["dims"], a["A"], a["b"], kktsolver=nm, options=OPTS)
                if entry == "conelp-q":
                    a = sr.cvx_args(prq, rng); return solvers.conelp(a["c"], a["G"], a["h"], a["dims"], a["A"], a["b"], kktsolver=nm, options=OPTS)
                if entry == "lp":
                    a = sr.wrapper_args("lp", prl, rng); return solvers.lp(a["c"], a["G"], a["h"], a["A"], a["b"], kktsolver=nm, options=OPTS)
                if entry == "socp":
                    a = sr.wrapper_args("socp", prq, rng); return solvers.socp(a["c"], a["Gl"], a["hl"], a["Gq"], a["hq"], a["A"], a["b"], kktsolver=nm, options=OPTS)
                if entry == "sdp":
                    a = sr.wrapper_args("sdp", prs, rng); return solvers.sdp(a["c"], a["Gl"], a["hl"], a["Gs"], a["hs"], a["A"], a["b"], kktsolver=nm, options=OPTS)
                if entry == "coneqp":
                    a = sr.cvx_args(prQ, rng); return solvers.coneqp(a["P"], a["q"], a["G"], a["h"], a["dims"], a["A"], a["b"], kktsolver=nm, options=OPTS)
                if entry == "qp":
                    a = sr.cvx_args(prQ, rng); return solvers.qp(a["P"], a["q"], a["G"], a["h"], a["A"], a["b"], kktsolver=nm, options=OPTS)
                if entry == "cpl":
                    return solvers.cpl(matrix([1.0, 1.0]), F_cpl, Gc, hc, kktsolver=nm, options=OPTS)
                if entry == "cp":
                    return solvers.cp(F_cp, Gc, hc, kktsolver=nm, options=OPTS)
                if entry == "gp":
                    return solvers.gp(Kgp, Fgp, ggp, Ggp, hgp, kktsolver=nm, options=OPTS)
            for entry in ["conelp", "conelp-q", "lp", "socp", "sdp", "coneqp", "qp", "cpl", "cp", "gp"]:
                for nm in NAMES:
                    counts["factory"] = counts["factor"] = 0
                    ctx.count("names.enumerated")
                    try:
                        sol = call(entry, nm); exc = None
                    except Exception as e:
                        sol, exc = None, e
                    should_accept = nm in ACCEPT[entry]
                    if should_accept:
                        ctx.count("names.accepted")
                        c.require(exc is None and sol is not None and sol.get("status") == "optimal",
                                  "names:%s:supported-name-fails" % entry,
                                  "%s(kktsolver=%r) documented as supported: %r / %r" % (entry, nm, exc, sol and sol.get("status")))
                    else:
                        ok = isinstance(exc, ValueError) and counts["factor"] == 0
                        if ok: ctx.count("names.rejected-before-factor")
                        c.require(ok, "names:%s:unsupported-name-not-ValueError-before-solving" % entry,
                                  "%s(kktsolver=%r): expected ValueError before any factorisation, got %r (factor calls %d)" %
                                  (entry, nm, exc if exc is not None else sol.get("status"), counts["factor"]))
        finally:
            for fn, o in originals.items():
                setattr(misc, fn, o)
        c.cls("names")

    def zero_pattern_problem(pr, rng, isqp, empty_col=False):
        """the same kind of planted problem with structural zeros in G (optionally one structurally empty column, i.e. a
        variable that occurs in no inequality), keeping the planted strictly feasible primal and dual points"""
        d = pr.dims
        pl_ = getattr(pr, "pl", None) or {}
        if not (d.N and all(k_ in pl_ for k_ in "xsyz")):
            return None
        Gz = None
        for _ in range(10):
            mask = np.array([[1.0 if rng.random() < 0.6 else 0.0 for _ in range(pr.n)] for _ in range(d.Np)]).reshape(d.Np, pr.n)
            if empty_col and pr.n > 1:
                mask[:, rng.randrange(pr.n)] = 0.0
            cand = gp.unpack_iso(gp.pack_iso(pr.G, d) * mask, d)
            if isqp and pr.P is not None:
                # rank([P; A; G]) = n with the generators' conditioning
                M = np.vstack([pr.P, pr.A, gp.pack_iso(cand, d)])
                if np.linalg.svd(M, compute_uv=False)[-1] < 0.2:
                    continue
                if pr.A.shape[0] and np.linalg.svd(pr.A, compute_uv=False)[-1] < 0.2:
                    continue
                Gz = cand
                break
            s1_, _, _ = gp.conditioning(cand, pr.A, d)
            if s1_ >= 0.2:
                Gz = cand
                break
        if Gz is None:
            return None
        cz = -(Gz.T @ cone.symmetrize(pl_["z"], d)) - pr.A.T @ pl_["y"]
        if isqp:
            cz = cz - pr.P @ pl_["x"]
        prZ = gp.Prob(c=cz, G=Gz, h=Gz @ pl_["x"] + cone.symmetrize(pl_["s"], d), A=pr.A, b=pr.b, dims=d, kind=pr.kind)
        if isqp:
            prZ.P, prZ.q = pr.P, cz
        prZ.rankP = getattr(pr, "rankP", None)
        prZ.pl = dict(pl_)
        prZ.pl["structurally-sparse"] = True     # stored without explicit zeros
        return prZ

    # ---------------------------------------------------------------- pairs
    def one(c):
        rng = c.rng
        if c.k == 0:
            return name_validation(c)
        t = TRANSFORMS[(c.k + ctx.worker) % len(TRANSFORMS)]
        isqp = rng.random() < 0.35
        kind = rng.choices(["feasible", "pinf", "dinf"], [0.7, 0.15, 0.15])[0]
        if isqp: kind = "feasible"
        entry = "coneqp" if isqp else "conelp"
        want_dims = None
        if t == "wrapper":
            w = rng.choice(["qp"] if isqp else ["lp", "socp", "sdp"])
            want_dims = sc.dims_for_entry(rng, w if w != "qp" else "lp")
        elif t == "backend":
            isqp = False; entry = "conelp"
            w = rng.choice(["glpk", "dsdp"])
            want_dims = Dims(rng.randint(1, 6)) if w == "glpk" else Dims(rng.randint(0, 3), [], [rng.randint(1, 3) for _ in range(rng.randint(1, 2))])
            if w == "dsdp": kind = "feasible"
        elif t in ("l-as-q1", "l-as-s1", "perm-rows"):
            d0 = gp.gen_dims(rng)
            want_dims = Dims(max(d0.l, 2), d0.q, d0.s)
        zero_pat_storage = False
        if t == "storage" and rng.random() < 0.35:
            # 'l'-only problem (default solver chol2) whose G gets structural zeros and, mostly, an empty column
            zero_pat_storage = True
            kind = "feasible"
            want_dims = Dims(rng.randint(2, 7))
        pr = None
        for _ in range(20):
            if isqp:
                if want_dims is not None:
                    n = rng.randint(1, 6); p = min(rng.choice([0, 1, 2]), n); r = rng.choice([0, 1, n, n])
                    if want_dims.Np + p + r < n: continue
                    pr = gp.planted_feasible(rng, want_dims, n, p, qp_rank=r)
                    if pr is not None: pr.rankP = r
                else:
                    pr = sc.gen_qp_instance(rng, "coneqp")
            else:
                pr = sc.gen_instance(rng, "conelp", kind, dims=want_dims) if not (t == "backend" and w == "dsdp") else None
                if t == "backend" and w == "dsdp":
                    n = rng.randint(1, 5)
                    if want_dims.Np >= n:
                        pr = gp.planted_feasible(rng, want_dims, n, 0)
            if pr is not None:
                break
        if pr is None:
            ctx.count("generator.none"); return
        d = pr.dims
        c.desc.update({"transform": t, "entry": entry, "kind": kind, "dims": d.key(), "n": pr.n, "p": pr.p})
        solA, excA = solve(entry, pr, rng)
        JA = None
        if excA is None and solA["status"] in ("optimal", "primal infeasible", "dual infeasible"):
            certs.judge_cone_result(c, ctx, pr, solA, OPTS, "base-" + entry, qp=isqp)
        name = t
        prB, alpha, ext, map_x = pr, 1.0, False, None
        if t == "storage" and zero_pat_storage:
            prZ = zero_pattern_problem(pr, rng, isqp, empty_col=rng.random() < 0.7)
            if prZ is not None:
                pr = prB = prZ
                solA, excA = solve(entry, pr, rng)
                ctx.count("storage.zero-pattern-G")
        if t == "storage":
            # every mix of sparse/dense G, A (and P): the KKT factories have separate branches per combination
            combos = [(True, True, True), (True, False, True), (False, True, False), (True, False, False), (True, True, False), (False, False, True)]
            mx = combos[rng.randrange(len(combos))]
            name = "storage:G%sA%sP%s" % tuple("s" if b_ else "d" for b_ in mx)
            solB, excB = solve(entry, pr, rng, mixed=mx, junk=(isqp or bool(d.s)) and rng.random() < 0.3)
        elif t == "kktsolver":
            names = (["ldl", "ldl2", "chol"] + ([] if isqp else ["qr"]) + ([] if (d.q or d.s) else ["chol2"]))
            nm = rng.choice(names); name = "kktsolver:" + nm
            spB = False
            pl_ = getattr(pr, "pl", None) or {}
            if kind == "feasible" and d.N and "x" in pl_ and "s" in pl_ and rng.random() < 0.5:
                # the same comparison on a problem whose G has structural zeros, stored sparse for the named solver: the
                # scaled columns W^-T G[:,k] of 'q'/'s' blocks are dense although G[:,k] is not
                Gz = None
                for _ in range(10):
                    mask = np.array([[1.0 if rng.random() < 0.6 else 0.0 for _ in range(pr.n)] for _ in range(d.Np)]).reshape(d.Np, pr.n)
                    cand = gp.unpack_iso(gp.pack_iso(pr.G, d) * mask, d)
                    # the documented rank condition must survive the masking, with the conditioning of the generators
                    s1_, _, _ = gp.conditioning(cand, pr.A, d)
                    if s1_ >= 0.2:
                        Gz = cand
                        break
                if Gz is not None and "z" in pl_ and "y" in pl_:
                    # keep the planted strictly feasible primal AND dual points (the problem stays solvable): h and c follow G
                    cz = -(Gz.T @ cone.symmetrize(pl_["z"], d)) - pr.A.T @ pl_["y"]
                    if isqp:
                        cz = cz - pr.P @ pl_["x"]
                    prZ = gp.Prob(c=cz, G=Gz, h=Gz @ pl_["x"] + cone.symmetrize(pl_["s"], d), A=pr.A, b=pr.b, dims=d, kind=pr.kind)
                    if isqp:
                        prZ.P, prZ.q = pr.P, cz
                    prZ.rankP = getattr(pr, "rankP", None)
                    pr = prB = prZ
                    spB = True
                    solA, excA = solve(entry, pr, rng)
                    ctx.count("kktsolver.zero-pattern-sparse-G")
            # the transformed run also stores P and the 's' blocks of G, h in 'L' storage with zeros or unrelated numbers in
            # the unreferenced triangles (a presentation, too)
            solB, excB = solve(entry, pr, rng, kkt=nm, mixed=(True, rng.random() < 0.5, False) if spB else None,
                               junk=(not spB) and (isqp or bool(d.s)) and rng.random() < 0.5)
        elif t == "wrapper":
            name = "wrapper:" + w
            solB, excB = solve(w, pr, rng, sparse=rng.random() < 0.3)
        elif t == "operator":
            # operator form needs a user KKT solver: use one of the same quality as the built-in path
            # (the built-in LDL factory on the matrix data), so that only the products differ
            a0 = sr.cvx_args(pr, rng)
            fac = misc.kkt_ldl(a0["G"], a0["dims"], a0["A"])
            if isqp:
                kk = lambda W: fac(W, a0["P"])
            else:
                kk = lambda W: fac(W)
            solB, excB = solve(entry, pr, rng, kkt=kk, operators=True, xops=(not isqp) and rng.random() < 0.5)
        elif t == "start":
            if kind != "feasible":
                ctx.count("skipped.start-on-infeasible"); return
            st = rng.choice(["primal", "dual", "both"]); name = "start:" + st
            solB, excB = solve(entry, pr, rng, start=st)
        elif t in ("l-as-q1", "l-as-s1"):
            if t == "l-as-q1":
                d2 = Dims(d.l - 1, [1] + d.q, d.s); G2, h2 = pr.G, pr.h
            else:
                nq = sum(d.q)
                idx = list(range(d.l - 1)) + list(range(d.l, d.l + nq)) + [d.l - 1] + list(range(d.l + nq, d.N))
                d2 = Dims(d.l - 1, d.q, [1] + d.s); G2, h2 = pr.G[idx], pr.h[idx]
            prB = gp.Prob(c=pr.c, G=G2, h=h2, A=pr.A, b=pr.b, dims=d2, kind=pr.kind)
            prB.P, prB.q = pr.P, pr.q
            prB.rankP = getattr(pr, "rankP", None)
            solB, excB = solve(entry, prB, rng)
        elif t == "perm-rows":
            perm = list(range(d.l)); rng.shuffle(perm)
            idx = perm + list(range(d.l, d.N))
            prB = gp.Prob(c=pr.c, G=pr.G[idx], h=pr.h[idx], A=pr.A, b=pr.b, dims=d, kind=pr.kind)
            prB.P, prB.q = pr.P, pr.q; prB.rankP = getattr(pr, "rankP", None)
            solB, excB = solve(entry, prB, rng)
        elif t == "perm-vars":
            perm = list(range(pr.n)); rng.shuffle(perm)
            prB = gp.Prob(c=pr.c[perm], G=pr.G[:, perm], h=pr.h, A=pr.A[:, perm], b=pr.b, dims=d, kind=pr.kind)
            if isqp:
                prB.P = pr.P[np.ix_(perm, perm)]; prB.q = pr.q[perm]; prB.c = prB.q
            prB.rankP = getattr(pr, "rankP", None)
            map_x = lambda x: x[perm]
            solB, excB = solve(entry, prB, rng)
        elif t == "scale-objective":
            alpha = rng.choice([0.01, 0.5, 3.0, 100.0])
            prB = gp.Prob(c=pr.c * alpha, G=pr.G, h=pr.h, A=pr.A, b=pr.b, dims=d, kind=pr.kind)
            if isqp:
                prB.P = pr.P * alpha; prB.q = pr.q * alpha; prB.c = prB.q
            prB.rankP = getattr(pr, "rankP", None)
            solB, excB = solve(entry, prB, rng)
        elif t == "backend":
            name = "backend:" + w; ext = True
            solB, excB = solve("lp" if w == "glpk" else "sdp", pr, rng, backend=w)
        elif t == "python-kernels":
            old = cvxopt.misc
            try:
                cvxopt.misc = misc_py
                solB, excB = solve(entry, pr, rng)
            finally:
                cvxopt.misc = old
        ctx.count("pair." + t)
        if excB is None and not ext and solB["status"] in ("optimal", "primal infeasible", "dual infeasible"):
            certs.judge_cone_result(c, ctx, prB, solB, OPTS, "transformed-" + name.replace(":", "-"), qp=isqp)
        if excA is not None:
            ctx.count("base-exception.%s" % type(excA).__name__)
        st = compare(c, name, pr, solA, excA, prB, solB, excB, alpha=alpha, ext=ext, map_x=map_x)
        ctx.count("status." + str(st))
        c.cls(name, entry, d.shape_class(), st, kind)
        if c.k < 3:
            ctx.sample(dict(c.desc, status=st))

    for k in ctx.cases():
        ctx.run_case(k, {}, one)
