"""O-lp: the oracle's own epigraph LP of a shadow problem, solved by HiGHS.

A shadow problem is (objective tree, [(tree, '<' | '='), ...]) over shadow
variables: minimise objective(x) subject to tree(x) <= 0 resp. tree(x) == 0.
Convex piecewise-linear trees are turned into linear rows by introducing one
epigraph variable per max/abs node (hypograph variable per min node).  The
numbering (original variables in reverse order, auxiliaries appended as the
recursion meets them) has nothing to do with the library's.
"""
import numpy as np
from . import shadow as S


class Form:
    """affine form  sum_j cols[j] * z_j + c  with L rows (cols[j], c: arrays of length L)"""
    __slots__ = ("L", "cols", "c")

    def __init__(self, L, cols=None, c=None):
        self.L = L
        self.cols = cols if cols is not None else {}
        self.c = np.zeros(L) if c is None else np.asarray(c, dtype=float)

    def bc(self, L):
        if self.L == L:
            return self
        assert self.L == 1, (self.L, L)
        return Form(L, {j: np.full(L, v[0]) for j, v in self.cols.items()}, np.full(L, self.c[0]))

    def scale(self, a):
        return Form(self.L, {j: a * v for j, v in self.cols.items()}, a * self.c)

    def add(self, o, sign=1.0):
        L = max(self.L, o.L)
        a, b = self.bc(L), o.bc(L)
        cols = {j: v.copy() for j, v in a.cols.items()}
        for j, v in b.cols.items():
            cols[j] = cols[j] + sign * v if j in cols else sign * v
        return Form(L, cols, a.c + sign * b.c)

    def left(self, M):
        M = np.asarray(M, dtype=float)
        return Form(M.shape[0], {j: M @ v for j, v in self.cols.items()}, M @ self.c)

    def take(self, idx):
        idx = np.asarray(idx, dtype=int)
        return Form(len(idx), {j: v[idx] for j, v in self.cols.items()}, self.c[idx])


class EpiLP:
    def __init__(self, vars_):
        self.vars = list(vars_)
        self.off = {}
        n = 0
        for v in reversed(self.vars):           # own numbering
            self.off[v.idx] = n
            n += v.n
        self.nx = n
        self.n = n
        self.ub = []        # (cols, c): cols.z + c <= 0, one scalar row each
        self.eq = []

    def newvars(self, k):
        s = self.n
        self.n += k
        return s

    def _rows(self, form, store):
        for i in range(form.L):
            store.append(({j: v[i] for j, v in form.cols.items() if v[i] != 0.0}, float(form.c[i])))

    def le0(self, form):
        self._rows(form, self.ub)

    def eq0(self, form):
        self._rows(form, self.eq)

    # ---- tree -> form.  side=+1: a form that dominates the (convex) node and can be pushed down to it
    #                     side=-1: a form dominated by the (concave) node
    def const(self, k):
        return Form(k.shape[0], {}, k.a[:, 0].copy()) if k.is_matrix else Form(1, {}, [k.s])

    def form(self, o, side=1):
        if isinstance(o, S.K):
            return self.const(o)
        node, op = o, o.op
        if op == "var":
            off = self.off[node.var.idx]
            return Form(node.L, {off + i: np.eye(node.L)[:, i].copy() for i in range(node.L)})
        k = node.kids
        if op == "pos":
            return self.form(k[0], side)
        if op == "neg":
            return self.form(k[0], -side).scale(-1.0)
        if op in ("add", "iadd"):
            return self.form(k[0], side).add(self.form(k[1], side)).bc(node.L)
        if op in ("sub", "isub"):
            return self.form(k[0], side).add(self.form(k[1], -side), -1.0).bc(node.L)
        if op in ("smul", "smulr", "imul", "div", "idiv") or (op in ("mmul", "rmul") and self._scalar(node)):
            f, a = self._scalar_parts(node)
            if a == 0.0:
                return Form(node.L)
            return self.form(f, side if a > 0 else -side).scale(a)
        if op == "mmul":
            return self.form(k[1], side).left(k[0].a)
        if op == "rmul":
            return self.form(k[0], side).left(k[1].a)            # (m x 1) times scalar function
        if op == "index":
            return self.form(k[0], side).take(S.key_list(node.meta, k[0].L))
        if op == "sum":
            return self.form(k[0], side).left(np.ones((1, k[0].L)))
        if op == "dot":
            u, f = (k[0], k[1]) if node.meta == "uf" else (k[1], k[0])
            return self.form(f, side).left(u.a.T)
        if op in ("max", "min", "max1", "min1", "abs"):
            want = 1 if op in ("max", "max1", "abs") else -1
            assert side == want, "epigraph of %s requested on the wrong side" % op
            L = node.L
            t0 = self.newvars(L)
            tf = Form(L, {t0 + i: np.eye(L)[:, i].copy() for i in range(L)})
            if op == "abs":
                f = self.form(k[0], 0)              # affine: side irrelevant
                parts = [f, f.scale(-1.0)]
            elif op in ("max1", "min1"):
                f = self.form(k[0], side)
                parts = [f.take([i]) for i in range(f.L)]
            else:
                parts = [self.form(a, side) for a in k]
            for p in parts:
                # max: p - t <= 0 ; min: t - p <= 0
                self.le0(p.bc(L).add(tf, -1.0) if want > 0 else tf.add(p.bc(L), -1.0))
            return tf
        raise ValueError(op)

    @staticmethod
    def _scalar(node):
        km = node.kids[0] if node.op == "mmul" else node.kids[1]
        f = node.kids[1] if node.op == "mmul" else node.kids[0]
        return km.shape == (1, 1) and (km.kind == "d11" or f.L == 1)

    @staticmethod
    def _scalar_parts(node):
        op, k = node.op, node.kids
        if op in ("smul", "mmul"):
            return k[1], k[0].s
        if op in ("smulr", "imul", "rmul"):
            return k[0], k[1].s
        return k[0], 1.0 / k[1].s         # div, idiv

    # ---- matrices
    def matrices(self, rows):
        A = np.zeros((len(rows), self.n))
        b = np.zeros(len(rows))
        for i, (cols, c) in enumerate(rows):
            for j, v in cols.items():
                A[i, j] = v
            b[i] = -c
        return A, b

    def xsplit(self, z):
        return {v.idx: np.array(z[self.off[v.idx]: self.off[v.idx] + v.n]) for v in self.vars}


def _linprog(cvec, A_ub, b_ub, A_eq, b_eq, bounds):
    from scipy.optimize import linprog
    kw = {}
    if A_ub is not None and len(b_ub):
        kw["A_ub"], kw["b_ub"] = A_ub, b_ub
    if A_eq is not None and len(b_eq):
        kw["A_eq"], kw["b_eq"] = A_eq, b_eq
    return linprog(cvec, bounds=bounds, method="highs", **kw)


def _status(res):
    return {0: "optimal", 2: "infeasible", 3: "unbounded"}.get(res.status, "other:%d" % res.status)


def build(vars_, objective, constraints, weights=None):
    """EpiLP, cost vector, constant.  weights: None = the problem itself; else a list (one array per
    constraint, or None to drop it) -> the Lagrangian  objective + sum_i w_i' f_i  as cost, no rows
    from the constraints (only the epigraph rows of the max terms)."""
    lp = EpiLP(vars_)
    if objective is None:
        cost = Form(1)
    else:
        cost = lp.form(objective, 1)
        assert cost.L == 1
    if weights is None:
        for tree, typ in constraints:
            if typ == "<":
                lp.le0(lp.form(tree, 1).bc(tree.L))
            else:
                lp.eq0(lp.form(tree, 0).bc(tree.L))
    else:
        for (tree, typ), w in zip(constraints, weights):
            if w is None:
                continue
            w = np.asarray(w, dtype=float).reshape(-1)
            f = lp.form(tree, 1 if typ == "<" else 0).bc(tree.L)
            assert len(w) == f.L
            cost = cost.add(f.left(w.reshape(1, -1)))
    cvec = np.zeros(lp.n)
    for j, v in cost.cols.items():
        cvec[j] = v[0]
    return lp, cvec, float(cost.c[0])


def solve(vars_, objective, constraints, box=None):
    """-> dict(status, p, x {var idx: array}, lp).  status in optimal / infeasible / unbounded / other:*"""
    lp, cvec, c0 = build(vars_, objective, constraints)
    A_ub, b_ub = lp.matrices(lp.ub)
    A_eq, b_eq = lp.matrices(lp.eq)
    bounds = [(None, None)] * lp.n
    if box is not None:
        bounds = [(-box, box)] * lp.nx + [(None, None)] * (lp.n - lp.nx)
    res = _linprog(cvec, A_ub, b_ub, A_eq, b_eq, bounds)
    st = _status(res)
    if st != "optimal":
        # HiGHS' presolve may answer "infeasible or unbounded": decide feasibility separately
        s0 = _status(_linprog(np.zeros(lp.n), A_ub, b_ub, A_eq, b_eq, bounds))
        if s0 == "infeasible":
            st = "infeasible"
        elif s0 == "optimal":
            # feasible and no optimum: confirm that the optimum runs away with a huge box
            rb = _linprog(cvec, A_ub, b_ub, A_eq, b_eq, [(-1e7, 1e7)] * lp.n)
            if _status(rb) == "optimal" and rb.fun + c0 < -1e5:
                st = "unbounded"
            else:
                st = "other:unconfirmed-unbounded"
        else:
            st = "other:" + s0
    out = {"status": st, "p": None, "x": None, "lp": lp, "rows": (len(lp.ub), len(lp.eq)), "n": lp.n}
    if st == "optimal":
        out["p"] = float(res.fun) + c0
        out["x"] = lp.xsplit(res.x)
    return out


def lagrangian_bound(vars_, objective, constraints, weights, box):
    """min over |x|_inf <= box of  objective(x) + sum_i w_i' f_i(x)   (w_i >= 0 for '<' rows; negative
    entries of inequality weights are clipped to 0 so that the minimisation stays convex).
    objective None -> 0 (infeasibility certificates)."""
    ws = []
    for (tree, typ), w in zip(constraints, weights):
        if w is None:
            ws.append(None)
        else:
            w = np.asarray(w, dtype=float).reshape(-1)
            ws.append(np.maximum(w, 0.0) if typ == "<" else w)
    lp, cvec, c0 = build(vars_, objective, constraints, ws)
    A_ub, b_ub = lp.matrices(lp.ub)
    bounds = [(-box, box)] * lp.nx + [(None, None)] * (lp.n - lp.nx)
    res = _linprog(cvec, A_ub, b_ub, None, None, bounds)
    st = _status(res)
    out = {"status": st, "value": (float(res.fun) + c0) if st == "optimal" else None, "x": None}
    if st == "optimal":
        # self-check of the epigraph construction: at the minimiser the LP value is the formula's value
        x = lp.xsplit(res.x)
        direct = float(objective.fn(x)[0]) if objective is not None else 0.0
        scale = max(1.0, abs(direct))
        for (tree, typ), w in zip(constraints, ws):
            if w is not None:
                t = float(w @ S._bc(tree.fn(x), tree.L))
                direct += t
                scale = max(scale, abs(t), float(np.abs(w) @ S._bc(tree.mg(x), tree.L)))
        out["x"], out["direct"] = x, direct
        assert abs(direct - out["value"]) <= 1e-5 * scale, ("oracle self-check: epigraph LP value %r, formula at its minimiser %r"
                                                         % (out["value"], direct))
    return out


def dual_infeasible(vars_, objective, constraints):
    """True if the objective decreases along a recession direction of the constraints
    (homogeneous epigraph LP over the unit box): then 'dual infeasible' is a correct answer
    even when the problem is primal infeasible as well."""
    lp, cvec, c0 = build(vars_, objective, constraints)
    A_ub, _ = lp.matrices(lp.ub)
    A_eq, _ = lp.matrices(lp.eq)
    bounds = [(-1.0, 1.0)] * lp.nx + [(None, None)] * (lp.n - lp.nx)
    res = _linprog(cvec, A_ub, np.zeros(A_ub.shape[0]), A_eq, np.zeros(A_eq.shape[0]), bounds)
    return _status(res) == "unbounded" or (_status(res) == "optimal" and res.fun < -1e-7)


def rank_ok(vars_, constraints):
    """the equality rows (as the oracle forms them) have full row rank"""
    lp = EpiLP(vars_)
    for tree, typ in constraints:
        if typ == "=":
            lp.eq0(lp.form(tree, 0).bc(tree.L))
    if not lp.eq:
        return True
    A, _ = lp.matrices(lp.eq)
    return np.linalg.matrix_rank(A, tol=1e-9) == A.shape[0]


def selftest():
    """hand-computed fixtures; raises AssertionError when the oracle itself is broken"""
    x = S.Var(0, 2, "x")
    X = S.n_var(x)
    # minimise |x0| + |x1 - 1|  s.t. x0 + x1 >= 3, box 10   -> p* = 2  (e.g. x = (2,1) or (0,3))
    obj = S.n_add(S.n_abs(S.n_index(X, ("int", 0))),
                  S.n_abs(S.n_add(S.n_index(X, ("int", 1)), S.K("float", 1.0), -1)))
    con = S.n_add(S.K("float", 3.0), S.n_sum(X), -1)         # 3 - sum(x) <= 0
    box = [(S.n_add(X, S.K("float", 10.0), -1), "<"), (S.n_add(S.n_neg(X), S.K("float", 10.0), -1), "<")]
    r = solve([x], obj, [(con, "<")] + box)
    assert r["status"] == "optimal" and abs(r["p"] - 2.0) < 1e-9, r
    # dual: multiplier 1 on the constraint -> min_x |x0|+|x1-1| + (3 - x0 - x1) = 2
    lb = lagrangian_bound([x], obj, [(con, "<")] + box, [[1.0], None, None], 10.0)
    assert lb["status"] == "optimal" and abs(lb["value"] - 2.0) < 1e-9, lb
    lb = lagrangian_bound([x], obj, [(con, "<")] + box, [[0.5], None, None], 10.0)
    assert lb["value"] < 2.0 - 1e-6
    # infeasible / unbounded
    r = solve([x], obj, [(con, "<"), (S.n_add(S.n_sum(X), S.K("float", 1.0), -1), "<")])
    assert r["status"] == "infeasible", r
    r = solve([x], S.n_neg(S.n_sum(X)), [(con, "<")])
    assert r["status"] == "unbounded", r
    # max with scalar argument, min on the concave side:  maximise min(x0, x1, 2) s.t. sum(x) <= 3 -> 1.5
    o2 = S.n_neg(S.n_minmax("min", [S.n_index(X, ("int", 0)), S.n_index(X, ("int", 1)), S.K("float", 2.0)]))
    r = solve([x], o2, [(S.n_add(S.n_sum(X), S.K("float", 3.0), -1), "<")])
    assert r["status"] == "optimal" and abs(r["p"] + 1.5) < 1e-9, r
