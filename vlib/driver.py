"""Driver: build, launch workers, merge journals, evidence, verdict."""
import sys, os, json, time, subprocess, tempfile, shutil, argparse, importlib, fcntl, signal, glob

HERE = os.path.dirname(os.path.dirname(os.path.abspath(__file__)))
sys.path.insert(0, HERE)
from vlib import build as vbuild

VENV_PY = "/venv/bin/python"
WHEELS = "/opt/veriftools/wheels"


def deps_dir():
    d = os.environ.get("VERIF_DEPS")
    if d:
        return d
    local = os.path.join(HERE, ".deps")
    if not os.path.isdir(os.path.join(local, "numpy")) and os.path.isdir("/verif/.deps/numpy") \
            and os.path.isdir("/verif/.deps/scipy"):
        return "/verif/.deps"
    return local


def ensure_deps():
    d = deps_dir()
    if os.path.isdir(os.path.join(d, "numpy")) and os.path.isdir(os.path.join(d, "scipy")) \
            and os.path.exists(os.path.join(d, ".ok")):
        return d
    os.makedirs(d, exist_ok=True)
    with open(os.path.join(d, ".lock"), "w") as lk:
        fcntl.flock(lk, fcntl.LOCK_EX)
        if not os.path.exists(os.path.join(d, ".ok")):
            env = dict(os.environ, PIP_NO_INDEX="1", PIP_DISABLE_PIP_VERSION_CHECK="1")
            r = subprocess.run([VENV_PY, "-m", "pip", "install", "-q", "--no-index", "--find-links", WHEELS,
                                "--target", d, "--upgrade", "numpy", "scipy"],
                               capture_output=True, text=True, env=env)
            if r.returncode != 0:
                raise RuntimeError("pip install numpy scipy failed:\n" + r.stdout + r.stderr)
            open(os.path.join(d, ".ok"), "w").write("ok\n")
    return d


def load_known():
    p = os.path.join(HERE, "known_findings.json")
    if not os.path.exists(p):
        return []
    return json.load(open(p)).get("findings", [])


def write_evidence(prop, tier, seed, level, coverage, assumptions, wall, violations, extra=None):
    os.makedirs(os.path.join(HERE, "evidence"), exist_ok=True)
    ev = {"property_id": prop, "tier": tier, "seed": seed, "level": level,
          "coverage": coverage, "assumptions": assumptions, "wall_s": round(wall, 2),
          "violations": violations}
    if extra:
        ev.update(extra)
    tmp = os.path.join(HERE, "evidence", prop + ".json.tmp")
    with open(tmp, "w") as f:
        json.dump(ev, f, indent=1, sort_keys=True)
    os.replace(tmp, os.path.join(HERE, "evidence", prop + ".json"))


def read_journal(path):
    recs = []
    try:
        with open(path) as f:
            for line in f:
                line = line.strip()
                if not line:
                    continue
                try:
                    recs.append(json.loads(line))
                except Exception:
                    pass
    except FileNotFoundError:
        pass
    return recs


def valgrind_blocks(text):
    """memcheck error blocks whose stack contains a frame of a cvxopt module built from /repo.
    returns list of (kind, top cvxopt frame, block text)"""
    import re
    out = []
    blocks = re.split(r"(?m)^==\d+== \n", text)
    for b in blocks:
        m = re.search(r"==\d+== (Invalid read of size \d+|Invalid write of size \d+|Conditional jump or move depends on uninitialised value|"
                      r"Use of uninitialised value of size \d+|Invalid free|Mismatched free|Syscall param .* uninitialised)", b)
        if not m:
            continue
        frames = re.findall(r"(?:at|by) 0x[0-9A-F]+: (\S+) \(in [^)]*?/cvxopt/((?:base|blas|lapack|misc_solvers)\.[^)/]*\.so)\)", b)
        frames += [(fn, f) for fn, f in re.findall(r"(?:at|by) 0x[0-9A-F]+: (\S+) \((\w+\.c):\d+\)", b)
                   if f in ("base.c", "dense.c", "sparse.c", "blas.c", "lapack.c", "misc_solvers.c")]
        if not frames:
            continue
        out.append((re.sub(r" of size \d+", "", m.group(1)).replace(" ", "-"), frames[0][0], b[:1500]))
    return out


def sanitizer_blocks(text):
    n = 0
    kinds = []
    for line in text.splitlines():
        if "ERROR: AddressSanitizer" in line or "runtime error:" in line or line.startswith("VGUARD:"):
            n += 1
            kinds.append(line.strip()[:300])
    return n, kinds


def main(argv):
    ap = argparse.ArgumentParser()
    ap.add_argument("prop")
    ap.add_argument("--tier", default=os.environ.get("VERIF_TIER", "quick"))
    ap.add_argument("--replay", default=None)
    ap.add_argument("--keep", action="store_true")
    ap.add_argument("--jobs", type=int, default=int(os.environ.get("VERIF_JOBS", "16")))
    a = ap.parse_args(argv)
    prop = a.prop.upper()
    tier = a.tier
    seed = int(os.environ.get("VERIF_SEED", "0"))
    t0 = time.time()
    mod = importlib.import_module("props." + prop.lower())
    level = getattr(mod, "LEVEL", "exploration")
    assumptions = list(getattr(mod, "ASSUMPTIONS", []))

    replay = None
    if a.replay:
        replay = json.load(open(a.replay))
        seed = int(replay["seed"])
        tier = replay.get("tier", tier)

    try:
        deps = ensure_deps() if getattr(mod, "NEEDS_NUMPY", True) else None
    except Exception as e:
        print("INCONCLUSIVE property=%s deps: %s" % (prop, e))
        return 2

    groups = mod.plan(tier)
    only = os.environ.get("VERIF_GROUPS")       # debugging aid: run a subset of the worker groups
    if only:
        groups = [g for g in groups if g.get("name", g["variant"]) in only.split(",")]
    if replay:
        groups = [g for g in groups if g.get("name", g["variant"]) == replay["group"]] or groups[:1]
        for g in groups:
            g["workers"] = 1
    scratch = tempfile.mkdtemp(prefix="cvxopt-verif-")
    roots = {}
    try:
        for v in sorted(set(g["variant"] for g in groups)):
            try:
                roots[v] = vbuild.build(v, scratch)
            except vbuild.BuildFailed as e:
                print("BUILD-FAILED variant=%s\n%s" % (v, str(e)[-3000:]))
                print("INCONCLUSIVE property=%s (build failed)" % prop)
                return 2
        jdir = os.path.join(scratch, "journals")
        os.makedirs(jdir)
        # launch
        procs = []
        pending = []
        for g in groups:
            gname = g.get("name", g["variant"])
            for i in range(g["workers"]):
                w = replay["worker"] if replay else i
                pending.append((g, gname, w))
        running = []
        results = []   # (g, gname, w, returncode, journal, stderrfile, timedout)
        watchdog = int(os.environ.get("VERIF_WATCHDOG", getattr(mod, "WATCHDOG", {}).get(tier, 3000)))

        def launch(g, gname, w):
            jp = os.path.join(jdir, "%s-%d.jsonl" % (gname, w))
            ep = os.path.join(jdir, "%s-%d.stderr" % (gname, w))
            env = vbuild.worker_env(roots[g["variant"]], g["variant"], [deps] if deps else [])
            env.update(g.get("env", {}))
            env["VERIF_SCRATCH"] = scratch
            env["VERIF_ROOT_" + g["variant"].upper()] = roots[g["variant"]]
            for v2, r2 in roots.items():
                env["VERIF_ROOT_" + v2.upper()] = r2
            cmd = list(g.get("wrap", [])) + [VENV_PY, "-X", "faulthandler", "-m", "vlib.worker", prop, "--seed", str(seed),
                   "--tier", tier, "--worker", str(w), "--nworkers", str(g["workers"]),
                   "--cases", str(g["cases"]), "--variant", g["variant"], "--journal", jp,
                   "--params", json.dumps(dict(g.get("params", {}), group=gname))]
            if replay:
                cmd += ["--only", str(replay["k"])]
            ef = open(ep, "w")
            p = subprocess.Popen(cmd, cwd=scratch, env=env, stdout=ef, stderr=subprocess.STDOUT,
                                 start_new_session=True)
            return [p, g, gname, w, jp, ep, time.time(), ef]

        while pending or running:
            while pending and len(running) < a.jobs:
                running.append(launch(*pending.pop(0)))
            time.sleep(0.05)
            still = []
            for r in running:
                p = r[0]
                rc = p.poll()
                if rc is None:
                    if time.time() - r[6] > watchdog:
                        try:
                            os.killpg(p.pid, signal.SIGKILL)
                        except Exception:
                            p.kill()
                        p.wait()
                        r[7].close()
                        results.append((r[1], r[2], r[3], None, r[4], r[5], True))
                    else:
                        still.append(r)
                else:
                    r[7].close()
                    results.append((r[1], r[2], r[3], rc, r[4], r[5], False))
            running = still

        # merge
        known = [k for k in load_known() if k.get("property") == prop and k.get("status", "open") == "open"]
        counters, maxima, sigs, samples = {}, {}, {}, []
        evaluations = cases = timeouts = 0
        violations = []     # (key, msg, record)
        inconclusive = []
        san_blocks = 0
        per_group = {}
        for (g, gname, w, rc, jp, ep, timedout) in results:
            recs = read_journal(jp)
            done = [r for r in recs if r.get("done")]
            errtxt = ""
            try:
                errtxt = open(ep, errors="replace").read()
            except Exception:
                pass
            nb, kinds = sanitizer_blocks(errtxt)
            san_blocks += nb
            if g.get("wrap") and "valgrind" in g["wrap"][0]:
                vb = valgrind_blocks(errtxt)
                counters["valgrind.error-blocks-with-cvxopt-frames"] = counters.get("valgrind.error-blocks-with-cvxopt-frames", 0) + len(vb)
                counters["valgrind.workers"] = counters.get("valgrind.workers", 0) + 1
                seenv = set()
                for kind, fn, blk in vb:
                    if (kind, fn) in seenv:
                        continue
                    seenv.add((kind, fn))
                    violations.append(("valgrind:%s:%s" % (kind, fn), blk[:1200], {"group": gname, "variant": g["variant"], "worker": w, "k": -1}))
            for r in recs:
                if r.get("verdict") == "violated":
                    for v in r["violations"]:
                        violations.append((v["key"], v["msg"], dict(r, group=gname, variant=g["variant"])))
            if done:
                d = done[-1]
                evaluations += d["evaluations"]
                cases += d["cases"]
                timeouts += d.get("timeouts", 0)
                pg = per_group.setdefault(gname, {"cases": 0, "evaluations": 0, "workers": 0})
                pg["cases"] += d["cases"]; pg["evaluations"] += d["evaluations"]; pg["workers"] += 1
                for k, v in d["counters"].items():
                    counters[k] = counters.get(k, 0) + v
                for k, v in d["maxima"].items():
                    maxima[k] = max(maxima.get(k, -1), v)
                for k, v in d["sigs"].items():
                    sigs[k] = sigs.get(k, 0) + v
                for s in d["samples"]:
                    if len(samples) < 6:
                        samples.append(s)
            if timedout:
                inconclusive.append("worker %s/%d: watchdog (%ds) fired" % (gname, w, watchdog))
            elif not done or rc != 0:
                # died: last begin without end is the witness
                begins = {}
                for r in recs:
                    if "begin" in r:
                        begins[r["begin"]] = r
                    elif "end" in r:
                        begins.pop(r["end"], None)
                wit = list(begins.values())[-1] if begins else None
                sig = ("signal %d" % -rc) if (rc is not None and rc < 0) else ("exit %s" % rc)
                if wit is not None or (rc is not None and rc < 0) or nb:
                    kk = "crash"
                    if hasattr(mod, "classify_crash"):
                        kk = mod.classify_crash(wit, errtxt, rc)
                    violations.append((kk, "worker died (%s) %s" % (sig, "; ".join(kinds[:3])),
                                       {"witness": wit, "stderr": errtxt[-4000:], "group": gname,
                                        "variant": g["variant"], "worker": w,
                                        "k": int(wit["begin"].rsplit("-", 1)[1]) if wit else -1}))
                else:
                    inconclusive.append("worker %s/%d exited %s without finishing: %s" %
                                        (gname, w, rc, errtxt[-1500:]))
            elif nb:
                violations.append(("sanitizer-report", "; ".join(kinds[:3]),
                                   {"stderr": errtxt[-4000:], "group": gname, "variant": g["variant"],
                                    "worker": w, "k": -1}))

        # property-level checks on the merged counters (rates, conservation)
        if hasattr(mod, "post_check") and not replay:
            for key, msg in mod.post_check(counters, maxima, tier):
                violations.append((key, msg, {"group": "post", "variant": "-", "worker": 0, "k": -1, "counters": counters}))

        # classify violations against known findings
        os.makedirs(os.path.join(HERE, "replays"), exist_ok=True)
        new_v, known_hits = [], {}
        for key, msg, rec in violations:
            kf = None
            for k in known:
                if key == k["key"] or (k.get("prefix") and key.startswith(k["key"])):
                    kf = k
                    break
            if kf is not None:
                known_hits.setdefault(kf["key"], [kf, 0])[1] += 1
            else:
                new_v.append((key, msg, rec))
        for key, (kf, n) in sorted(known_hits.items()):
            print("KNOWN-FINDING: property=%s %s [%s] (%d occurrences this run)" % (prop, kf["what"], key, n))
        replays = []
        seen_keys = {}
        for key, msg, rec in new_v:
            seen_keys[key] = seen_keys.get(key, 0) + 1
            if seen_keys[key] > 3:
                continue
            k = rec.get("k", -1)
            w = rec.get("worker", 0)
            name = "%s-%d-%s-%s-%s.json" % (prop, seed, rec.get("group", "g"), w, k)
            path = os.path.join(HERE, "replays", name)
            json.dump({"property": prop, "seed": seed, "tier": tier, "group": rec.get("group"),
                       "worker": w, "k": k, "key": key, "msg": msg, "record": rec}, open(path, "w"), indent=1)
            replays.append(path)
            print("VIOLATION property=%s replay=%s" % (prop, path))
            print("  key=%s\n  %s" % (key, msg.replace("\n", "\n  ")[:1500]))
        if len(new_v) > len(replays):
            print("  (%d further violations with the same keys not written out: %s)" %
                  (len(new_v) - len(replays), json.dumps(seen_keys)))

        # deciding monitors reached?
        required = getattr(mod, "REQUIRED_COUNTERS", {}).get(tier, getattr(mod, "REQUIRED_COUNTERS", {}).get("quick", [])) \
            if isinstance(getattr(mod, "REQUIRED_COUNTERS", None), dict) else getattr(mod, "REQUIRED_COUNTERS", [])
        if not replay:
            for rc_name in required:
                if counters.get(rc_name, 0) <= 0:
                    inconclusive.append("deciding counter '%s' is zero" % rc_name)
            if evaluations <= 0:
                inconclusive.append("no deciding evaluation happened")
            if timeouts > max(3, cases // 20):
                inconclusive.append("%d case timeouts" % timeouts)

        coverage = {
            "evaluations": evaluations,
            "distinct_nontrivial": len(sigs),
            "rule": getattr(mod, "RULE", ""),
            "samples": samples if samples else [{"note": "no sample recorded"}],
            "cases": cases,
            "exhaustive": bool(getattr(mod, "EXHAUSTIVE", False)),
            "counters": dict(sorted(counters.items())),
            "max_observed": dict(sorted(maxima.items())),
            "class_signatures_top": dict(sorted(sigs.items(), key=lambda kv: -kv[1])[:40]),
            "per_group": per_group,
            "sanitizer_or_guard_report_blocks": san_blocks,
            "case_timeouts": timeouts,
            "known_findings_hit": {k: v[1] for k, v in known_hits.items()},
            "inconclusive_reasons": inconclusive,
        }
        if hasattr(mod, "explain"):
            coverage["explanation"] = mod.explain(tier)
        if not replay:
            write_evidence(prop, tier, seed, level, coverage, assumptions, time.time() - t0, len(new_v))
        verdict = "violated" if new_v else ("inconclusive" if inconclusive else "held")
        print("%s property=%s tier=%s seed=%d cases=%d evaluations=%d distinct=%d wall=%.1fs" %
              (verdict.upper(), prop, tier, seed, cases, evaluations, len(sigs), time.time() - t0))
        for r in inconclusive:
            print("  inconclusive: " + r[:500])
        if new_v:
            return 1
        if inconclusive:
            return 2
        return 0
    finally:
        if not a.keep:
            shutil.rmtree(scratch, ignore_errors=True)
        else:
            print("kept scratch:", scratch)
