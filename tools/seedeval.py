#!/usr/bin/env python3
"""Evaluate the checks against seeded changes.

usage: tools/seedeval.py [--tier quick] [--seeds 0,1] [--checks C01,C05] seeded/<dir> ...

For every seeded/<dir>/patch.diff: create a scratch worktree of /repo HEAD (outside /repo and /verif), apply the patch,
run the listed checks (default: meta.json "property") with VERIF_REPO pointing at the worktree, report which
violation keys fired, remove the worktree.  Evidence files written during the evaluation are restored afterwards."""
import os, sys, json, subprocess, tempfile, shutil, argparse, re
HERE = os.path.dirname(os.path.dirname(os.path.abspath(__file__)))
ap = argparse.ArgumentParser()
ap.add_argument("dirs", nargs="+")
ap.add_argument("--tier", default="quick")
ap.add_argument("--seeds", default="0")
ap.add_argument("--checks", default=None)
a = ap.parse_args()
results = {}
for d in a.dirs:
    d = d.rstrip("/")
    meta = json.load(open(os.path.join(d, "meta.json"))) if os.path.exists(os.path.join(d, "meta.json")) else {}
    checks = a.checks.split(",") if a.checks else meta.get("checks", [meta.get("property", os.path.basename(d).split("-")[0])])
    wt = tempfile.mkdtemp(prefix="cvxopt-seedeval-")
    os.rmdir(wt)
    subprocess.run(["git", "-C", "/repo", "worktree", "add", "-q", "--detach", wt, "HEAD"], check=True)
    try:
        r = subprocess.run(["git", "-C", wt, "apply", os.path.abspath(os.path.join(d, "patch.diff"))], capture_output=True, text=True)
        if r.returncode:
            print("%s: PATCH DOES NOT APPLY: %s" % (d, r.stderr.strip()[:300])); results[d] = "no-apply"; continue
        out = {}
        for chk in checks:
            ev = os.path.join(HERE, "evidence", chk + ".json")
            bak = open(ev).read() if os.path.exists(ev) else None
            keys = set(); rcs = []
            for s in a.seeds.split(","):
                env = dict(os.environ, VERIF_REPO=wt, VERIF_SEED=s)
                p = subprocess.run([os.path.join(HERE, "check"), chk, "--tier", a.tier], capture_output=True, text=True, env=env, cwd=HERE)
                rcs.append(p.returncode)
                keys |= set(re.findall(r"^  key=(\S+)", p.stdout, flags=re.M))
                if "BUILD-FAILED" in p.stdout: keys.add("BUILD-FAILED")
                for l in p.stdout.splitlines():
                    if l.startswith("  inconclusive"): keys.add(l.strip()[:80])
            if bak is not None: open(ev, "w").write(bak)
            out[chk] = {"exit": rcs, "keys": sorted(keys)}
            print("%s  %s: exit %s  %s" % (d, chk, rcs, sorted(keys)[:8]))
        results[d] = out
    finally:
        subprocess.run(["git", "-C", "/repo", "worktree", "remove", "--force", wt])
json.dump(results, open("/tmp/seedeval-last.json", "w"), indent=1)
