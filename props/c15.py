"""C15  Dense matrices behave like the column-major arrays the manual describes.

Random operation programs (<= 30 source lines) over a pool of dense matrices with aliases are
executed line by line on cvxopt and on the pure-Python reference model
(vlib/oracle/refmat.py, written from doc/source/matrices.rst).  After every line: equal
raise / no-raise outcome (exception class inside the set the manual allows), and for every
live variable equal typecode, size, values (exact for 'i' and for data movement, 1e-14 x
magnitude for 'd'/'z' arithmetic) and equal identity structure (which names are one object).
Results of regular operations are mutated afterwards to show that they share no storage with
their operands."""
import math

LEVEL = "exploration"
TECHNIQUE = "model-based lock-step testing against a reference column-major matrix"
LEVEL_TEXT = ("random programs of documented dense-matrix operations executed in lock step on "
              "cvxopt and on a pure-Python model of matrices.rst; every variable compared after every line")
RULE = ("each case = one program of <= 30 lines over a pool of <= 6 names (with aliases); each line is one "
        "operation class of the property (construction, 1/2-argument read, indexed assignment, arithmetic, "
        "in-place arithmetic, transposes/real/imag/abs, size assignment, built-ins, elementwise functions, "
        "integer-overflow class); distinct = set of (operation class : sub-kind) labels executed by the program")
ASSUMPTIONS = [
    "cases the manual does not define (bool as number, 1x1 sparse operand as scalar, duplicate indices on the "
    "left-hand side with different values, right-hand side aliasing the assigned matrix, max/min of complex, "
    "**=, magnitudes >= 2^53 / > 1e100, negative base with fractional real exponent, div() of two integer "
    "operands) are executed but not judged; they are counted under unspec.*",
    "the sign convention of the integer/real remainder for operands of different sign is not documented: "
    "Python's (floor) and C's (truncation) results are both accepted",
    "out-of-range indices must raise IndexError; where the manual leaves the exception class open any of "
    "TypeError/ValueError/NotImplementedError (type or size errors) resp. ZeroDivisionError/ValueError/"
    "ArithmeticError/OverflowError (arithmetic domain errors) is accepted; SystemError never is",
    "index values stay below 100 in magnitude, except the two-integer form A[i,j] with i or j beyond 32 bits (must raise IndexError); "
    "other indices near 2^31/2^63 belong to C19",
    "after an operation that raised, every variable must be unchanged",
]
REQUIRED_COUNTERS = [
    "c15.outcome.value", "c15.outcome.raised.IndexError", "c15.outcome.raised.TypeError",
    "c15.class.construct", "c15.construct.strided-buffer", "c15.class.alias", "c15.class.getitem1", "c15.class.getitem2",
    "c15.class.setitem1", "c15.class.setitem2", "c15.class.binop", "c15.class.inplace",
    "c15.class.unary", "c15.class.size", "c15.class.query", "c15.class.elementwise", "c15.class.overflow",
    "c15.class.mutate-result", "c15.inplace.1x1-lhs-matrix-rhs", "c15.query.bool-special-contents", "c15.construct.from-buffer-with-earlier-export-alive", "c15.self-index.both", "c15.overflow.index2-beyond-int32", "c15.overflow.unary-beyond-int32", "c15.overflow.size-beyond-int32", "c15.overflow.rem-minus-one", "c15.overflow.numbers-only-mul", "c15.overflow.numbers-only-emax",
    "c15.index.int", "c15.index.negint", "c15.index.int-oor", "c15.index.slice", "c15.index.list",
    "c15.index.list-neg", "c15.index.list-oor", "c15.index.list-empty", "c15.index.imat", "c15.index.imat-neg",
    "c15.index.imat-oor",
    "c15.binop.+", "c15.binop.-", "c15.binop.*", "c15.binop./", "c15.binop.%", "c15.binop.**",
    "c15.inplace.+=", "c15.inplace.-=", "c15.inplace.*=", "c15.inplace./=", "c15.inplace.%=",
    "c15.tcpair.ii", "c15.tcpair.id", "c15.tcpair.iz", "c15.tcpair.di", "c15.tcpair.dd", "c15.tcpair.dz",
    "c15.tcpair.zi", "c15.tcpair.zd", "c15.tcpair.zz",
    "c15.pairing.matrix-matrix", "c15.pairing.matrix-number", "c15.pairing.number-matrix",
    "c15.pairing.matrix-1x1", "c15.pairing.1x1-matrix",
    "c15.inplace-through-alias", "c15.shape.zero-rows", "c15.shape.zero-cols",
]
WATCHDOG = {"quick": 600, "thorough": 3000}

NAMES = ["A", "B", "C", "D", "E", "F"]


# glibc fills freed blocks with a pattern: a matrix whose buffer was freed behind its back shows
# different values at once (plain build; the asan build reports the access itself)
PERTURB = {"MALLOC_PERTURB_": "85"}


def plan(tier):
    if tier == "thorough":
        return [{"variant": "plain", "workers": 12, "cases": 5000, "name": "plain", "env": PERTURB},
                {"variant": "asan", "workers": 4, "cases": 500, "name": "asan"}]
    return [{"variant": "plain", "workers": 7, "cases": 600, "name": "plain", "env": PERTURB},
            {"variant": "asan", "workers": 1, "cases": 80, "name": "asan"}]


def run(ctx):
    from vlib.oracle import refmat as R
    from vlib.oracle.refmat import Ref, Lockstep

    assert R.selftest()
    real_base = R.real_namespace()
    ref_base = R.ref_namespace()

    rnum, rtc, rdim, vals_src, lit, divisors = R.rnum, R.rtc, R.rdim, R.vals_src, R.lit, R.divisors
    index_src, primary = R.index_src, R.primary

    # ------------------------------------------------------------------ one program
    def one(c):
        rng = c.rng
        real = dict(real_base)
        ref = dict(ref_base)
        # buffer exports held across later statements: the library side keeps real memoryviews, the model needs none
        held = []
        real["hold"] = lambda A: held.append(memoryview(A))
        ref["hold"] = lambda A: None
        real["viewof"] = lambda A: memoryview(A)
        ref["viewof"] = lambda A: ref_base["matrix"](A)
        ls = Lockstep(c, ctx, real, ref, NAMES, "c15")
        labels = set()

        def do(src, label, result=None):
            cls = label.split(":")[0]
            ctx.count("c15.class." + cls)
            labels.add(label)
            return ls.step(src, label, result)

        def pick():
            return rng.choice(ls.live())

        def shape_counts(r):
            if r.m == 0:
                ctx.count("c15.shape.zero-rows")
            if r.n == 0:
                ctx.count("c15.shape.zero-cols")
            if r.m == 1 and r.n == 1:
                ctx.count("c15.shape.1x1")

        def target():
            return rng.choice(NAMES)

        def mutate_result(name):
            """regular operations return new objects: write into the result, operands must not move"""
            r = ls.ref.get(name)
            if ls.dead or r is None or r.m * r.n == 0:
                return
            k = rng.randrange(r.m * r.n)
            do("%s[%d] = %r" % (name, k, rnum(rng, r.tc)), "mutate-result")

        # ---- step generators -------------------------------------------
        def g_construct():
            t = target()
            kind = rng.choice(["number", "number-size", "number-size-tc", "list", "list-size", "list-size-tc",
                               "tuple", "range", "array", "matrix", "matrix-size", "matrix-tc", "blocks", "blocks",
                               "blocks-size", "sparse", "invalid", "list-badsize", "empty"])
            m, n = rdim(rng), rdim(rng)
            tc = rtc(rng)
            if kind == "number":
                src = "matrix(%r)" % (rnum(rng, tc),)
            elif kind == "number-size":
                src = "matrix(%r, (%d,%d))" % (rnum(rng, tc), m, n)
            elif kind == "number-size-tc":
                src = "matrix(%r, (%d,%d), '%s')" % (rnum(rng, rtc(rng)), m, n, tc)
            elif kind == "list":
                src = "matrix(%s)" % vals_src([rnum(rng, rng.choice([tc, tc, "i"])) for _ in range(m * n)])
            elif kind == "list-size":
                src = "matrix(%s, (%d,%d))" % (vals_src([rnum(rng, tc) for _ in range(m * n)]), m, n)
            elif kind == "list-size-tc":
                src = "matrix(%s, (%d,%d), '%s')" % (vals_src([rnum(rng, rtc(rng)) for _ in range(m * n)]), m, n, tc)
            elif kind == "list-badsize":
                src = "matrix(%s, (%d,%d))" % (vals_src([rnum(rng, tc) for _ in range(m * n + rng.choice([1, 2, -1]) if m * n else 1)]), m, n)
            elif kind == "tuple":
                src = "matrix(%s, (%d,%d))" % (tuple(rnum(rng, tc) for _ in range(m * n)), m, n)
            elif kind == "range":
                src = rng.choice(["matrix(range(%d), (%d,%d))" % (m * n, m, n), "matrix(range(%d))" % (m * n),
                                  "matrix(range(%d), (%d,%d), '%s')" % (m * n, m, n, tc)])
            elif kind == "array":
                atc = rng.choice(["i", "l", "d"])
                vals = [rnum(rng, "d" if atc == "d" else "i") for _ in range(m * n)]
                src = rng.choice(["matrix(array('%s', %s), (%d,%d))" % (atc, vals_src(vals), m, n),
                                  "matrix(array('%s', %s))" % (atc, vals_src(vals)),
                                  "matrix(array('%s', %s), (%d,%d), '%s')" % (atc, vals_src(vals), m, n, tc)])
                if m * n and rng.random() < 0.4:
                    # the same elements seen through a NON-contiguous 1-D buffer (stride 2, 3 or -1 over a longer array)
                    step = rng.choice([2, 3, -1, -2])
                    start = rng.randint(0, 2) if step > 0 else None
                    L = m * n
                    if step > 0:
                        big = [rnum(rng, "d" if atc == "d" else "i") for _ in range(start + (L - 1) * step + 1 + rng.randint(0, 2))]
                        big = big[:start + (L - 1) * step + 1]
                        stx = "%d" % start
                    else:
                        big = [rnum(rng, "d" if atc == "d" else "i") for _ in range((L - 1) * (-step) + 1)]
                        stx = "None"
                    src = rng.choice(["matrix(strided(array('%s', %s), %s, %d), (%d,%d))" % (atc, vals_src(big), stx, step, m, n),
                                      "matrix(strided(array('%s', %s), %s, %d))" % (atc, vals_src(big), stx, step),
                                      "matrix(strided(array('%s', %s), %s, %d), (%d,%d), '%s')" % (atc, vals_src(big), stx, step, m, n, tc)])
                    ctx.count("c15.construct.strided-buffer")
            elif kind == "empty":
                src = rng.choice(["matrix([])", "matrix([], (0,%d))" % n, "matrix([], (%d,0), '%s')" % (m, tc),
                                  "matrix([[]])", "matrix([[], []])", "matrix(%r, (0,%d))" % (rnum(rng, tc), n),
                                  "matrix((), (%d,0))" % m])
            elif kind in ("matrix", "matrix-size", "matrix-tc"):
                p = pick()
                r = ls.ref[p]
                if kind == "matrix":
                    src = "matrix(%s)" % p
                elif kind == "matrix-size":
                    k = r.m * r.n
                    if k and rng.random() < 0.8:
                        d = rng.choice(divisors(k))
                        src = "matrix(%s, (%d,%d))" % (p, d, k // d)
                    elif k == 0 and rng.random() < 0.8:
                        src = "matrix(%s, %s)" % (p, rng.choice(["(0,0)", "(0,2)", "(3,0)"]))
                    else:
                        src = "matrix(%s, (%d,%d))" % (p, m, n)
                else:
                    src = rng.choice(["matrix(%s, tc='%s')" % (p, tc), "matrix(%s, (%d,%d), '%s')" % (p, r.m, r.n, tc)])
            elif kind in ("blocks", "blocks-size"):
                style = rng.choice(["column", "row", "grid", "mixed", "random", "numbers"])
                p, q = pick(), pick()
                rp, rq = ls.ref[p], ls.ref[q]
                if style == "column":
                    items = [p, rng.choice([p, lit(rng, rtc(rng), rdim(rng), rp.n)])]
                    if rp.n == 1 and rng.random() < 0.5:
                        items.insert(rng.randrange(3), repr(rnum(rng, rtc(rng))))
                    body = "[" + ", ".join(items) + "]"
                elif style == "row":
                    body = "[[%s], [%s]]" % (p, rng.choice([p, lit(rng, rtc(rng), rp.m, rdim(rng))]))
                elif style == "grid":
                    a, b = rdim(rng), rdim(rng)
                    body = "[[%s, %s], [%s, %s]]" % (p, lit(rng, rtc(rng), a, rp.n), lit(rng, rtc(rng), rp.m, b),
                                                     lit(rng, rtc(rng), a, b))
                elif style == "mixed":
                    body = "[[%s, %r], [%s]]" % (lit(rng, rtc(rng), 2, 1), rnum(rng, rtc(rng)), lit(rng, rtc(rng), 3, 2))
                elif style == "numbers":
                    rows, cols = rng.randint(1, 3), rng.randint(1, 3)
                    body = "[" + ", ".join("[" + ", ".join(repr(rnum(rng, rtc(rng))) for _ in range(rows)) + "]"
                                           for _ in range(cols)) + "]"
                    if rng.random() < 0.2:
                        body = body[:-1] + ", [1]]"
                else:
                    body = "[[%s, %s], [%s]]" % (p, q, rng.choice([p, q]))
                if kind == "blocks":
                    src = "matrix(%s)" % body if rng.random() < 0.7 else "matrix(%s, tc='%s')" % (body, tc)
                else:
                    kind_, val_ = R.evaluate(lambda: eval("matrix(%s)" % body, dict(ls.ref)))
                    k = (val_.m * val_.n) if kind_ == "value" else m * n
                    if k and rng.random() < 0.8:
                        d = rng.choice(divisors(k))
                        src = "matrix(%s, (%d,%d))" % (body, d, k // d)
                    else:
                        src = "matrix(%s, (%d,%d))" % (body, m, n)
                    if rng.random() < 0.3:
                        src = src[:-1] + ", '%s')" % tc
            elif kind == "sparse":
                nn = rng.randint(0, 4)
                mm, nn2 = max(m, 1), max(n, 1)
                I = [rng.randrange(mm) for _ in range(nn)]
                J = [rng.randrange(nn2) for _ in range(nn)]
                stc = rng.choice("dz")
                V = [rnum(rng, stc) for _ in range(nn)]
                sp = "spmatrix(%s, %s, %s, (%d,%d))" % (vals_src(V), I, J, mm, nn2)
                src = rng.choice(["matrix(%s)" % sp, "matrix(%s, tc='%s')" % (sp, tc),
                                  "matrix(%s, (%d,%d))" % (sp, mm * nn2, 1), "matrix(%s, (%d,%d))" % (sp, m, n)])
            else:
                src = rng.choice(["matrix('abc')", "matrix([1, 'a'])", "matrix(1, (2,))", "matrix(1, (-1,2))",
                                  "matrix(1.0, (2,2), 'x')", "matrix({1, 2})", "matrix(1, (2,2,2))",
                                  "matrix([1, [2, 3]])", "matrix([1, 2], (2,1), 'q')", "matrix(1.5, (2,2), 'i')",
                                  "matrix(2j, (1,2), 'd')", "matrix([1.5, 2], (2,1), 'i')", "matrix(1, (1.0, 2))",
                                  "matrix([[1, 2], [3]])", "matrix([[1, 2], 3])"])
            st = do("%s = %s" % (t, src), "construct:" + kind)
            if st == "ok":
                shape_counts(ls.ref[t])
                if kind in ("matrix", "matrix-size", "matrix-tc", "blocks"):
                    mutate_result(t)

        def g_alias():
            t, p = target(), pick()
            do("%s = %s" % (t, p), "alias")

        def g_getitem(two):
            p = pick()
            r = ls.ref[p]
            if two:
                k1, s1, sc1 = index_src(rng, r.m, ls)
                k2, s2, sc2 = index_src(rng, r.n, ls)
                ctx.count("c15.index." + k1)
                ctx.count("c15.index." + k2)
                src, scalar = "%s[%s, %s]" % (p, s1, s2), (sc1 and sc2)
                label = "getitem2:" + primary(k1, k2)
            else:
                k1, s1, scalar = index_src(rng, r.m * r.n, ls)
                ctx.count("c15.index." + k1)
                src = "%s[%s]" % (p, s1)
                label = "getitem1:" + k1
            if scalar:
                do("_ = " + src, label, "_")
            else:
                t = target()
                if do("%s = %s" % (t, src), label) == "ok":
                    shape_counts(ls.ref[t])
                    if rng.random() < 0.6:
                        mutate_result(t)

        def g_setitem(two):
            p = pick()
            r = ls.ref[p]
            if two:
                k1, s1, _ = index_src(rng, r.m, ls)
                k2, s2, _ = index_src(rng, r.n, ls)
                k1 = "self-imat" if (k1 == "pool-imat" and ls.ref.get(s1) is r) else k1
                k2 = "self-imat" if (k2 == "pool-imat" and ls.ref.get(s2) is r) else k2
                ctx.count("c15.index." + k1)
                ctx.count("c15.index." + k2)
                lhs = "%s[%s, %s]" % (p, s1, s2)
                kinds = primary(k1, k2)
            else:
                k1, s1, _ = index_src(rng, r.m * r.n, ls)
                k1 = "self-imat" if (k1 == "pool-imat" and ls.ref.get(s1) is r) else k1
                ctx.count("c15.index." + k1)
                lhs = "%s[%s]" % (p, s1)
                kinds = k1
            # size of the addressed block according to the model (if the index is valid)
            kk, vv = R.evaluate(lambda: r._resolve(eval("_K[%s]" % (s1 if not two else s1 + ", " + s2),
                                                         dict(ls.ref, _K=_KeyGrab()))))
            if kk == "value":
                br, bc = vv[2]
            else:
                br, bc = rdim(rng), 1
            rk = rng.choice(["num", "num", "num-i", "num-z", "mat1x1", "list", "tuple", "range", "array",
                             "mat", "mat", "mat-othertc", "mat-wrongsize", "pool", "poolslice", "sparse", "bad"])
            tc = r.tc
            if rk == "num":
                rhs = repr(rnum(rng, rng.choice([tc, tc, "i", rtc(rng)])))
            elif rk == "num-i":
                rhs = repr(rnum(rng, "i"))
            elif rk == "num-z":
                rhs = repr(rnum(rng, "z"))
            elif rk == "mat1x1":
                rhs = "matrix(%r)" % (rnum(rng, rng.choice([tc, "i", rtc(rng)])),)
            elif rk in ("list", "tuple"):
                cnt = br * bc + (rng.choice([0, 0, 0, 0, 1, -1, 2]))
                vals = [rnum(rng, rng.choice([tc, tc, "i"])) for _ in range(max(cnt, 0))]
                rhs = vals_src(vals) if rk == "list" else (repr(tuple(vals)))
            elif rk == "range":
                rhs = "range(%d)" % (br * bc + rng.choice([0, 0, 0, 1]))
            elif rk == "array":
                atc = rng.choice(["i", "l", "d"])
                rhs = "array('%s', %s)" % (atc, vals_src([rnum(rng, "d" if atc == "d" else "i") for _ in range(br * bc)]))
            elif rk == "mat":
                rhs = lit(rng, rng.choice([tc, tc, "i"]), br, bc)
            elif rk == "mat-othertc":
                rhs = lit(rng, rtc(rng), br, bc)
            elif rk == "mat-wrongsize":
                rhs = rng.choice([lit(rng, tc, bc, br + 1), lit(rng, tc, br * bc, 1) if bc != 1 else lit(rng, tc, 1, br + 1),
                                  lit(rng, tc, br + 1, bc), lit(rng, tc, 1, br * bc) if br != 1 else lit(rng, tc, br + 2, bc)])
            elif rk == "pool":
                rhs = pick()
            elif rk == "poolslice":
                q = pick()
                rhs = rng.choice(["%s[:%d, :%d]" % (q, br, bc), "%s[:%d]" % (q, br * bc), "%s.T" % q, "+%s" % q])
            elif rk == "sparse":
                mm, nn2 = br, bc
                cnt = rng.randint(0, 3) if mm * nn2 else 0
                I = [rng.randrange(mm) for _ in range(cnt)]
                J = [rng.randrange(nn2) for _ in range(cnt)]
                stc = rng.choice(["d", "d", "z"])
                rhs = "spmatrix(%s, %s, %s, (%d,%d))" % (vals_src([rnum(rng, stc) for _ in range(cnt)]), I, J, mm, nn2)
            else:
                rhs = rng.choice(["'x'", "None", "[1, 'a']", "{1: 2}"])
            do("%s = %s" % (lhs, rhs), ("setitem2:" if two else "setitem1:") + "rhs-" + rk + ":" + kinds)

        def operand(rng_, x, for_mul):
            """second operand for matrix x (a pool name): (pairing, source)"""
            rx = ls.ref[x]
            k = rng.choice(["num", "num", "m11", "m11", "same", "same", "pool", "poolT", "self", "bad", "m11-pool"])
            if k == "num":
                return "number", repr(rnum(rng, rtc(rng)))
            if k == "m11":
                return "1x1", "matrix(%r)" % (rnum(rng, rtc(rng)),)
            if k == "m11-pool":
                cands = [n for n in ls.live() if ls.ref[n].m * ls.ref[n].n == 1]
                if cands:
                    return "1x1", rng.choice(cands)
                return "1x1", "matrix(%r)" % (rnum(rng, rtc(rng)),)
            if k == "same":
                if for_mul:
                    return "matrix", lit(rng, rtc(rng), rx.n, rdim(rng))
                return "matrix", lit(rng, rtc(rng), rx.m, rx.n)
            if k == "pool":
                return "matrix", pick()
            if k == "poolT":
                return "matrix", pick() + ".T"
            if k == "self":
                return "matrix", x
            return "bad", rng.choice(["'a'", "None", "[1, 2]", "(1,)"])

        def tc_of_src(src):
            kk, vv = R.evaluate(lambda: eval(src, dict(ls.ref)))
            if kk != "value":
                return None
            if isinstance(vv, Ref):
                return vv.tc
            try:
                return R.num_tc(vv)
            except Exception:
                return None

        def g_binop():
            x = pick()
            op = rng.choice(["+", "+", "-", "-", "*", "*", "*", "/", "%", "**"])
            ctx.count("c15.binop." + op)
            if op == "**":
                e = rng.choice(["2", "3", "-1", "-2", "0", "1", "0.5", "2.0", "1.5", "-1.0", "2j", "(1+1j)",
                                "matrix(2)", "matrix(2.0)", "'a'"])
                src = "%s ** %s" % (x, e) if rng.random() < 0.92 else "%s ** %s" % (rng.choice(["2", "2.0"]), x)
                pairing = "matrix-number"
                ytc = tc_of_src(e)
            elif op in ("/", "%"):
                y = rng.choice(["2", "-3", "0", "4", "2.5", "-1.5", "0.0", "0.5", "(1+1j)", "2j", "matrix(2)", "matrix(-3)",
                                "matrix(0.5)", "matrix(2.5)", "matrix(0)", "matrix(1j)", "matrix([1, 2])", "'a'",
                                repr(rnum(rng, "i")), repr(rnum(rng, "d"))])
                if rng.random() < 0.1:
                    y = pick()
                src = "%s %s %s" % (x, op, y) if rng.random() < 0.93 else "%s %s %s" % (rng.choice(["2", "3.0"]), op, x)
                pairing = "matrix-1x1" if y.startswith("matrix(") else "matrix-number"
                ytc = tc_of_src(y)
            else:
                pairing, y = operand(rng, x, op == "*")
                ytc = tc_of_src(y)
                if rng.random() < 0.4 and pairing != "bad":
                    src = "%s %s %s" % (y, op, x)
                    pairing = {"number": "number-matrix", "1x1": "1x1-matrix", "matrix": "matrix-matrix"}[pairing]
                else:
                    src = "%s %s %s" % (x, op, y)
                    pairing = {"number": "matrix-number", "1x1": "matrix-1x1", "matrix": "matrix-matrix", "bad": "matrix-bad"}[pairing]
            ctx.count("c15.pairing." + pairing)
            if ytc:
                ctx.count("c15.tcpair.%s%s" % (ls.ref[x].tc, ytc))
                ctx.count("c15.tcpair.%s.%s%s" % (op, ls.ref[x].tc, ytc))
            t = target()
            if do("%s = %s" % (t, src), "binop:%s:%s" % (op, pairing)) == "ok":
                shape_counts(ls.ref[t])
                if rng.random() < 0.7:
                    mutate_result(t)

        def g_inplace():
            x = pick()
            op = rng.choice(["+=", "+=", "-=", "-=", "*=", "*=", "/=", "%="])
            ctx.count("c15.inplace." + op)
            if op in ("/=", "%="):
                y = rng.choice(["2", "-3", "0", "4", "2.5", "-1.5", "0.0", "0.5", "(1+1j)", "matrix(2)", "matrix(-3)",
                                "matrix(0.5)", "matrix(2.5)", "matrix(1j)", "matrix([1, 2])", "'a'",
                                repr(rnum(rng, "i")), repr(rnum(rng, "d"))])
                pairing = "matrix-1x1" if y.startswith("matrix(") else "matrix-number"
            else:
                pairing, y = operand(rng, x, False)
                pairing = {"number": "matrix-number", "1x1": "matrix-1x1", "matrix": "matrix-matrix", "bad": "matrix-bad"}[pairing]
            ytc = tc_of_src(y)
            if ytc:
                ctx.count("c15.tcpair.%s%s" % (ls.ref[x].tc, ytc))
                ctx.count("c15.tcpair.%s.%s%s" % (op, ls.ref[x].tc, ytc))
            ctx.count("c15.pairing." + pairing)
            if sum(1 for n in ls.live() if ls.ref[n] is ls.ref[x]) > 1:
                ctx.count("c15.inplace-through-alias")
            do("%s %s %s" % (x, op, y), "inplace:%s:%s" % (op, pairing))

        def g_unary():
            p, t = pick(), target()
            f = rng.choice(["+%s", "-%s", "%s.T", "%s.H", "%s.trans()", "%s.ctrans()", "%s.real()", "%s.imag()", "abs(%s)"])
            name = f.replace("%s", "").replace("()", "").strip(".") or "pos"
            lab = {"+": "pos", "-": "neg", "abs": "abs"}.get(name.strip("()"), name)
            if do("%s = %s" % (t, f % p), "unary:" + lab) == "ok":
                shape_counts(ls.ref[t])
                if rng.random() < 0.7:
                    mutate_result(t)

        def g_size():
            p = pick()
            r = ls.ref[p]
            k = r.m * r.n
            kind = rng.choice(["valid", "valid", "valid", "wrong-product", "negative", "list", "3-tuple", "float"])
            if kind == "valid":
                if k:
                    d = rng.choice(divisors(k))
                    src = "(%d, %d)" % (d, k // d)
                else:
                    src = rng.choice(["(0, 0)", "(0, 3)", "(2, 0)", "(0, 1)"])
            elif kind == "wrong-product":
                src = "(%d, %d)" % (r.m + 1, max(r.n, 1))
            elif kind == "negative":
                src = "(%d, %d)" % (-r.m if r.m else -1, -r.n if r.n else -1)
            elif kind == "list":
                src = "[%d, %d]" % (r.n, r.m)
            elif kind == "3-tuple":
                src = "(%d, %d, 1)" % (r.m, r.n)
            else:
                src = "(%d.0, %d)" % (r.m, r.n)
            do("%s.size = %s" % (p, src), "size:" + kind)

        def g_inplace_1x1():
            """a 1x1 matrix on the left of += / -= with a matrix of another size on the right: the result would change the
            size of the left operand, so the in-place form must be refused (and the operand left alone)"""
            t = target()
            tc = rtc(rng)
            if do("%s = matrix(%r)" % (t, rnum(rng, tc)), "construct:1x1-for-inplace") != "ok":
                return
            m, n = rng.choice([(2, 1), (1, 3), (2, 2), (3, 1)])
            otc = tc if rng.random() < 0.7 else rng.choice([x for x in "idz" if "idz".index(x) <= "idz".index(tc)])
            op = rng.choice(["+=", "-="])
            ctx.count("c15.inplace.1x1-lhs-matrix-rhs")
            do("%s %s %s" % (t, op, lit(rng, otc, m, n)), "inplace:%s:1x1-lhs-larger-rhs" % op)

        def g_heldview():
            """construction from the buffer of a matrix while an earlier export of it is still alive, after a size change"""
            cands = [n for n in ls.live() if isinstance(ls.ref[n], Ref)]
            if not cands:
                return
            p = rng.choice(cands)
            r = ls.ref[p]
            if do("_ = hold(%s)" % p, "heldview:hold", "_") != "ok":
                return
            k = r.m * r.n
            if k and rng.random() < 0.8:
                d = rng.choice(divisors(k))
                do("%s.size = (%d, %d)" % (p, d, k // d), "heldview:size-change-with-live-export")
            t = target()
            form = rng.choice(["matrix(viewof(%s))" % p, "matrix(viewof(%s), tc='%s')" % (p, "z" if r.tc != "i" else rng.choice("idz"))])
            ctx.count("c15.construct.from-buffer-with-earlier-export-alive")
            do("%s = %s" % (t, form), "construct:from-buffer-with-earlier-export-alive")

        def g_query():
            p = pick()
            r = ls.ref[p]
            q = rng.choice(["len", "bool", "max", "min", "sum", "list", "iter", "in", "in", "tuple", "size", "typecode"])
            if q == "in":
                if r.v and rng.random() < 0.6:
                    x = rng.choice(r.v)
                    if rng.random() < 0.3 and r.tc != "z" and x == int(x.real if isinstance(x, complex) else x):
                        x = rng.choice([int(x), float(x), complex(x)])
                else:
                    x = rnum(rng, rtc(rng))
                src = "%r in %s" % (x, p)
            else:
                src = {"len": "len(%s)", "bool": "bool(%s)", "max": "bmax(%s)", "min": "bmin(%s)", "sum": "bsum(%s)",
                       "list": "list(%s)", "iter": "[t for t in %s]", "tuple": "tuple(%s)", "size": "%s.size",
                       "typecode": "%s.typecode"}[q] % p
            if q == "bool" and rng.random() < 0.5:
                # truth value of special contents: all zero, a single nonzero entry, purely imaginary entries, -0.0
                special = rng.choice(["matrix([0j, %dj, 0j])" % rng.choice([2, -3]), "matrix([0.0, -0.0])", "matrix([0j, -0j])",
                                      "matrix([0, 0, %d])" % rng.choice([1, -1]), "matrix([0.0, 0.0, 1e-300])", "matrix(%dj)" % rng.choice([1, -2]),
                                      "matrix([[0j, 0j], [0j, 1e-200j]])"])
                ctx.count("c15.query.bool-special-contents")
                src = "bool(%s)" % special
            do("_ = " + src, "query:" + q, "_")

        def g_elementwise():
            p, t = pick(), target()
            rp = ls.ref[p]
            f = rng.choice(["exp", "log", "sqrt", "sin", "cos", "mul", "mul", "div", "div", "emax", "emax", "emin", "emin"])
            if f in ("exp", "log", "sqrt", "sin", "cos"):
                arg = p
                if f in ("log", "sqrt") and rng.random() < 0.6:
                    arg = "abs(%s) + %r" % (p, rng.choice([1, 0.5]))
                src = "%s(%s)" % (f, arg)
                sub = f
                res = t
            else:
                def other():
                    k = rng.choice(["same", "same", "num", "m11", "pool"])
                    if k == "same":
                        return lit(rng, rng.choice([rp.tc, rtc(rng)]), rp.m, rp.n)
                    if k == "num":
                        return repr(rnum(rng, rng.choice(["i", "d", "d"])))
                    if k == "m11":
                        return "matrix(%r)" % (rnum(rng, rng.choice(["i", "d"])),)
                    return pick()
                nargs = rng.choice([1, 2, 2, 2, 3]) if f != "div" else 2
                args = [p] + [other() for _ in range(nargs - 1)]
                rng.shuffle(args)
                if nargs == 1 or (f != "div" and rng.random() < 0.2):
                    src = "%s([%s])" % (f, ", ".join(args)) if nargs > 1 or rng.random() < 0.3 else "%s(%s)" % (f, args[0])
                else:
                    src = "%s(%s)" % (f, ", ".join(args))
                sub = "%s%d" % (f, nargs)
                res = "_" if (f in ("emax", "emin") and nargs == 1 and "[" not in src) else t
            if res == "_":
                do("_ = " + src, "elementwise:" + sub, "_")
            elif do("%s = %s" % (t, src), "elementwise:" + sub) == "ok":
                if kind_is_matrix(t) and rng.random() < 0.5:
                    mutate_result(t)

        def kind_is_matrix(t):
            return isinstance(ls.ref.get(t), Ref)

        def g_overflow():
            """small dedicated class: integers that do not fit the matrix's integer type"""
            big = rng.choice(["2**63", "2**64", "(-2**63 - 1)", "2**70", "10**30"])
            cands = [n for n in ls.live() if ls.ref[n].tc == "i" and ls.ref[n].m * ls.ref[n].n > 0]
            forms = ["construct-number", "construct-list", "construct-tc-d", "numbers-only-elementwise", "rem-minus-one", "unary-beyond-int32"]
            anym = [n for n in ls.live() if isinstance(ls.ref[n], Ref) and ls.ref[n].m * ls.ref[n].n > 0]
            if anym or ls.live():
                forms += ["size-beyond-int32"]
            if anym:
                forms += ["index2-beyond-int32", "index2-beyond-int32"]
            if cands:
                forms += ["setitem", "setitem-list", "add", "mul", "iadd"]
            f = rng.choice(forms)
            t = target()
            if f == "construct-number":
                src = "%s = matrix(%s)" % (t, big)
            elif f == "construct-list":
                src = "%s = matrix([1, %s])" % (t, big)
            elif f == "construct-tc-d":
                src = "%s = matrix(2**1100, (1,1), 'd')" % t
            elif f == "unary-beyond-int32":
                # 'i' entries are 64-bit: abs / negation / transposes of values beyond 32 bits
                vals = [rng.choice([2**31, -2**31, 2**40 + 3, -(2**40) - 3, 2**32 + 3, -2**33, 5, -7]) for _ in range(rng.randint(1, 4))]
                ctx.count("c15.overflow.unary-beyond-int32")
                src = "%s = %s(matrix(%s))" % (t, rng.choice(["abs", "abs", "-", "+"]), vals)
                do(src, "overflow:unary-beyond-int32")
                return
            elif f == "rem-minus-one":
                # the one integer division that overflows in C: -2^63 by -1 (the remainder is 0)
                ctx.count("c15.overflow.rem-minus-one")
                src = rng.choice(["%s = matrix([-2**63, 5]) %% -1" % t, "%s = matrix([7, -2**63]); %s %%= -1" % (t, t)])
            elif f == "size-beyond-int32":
                # a size whose product or whose entries leave the 32-bit range must be refused like any other wrong size
                a = rng.choice(ls.live())
                r = ls.ref[a]
                if not isinstance(r, Ref):
                    return
                ctx.count("c15.overflow.size-beyond-int32")
                if r.m * r.n == 0:
                    src = "%s.size = %s" % (a, rng.choice(["(65536, 65536)", "(2**31, 2)", "(2**16, 2**48)"]))
                else:
                    src = "%s.size = %s" % (a, rng.choice(["(2**32 + %d, %d)" % (r.m, r.n), "(%d, 2**32 + %d)" % (r.m, r.n), "(2**63, 2)"]))
                do(src, "overflow:size-beyond-int32")
                return
            elif f == "numbers-only-elementwise":
                # plain Python integers that fit the matrix integer type (64 bits) but not a C int
                a_, b_ = rng.choice([(2**40, 3), (3, 2**40), (-2**40, 3), (2**20, 2**20), (2**31, 1), (-2**31 - 1, 2), (2**31 + 5, 2**31 + 4)])
                fn = rng.choice(["mul", "emax", "emin"])
                ctx.count("c15.overflow.numbers-only-" + fn)
                do("_ = %s(%d, %d)" % (fn, a_, b_), "overflow:numbers-only-" + fn, "_")
                return
            elif f == "index2-beyond-int32":
                # two-integer indexing with an index that is a multiple of 2^32 (+ a valid index): out of range, IndexError
                a = rng.choice(anym)
                r = ls.ref[a]
                hi = rng.choice([2**32, -2**32, 2**33, 2**32 + rng.randrange(r.m), 2**31, -2**31 - 1, 2**40])
                i_, j_ = (hi, rng.randrange(r.n)) if rng.random() < 0.5 else (rng.randrange(r.m), rng.choice([2**32, -2**32, 2**32 + rng.randrange(r.n), 2**36]))
                ctx.count("c15.overflow.index2-beyond-int32")
                if rng.random() < 0.5:
                    do("_ = %s[%d, %d]" % (a, i_, j_), "overflow:getitem2-beyond-int32", "_")
                else:
                    do("%s[%d, %d] = %r" % (a, i_, j_, rnum(rng, r.tc)), "overflow:setitem2-beyond-int32")
                return
            else:
                a = rng.choice(cands)
                src = {"setitem": "%s[0] = %s" % (a, big), "setitem-list": "%s[0:1] = [%s]" % (a, big),
                       "add": "%s = %s + %s" % (t, a, big), "mul": "%s = %s * %s" % (t, a, big),
                       "iadd": "%s += %s" % (a, big)}[f]
            do(src, "overflow:" + f)

        def g_selfindex():
            """an integer matrix used as its own row AND column index in an assignment that overwrites the very entries that
            serve as indices (with values far outside the index range): the indices are those at the time of the call"""
            t = target()
            m, n = rng.randint(1, 3), rng.randint(1, 3)
            vals = [rng.randrange(min(m, n)) for _ in range(m * n)]
            if do("%s = matrix(%s, (%d,%d))" % (t, vals, m, n), "construct:for-self-index") != "ok":
                return
            big = rng.choice([10**7, -10**7, 2**40, 12345])
            form = rng.choice(["both", "both", "row", "col", "single"])
            ctx.count("c15.self-index." + form)
            src = {"both": "%s[%s, %s] = %d" % (t, t, t, big), "row": "%s[%s, :] = %d" % (t, t, big),
                   "col": "%s[:, %s] = %d" % (t, t, big), "single": "%s[%s] = %d" % (t, t, big)}[form]
            do(src, "setitem2:self-index-" + form)

        GENS = [(g_selfindex, 0.8), (g_inplace_1x1, 0.8), (g_heldview, 1.0), (g_construct, 14), (g_alias, 5), (lambda: g_getitem(False), 9), (lambda: g_getitem(True), 9),
                (lambda: g_setitem(False), 9), (lambda: g_setitem(True), 9), (g_binop, 16), (g_inplace, 12),
                (g_unary, 6), (g_size, 4), (g_query, 6), (g_elementwise, 7), (g_overflow, 1.2)]
        tot = sum(w for _, w in GENS)

        # initial pool
        for nm in NAMES[:3]:
            m, n, tc = rdim(rng), rdim(rng), rtc(rng)
            ctx.count("c15.class.construct")
            ls.step("%s = %s" % (nm, lit(rng, tc, m, n)), "construct:initial")
            shape_counts(ls.ref[nm])
        nsteps = rng.randint(8, 30)
        while len(ls.program) < nsteps and not ls.dead:
            # keep magnitudes in the range this check is about
            for nm in ls.live():
                r = ls.ref[nm]
                if any(not (abs(x) <= 1e6) for x in r.v):
                    ls.step("%s = %s" % (nm, lit(rng, r.tc, min(r.m, 3), min(r.n, 3))), "construct:renew")
            x = rng.uniform(0, tot)
            for g, w in GENS:
                x -= w
                if x <= 0:
                    g()
                    break
        c.desc["program"] = list(ls.program)
        c.desc["unspecified_steps"] = ls.nunspec
        c.cls(",".join(sorted(set(l.split(":")[0] for l in labels))))
        if c.k < 2:
            ctx.sample({"program": ls.program[:12]})

    class _KeyGrab(object):
        def __getitem__(self, key):
            return key

    runner = R.ForkRunner(ctx, one)
    try:
        for k in ctx.cases():
            ctx.run_case(k, {}, runner.run)
    finally:
        runner.close()
