"""O-cert: judge a result dictionary of conelp/coneqp (and wrappers) against the
caller's ORIGINAL data, recomputing everything from x, s, y, z only.
Written from doc/source/coneprog.rst (sections conelp, coneqp, Algorithm
Parameters).  All data are numpy arrays; G and h are used through the
symmetric interpretation of their 's' parts (lower triangle)."""
import math
import numpy as np
from vlib.oracle import cone

U = 2.0 ** -53
ROUND = 4096 * U        # ~4.5e-13: rounding allowance multiplier (x cancellation scale)
DEFAULTS = {"abstol": 1e-7, "reltol": 1e-6, "feastol": 1e-7, "maxiters": 100}


def opt(opts, k):
    v = (opts or {}).get(k, DEFAULTS[k])
    return v


class Data:
    """symmetric-interpretation view of a problem"""
    def __init__(self, pr):
        self.dims = pr.dims
        self.G = np.column_stack([cone.symmetrize(pr.G[:, j], pr.dims) for j in range(pr.G.shape[1])]) \
            if pr.G.shape[1] else np.zeros((pr.dims.N, 0))
        self.h = cone.symmetrize(pr.h, pr.dims)
        self.A = np.asarray(pr.A, dtype=float).reshape(-1, self.G.shape[1])
        self.b = np.asarray(pr.b, dtype=float).ravel()
        self.c = np.asarray(pr.c, dtype=float).ravel()
        self.P = None
        if getattr(pr, "P", None) is not None:
            P = np.asarray(pr.P, dtype=float)
            self.P = np.tril(P) + np.tril(P, -1).T        # only the lower triangle is read
        self.resx0 = max(1.0, float(np.linalg.norm(self.c)))
        self.resy0 = max(1.0, float(np.linalg.norm(self.b)))
        self.resz0 = max(1.0, cone.snrm2(self.h, self.dims))
        self.nG = float(np.linalg.norm(self.G))
        self.nA = float(np.linalg.norm(self.A))
        self.nP = float(np.linalg.norm(self.P)) if self.P is not None else 0.0


def _n(v):
    return float(np.linalg.norm(v)) if v is not None and len(v) else 0.0


def recompute(D, x, s, y, z):
    """all documented accuracy quantities from the returned vectors"""
    dims = D.dims
    out = {}
    if x is not None and s is not None:
        rz = D.G @ x + s - D.h
        ry = D.A @ x - D.b
        out["resz"] = cone.snrm2(rz, dims); out["resy"] = _n(ry)
        out["pres"] = max(out["resy"] / D.resy0, out["resz"] / D.resz0)
        out["pres_scale"] = max((D.nA * _n(x) + _n(D.b)) / D.resy0,
                                (D.nG * _n(x) + cone.snrm2(s, dims) + cone.snrm2(D.h, dims)) / D.resz0)
        out["ts"] = -cone.margin(s, dims)
        if D.P is None:
            out["pcost"] = float(D.c @ x)
            out["pcost_scale"] = _n(D.c) * _n(x)
        else:
            out["pcost"] = float(0.5 * x @ D.P @ x + D.c @ x)
            out["pcost_scale"] = D.nP * _n(x) ** 2 + _n(D.c) * _n(x)
        # certificate residual for dual infeasibility (unscaled)
        hz_ = D.G @ x + s
        out["hresz"] = cone.snrm2(hz_, dims); out["hresy"] = _n(D.A @ x)
    if y is not None and z is not None:
        rx = D.G.T @ z + D.A.T @ y
        out["hresx"] = _n(rx)
        out["hz"] = cone.sdot(D.h, z, dims); out["by"] = float(D.b @ y)
        out["tz"] = -cone.margin(z, dims)
        if x is not None:
            rx = rx + D.c + (D.P @ x if D.P is not None else 0.0)
            out["resx"] = _n(rx)
            out["dres"] = out["resx"] / D.resx0
            out["dres_scale"] = (D.nG * cone.snrm2(z, dims) + D.nA * _n(y) + _n(D.c) + D.nP * _n(x)) / D.resx0
        if D.P is None:
            out["dcost"] = -out["hz"] - out["by"]
            out["dcost_scale"] = cone.snrm2(D.h, dims) * cone.snrm2(z, dims) + _n(D.b) * _n(y)
        elif x is not None:
            gz = D.G @ x - D.h
            out["dcost"] = out["pcost"] + cone.sdot(z, gz, dims) + float(y @ (D.A @ x - D.b))
            out["dcost_scale"] = out["pcost_scale"] + cone.snrm2(z, dims) * (D.nG * _n(x) + cone.snrm2(D.h, dims)) \
                + _n(y) * (D.nA * _n(x) + _n(D.b))
    if s is not None and z is not None:
        out["gap"] = cone.sdot(s, z, dims)
        out["gap_scale"] = cone.snrm2(s, dims) * cone.snrm2(z, dims)
    return out


def relgap_candidates(pcost, dcost, gap):
    """documented definitions: conelp text (max form) and coneqp text / code (case form)"""
    c = []
    if pcost < 0.0:
        c.append(gap / -pcost)
    elif dcost > 0.0:
        c.append(gap / dcost)
    else:
        c.append(None)
    m = max(-pcost, dcost)
    c.append(gap / m if m > 0 else None)
    return c


class Judge:
    """collects requirement checks on a Case `c` with a key prefix"""
    def __init__(self, c, ctx, prefix):
        self.c, self.ctx, self.p = c, ctx, prefix

    def req(self, cond, key, msg, **d):
        return self.c.require(bool(cond), self.p + ":" + key, msg, **d)

    def field_eq(self, sol, name, want, scale, key=None, rel=1e-9):
        got = sol.get(name, "MISSING")
        key = key or ("field-" + name.replace(" ", "-"))
        if want is None:
            return self.req(got is None, key, "field %r should be None, is %r" % (name, got))
        if got is None or got == "MISSING" or not isinstance(got, (int, float)):
            return self.req(False, key, "field %r is %r, recomputed %r" % (name, got, want))
        tol = ROUND * scale + rel * max(abs(got), abs(want))
        err = abs(got - want)
        if err > ROUND * scale:
            self.ctx.maxobs("fieldrelerr-beyond-rounding." + name, err / max(abs(got), abs(want)))
        self.ctx.maxobs("fielderr/scale." + name, err / scale if scale > 0 else (0.0 if err == 0 else float("inf")))
        return self.req(err <= tol, key, "field %r = %r but recomputed from returned vectors %r (tol %.3g)" %
                        (name, got, want, tol), scale=scale)


def vec_or_none(v):
    if v is None:
        return None
    return np.array(list(v), dtype=float)


def judge_cone_result(c, ctx, pr, sol, opts, prefix, qp=False, external=None, check_fields=True):
    """Full oracle for a result dictionary of conelp / coneqp on Prob pr.
    external: None | 'glpk' | 'dsdp' (documented: back-end's own exit criteria apply)."""
    J = Judge(c, ctx, prefix)
    D = Data(pr)
    dims = pr.dims
    st = sol.get("status")
    feastol, abstol, reltol = opt(opts, "feastol"), opt(opts, "abstol"), opt(opts, "reltol")
    maxiters = opt(opts, "maxiters")
    x, s, y, z = (vec_or_none(sol.get(k)) for k in "xsyz")
    s_raw, z_raw = s, z
    # numerics use the 'L'-storage (symmetric) interpretation; exact symmetry of what
    # is returned is a separate requirement below
    if s is not None and len(s) == dims.N:
        s = cone.symmetrize(s, dims)
    if z is not None and len(z) == dims.N:
        z = cone.symmetrize(z, dims)
    if not J.req(st in (("optimal", "unknown") if qp else ("optimal", "unknown", "primal infeasible", "dual infeasible")),
                 "status-value", "unexpected status %r" % (st,)):
        return st
    if external is None and check_fields:
        it = sol.get("iterations")
        J.req(isinstance(it, int) and 0 <= it <= maxiters, "iterations-range", "iterations=%r maxiters=%r" % (it, maxiters))
    # shapes
    def shape_ok(v, n):
        return v is not None and len(v) == n
    n, p, N = D.G.shape[1], D.A.shape[0], dims.N

    # documented: "the default GLPK/DSDP exit criteria apply" - no numbers are promised and DSDP's criteria use other
    # normalisations, so only gross failures are judged for DSDP (1e-3); GLPK's simplex is held to 1e-5
    ext_tol = {"glpk": 1e-5, "dsdp": 1e-3}.get(external, 0.0)

    if st in ("optimal", "unknown"):
        if external and st == "unknown":
            return st
        if not J.req(shape_ok(x, n) and shape_ok(s, N) and shape_ok(y, p) and shape_ok(z, N), "vector-shapes",
                     "x,s,y,z shapes wrong: %r" % ([None if v is None else len(v) for v in (x, s, y, z)],)):
            return st
        J.req(all(np.all(np.isfinite(v)) for v in (x, s, y, z)), "non-finite", "non-finite entries in x,s,y,z")
        J.req(cone.symmetric_ok(s_raw, dims) and cone.symmetric_ok(z_raw, dims), "s-z-symmetric",
              "'s' blocks of returned s/z are not exactly symmetric")
        R = recompute(D, x, s, y, z)
        # --- every accuracy field equals its recomputation
        J.field_eq(sol, "primal objective", R["pcost"], max(R["pcost_scale"], 1e-300))
        J.field_eq(sol, "dual objective", R["dcost"], max(R["dcost_scale"], 1e-300))
        # the native solvers report gap = lambda'lambda (scaled point), equal to <s,z> only as
        # accurately as the Nesterov-Todd scaling of nearly complementary iterates: observed
        # relative differences up to 1.2e-2 on the unchanged tree (user dual start, thorough tier) -> relative allowance 1e-1
        # (a realistic defect - wrong 1/tau power, wrong vector - is off by O(1))
        J.field_eq(sol, "gap", R["gap"], max(R["gap_scale"], 1e-300), rel=1e-1)
        J.field_eq(sol, "primal infeasibility", R["pres"], max(R["pres_scale"], 1e-300))
        J.field_eq(sol, "dual infeasibility", R["dres"], max(R["dres_scale"], 1e-300))
        J.field_eq(sol, "primal slack", -R["ts"], max(cone.snrm2(s, dims), 1e-300) if N else 1.0)
        J.field_eq(sol, "dual slack", -R["tz"], max(cone.snrm2(z, dims), 1e-300) if N else 1.0)
        # relative gap: field consistent with one documented definition applied to the fields
        rg = sol.get("relative gap", "MISSING")
        pc, dc, gp = sol.get("primal objective"), sol.get("dual objective"), sol.get("gap")
        if all(isinstance(v, (int, float)) for v in (pc, dc, gp)):
            cands = relgap_candidates(pc, dc, gp)
            okrg = any((rg is None and cd is None) or (rg is not None and cd is not None and
                       abs(rg - cd) <= 1e-9 * max(abs(rg), abs(cd)) + 1e-300) for cd in cands)
            # sign tests pcost<0 / dcost>0 are discontinuous: tolerate a rounding-level sign flip
            near0 = abs(pc) <= ROUND * max(R["pcost_scale"], 1e-300) or abs(dc) <= ROUND * max(R["dcost_scale"], 1e-300)
            J.req(okrg or near0, "field-relative-gap", "relative gap %r inconsistent with pcost=%r dcost=%r gap=%r" % (rg, pc, dc, gp))
        if not qp:
            if st == "optimal":
                J.req(sol.get("residual as primal infeasibility certificate", "MISSING") is None and
                      sol.get("residual as dual infeasibility certificate", "MISSING") is None,
                      "optimal-certificate-fields-not-None", "certificate residual fields must be None when optimal")
            elif not external:
                want = R["hresx"] / D.resx0 / (-(R["hz"] + R["by"])) if R["hz"] + R["by"] < 0 else None
                sc = max(R["dcost_scale"], 1e-300)
                if abs(R["hz"] + R["by"]) > 10 * ROUND * sc:
                    got = sol.get("residual as primal infeasibility certificate", "MISSING")
                    if want is None:
                        J.req(got is None, "field-pinfres", "pinfres should be None")
                    else:
                        J.req(got is not None and got != "MISSING" and abs(got - want) <= 1e-6 * max(abs(want), abs(got)) +
                              ROUND * (D.nG * cone.snrm2(z, dims) + D.nA * _n(y)) / D.resx0 / (-(R["hz"] + R["by"])),
                              "field-pinfres", "pinfres field %r recomputed %r" % (got, want))
                cx = R["pcost"]
                if abs(cx) > 10 * ROUND * max(R["pcost_scale"], 1e-300):
                    got = sol.get("residual as dual infeasibility certificate", "MISSING")
                    want = max(R["hresy"] / D.resy0, R["hresz"] / D.resz0) / (-cx) if cx < 0 else None
                    if want is None:
                        J.req(got is None, "field-dinfres", "dinfres should be None")
                    else:
                        scl = max((D.nA * _n(x)) / D.resy0, (D.nG * _n(x) + cone.snrm2(s, dims)) / D.resz0) / (-cx)
                        J.req(got is not None and got != "MISSING" and abs(got - want) <= 1e-6 * max(abs(want), abs(got)) + ROUND * scl,
                              "field-dinfres", "dinfres field %r recomputed %r" % (got, want))
        if st == "optimal":
            # --- promised inequalities, checked on recomputed quantities
            ftol = max(feastol, ext_tol)
            ctx.maxobs("optimal.pres/feastol", R["pres"] / ftol)
            ctx.maxobs("optimal.dres/feastol", R["dres"] / ftol)
            J.req(R["pres"] <= ftol + ROUND * R["pres_scale"], "optimal-primal-residual",
                  "recomputed primal residual %.3g > feastol %.3g" % (R["pres"], ftol))
            J.req(R["dres"] <= ftol + ROUND * R["dres_scale"], "optimal-dual-residual",
                  "recomputed dual residual %.3g > feastol %.3g" % (R["dres"], ftol))
            ms, mz = -R["ts"], -R["tz"]
            slack_tol = ROUND * 1.0 + (ext_tol * 10 if external else 0.0)
            J.req(ms >= -slack_tol * max(1.0, cone.snrm2(s, dims)), "optimal-s-in-cone", "s outside cone: margin %.3g" % ms)
            J.req(mz >= -slack_tol * max(1.0, cone.snrm2(z, dims)), "optimal-z-in-cone", "z outside cone: margin %.3g" % mz)
            gap = R["gap"]
            gtol = ROUND * R["gap_scale"]
            okgap = gap <= max(abstol, ext_tol) + gtol
            cands = list(relgap_candidates(R["pcost"], R["dcost"], gap))
            # the documented case distinction looks at the SIGNS of the objectives; for objectives below the rounding level of
            # their own recomputation (optimal value 0: |pcost|, |dcost| ~ 1e-50) the recomputed signs are noise, so the
            # reported objectives - which the field checks above tie to the recomputed ones - decide as well
            rp_, rd_ = sol.get("primal objective"), sol.get("dual objective")
            if isinstance(rp_, float) and isinstance(rd_, float) and \
                    abs(rp_ - R["pcost"]) <= ROUND * max(R["pcost_scale"], 1e-300) and abs(rd_ - R["dcost"]) <= ROUND * max(R["dcost_scale"], 1e-300):
                cands += list(relgap_candidates(rp_, rd_, gap))
            for cd in cands:
                if cd is not None and cd <= max(reltol, ext_tol) * (1 + 1e-6) + gtol / max(abs(R["pcost"]), abs(R["dcost"]), 1e-300):
                    okgap = True
            if qp and not okgap:
                pass
            J.req(okgap, "optimal-gap-criterion", "gap %.3g abstol %.3g, relgap candidates %r reltol %.3g" %
                  (gap, abstol, relgap_candidates(R["pcost"], R["dcost"], gap), reltol))
        else:  # unknown: iterates strictly inside the cone (conelp/coneqp document the iterates)
            pass
    elif st == "primal infeasible":
        J.req(sol.get("x") is None and sol.get("s") is None, "pinf-x-s-not-None", "x and s must be None")
        if external == "glpk":
            J.req(all(sol.get(k) is None for k in ("y", "z")), "glpk-pinf-not-None", "GLPK: all entries None when infeasible")
            return st
        if not J.req(shape_ok(y, p) and shape_ok(z, N), "vector-shapes", "y,z shapes wrong"):
            return st
        J.req(cone.symmetric_ok(z_raw, dims), "s-z-symmetric", "'s' blocks of certificate z not exactly symmetric")
        R = recompute(D, None, None, y, z)
        val = R["hz"] + R["by"]
        sc = max(cone.snrm2(D.h, dims) * cone.snrm2(z, dims) + _n(D.b) * _n(y), 1e-300)
        ctx.maxobs("pinf.|hz+by+1|/scale", abs(val + 1.0) / sc)
        J.req(abs(val + 1.0) <= 1e-9 + ROUND * sc, "pinf-normalisation", "h'z + b'y = %r, expected -1" % val)
        res = R["hresx"] / D.resx0
        rsc = (D.nG * cone.snrm2(z, dims) + D.nA * _n(y)) / D.resx0
        ftol = max(feastol, ext_tol)
        J.req(res <= ftol * (1 + 1e-6) + ROUND * rsc, "pinf-residual", "||G'z+A'y||/max(1,||c||) = %.3g > feastol %.3g" % (res, ftol))
        J.req(-R["tz"] >= -ROUND * max(1.0, cone.snrm2(z, dims)), "pinf-z-in-cone", "certificate z outside cone (margin %.3g)" % -R["tz"])
        if not external and check_fields:
            J.field_eq(sol, "residual as primal infeasibility certificate", res, max(rsc, 1e-300), key="field-pinfres", rel=1e-6)
            J.field_eq(sol, "dual slack", -R["tz"], max(cone.snrm2(z, dims), 1e-300))
            J.req(sol.get("dual objective") == 1.0, "pinf-dual-objective", "dual objective must be 1.0")
            for k in ("gap", "relative gap", "primal objective", "primal infeasibility", "dual infeasibility",
                      "primal slack", "residual as dual infeasibility certificate"):
                J.req(sol.get(k, "MISSING") is None, "pinf-field-not-None", "field %r must be None" % k)
    elif st == "dual infeasible":
        J.req(sol.get("y") is None and sol.get("z") is None, "dinf-y-z-not-None", "y and z must be None")
        if external == "glpk":
            J.req(all(sol.get(k) is None for k in ("x", "s")), "glpk-dinf-not-None", "GLPK: all entries None when unbounded")
            return st
        if not J.req(shape_ok(x, n) and shape_ok(s, N), "vector-shapes", "x,s shapes wrong"):
            return st
        J.req(cone.symmetric_ok(s_raw, dims), "s-z-symmetric", "'s' blocks of certificate s not exactly symmetric")
        R = recompute(D, x, s, None, None)
        cx = R["pcost"]
        J.req(abs(cx + 1.0) <= 1e-9 + ROUND * max(R["pcost_scale"], 1e-300), "dinf-normalisation", "c'x = %r, expected -1" % cx)
        res = max(R["hresy"] / D.resy0, R["hresz"] / D.resz0)
        rsc = max(D.nA * _n(x) / D.resy0, (D.nG * _n(x) + cone.snrm2(s, dims)) / D.resz0)
        ftol = max(feastol, ext_tol)
        J.req(res <= ftol * (1 + 1e-6) + ROUND * rsc, "dinf-residual", "certificate residual %.3g > feastol %.3g" % (res, ftol))
        J.req(-R["ts"] >= -ROUND * max(1.0, cone.snrm2(s, dims)), "dinf-s-in-cone", "certificate s outside cone (margin %.3g)" % -R["ts"])
        if not external and check_fields:
            J.field_eq(sol, "residual as dual infeasibility certificate", res, max(rsc, 1e-300), key="field-dinfres", rel=1e-6)
            J.field_eq(sol, "primal slack", -R["ts"], max(cone.snrm2(s, dims), 1e-300))
            J.req(sol.get("primal objective") == -1.0, "dinf-primal-objective", "primal objective must be -1.0")
            for k in ("gap", "relative gap", "dual objective", "primal infeasibility", "dual infeasibility",
                      "dual slack", "residual as primal infeasibility certificate"):
                J.req(sol.get(k, "MISSING") is None, "dinf-field-not-None", "field %r must be None" % k)
    return st
