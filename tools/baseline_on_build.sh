#!/bin/sh
# Run the repository's own test suite against a package BUILT FROM a source tree
# (default /repo; /venv's installed cvxopt is the PyPI wheel and does not see source edits).
# usage: tools/baseline_on_build.sh [repo-root]
R=${1:-/repo}
D=$(mktemp -d /tmp/cvxopt-verif-base-XXXXXX)
trap 'rm -rf "$D"' EXIT
VERIF_REPO=$R python3 "$(dirname "$0")/../vlib/build.py" plain "$D" >/dev/null || exit 2
cd "$R" && PYTHONPATH="$D/plain" OPENBLAS_NUM_THREADS=1 /venv/bin/python -m pytest -p no:cacheprovider --timeout=900 --junitxml="$D/j.xml" tests >/dev/null 2>&1
python3 - "$D/j.xml" <<'PY'
import sys, xml.etree.ElementTree as ET
r = ET.parse(sys.argv[1]).getroot()
ts = r if r.tag == "testsuite" else r.find("testsuite")
t, f, e, s = (int(ts.get(k, 0)) for k in ("tests", "failures", "errors", "skipped"))
print("%d passed, %d failed, %d errors, %d skipped" % (t - f - e - s, f, e, s))
for tc in ts.iter("testcase"):
    if tc.find("failure") is not None or tc.find("error") is not None:
        print("FAILED", tc.get("classname"), tc.get("name"))
sys.exit(1 if f or e else 0)
PY
