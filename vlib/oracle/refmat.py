"""O-ref: a pure-Python column-major reference matrix implementing what
doc/source/matrices.rst documents (plus the docstrings of cvxopt.base.axpy/
gemv/gemm/syrk/symv), and the lock-step executor that runs one program on
cvxopt and on the model.

A `Ref` is (tc, m, n, v) with v a list of Python int/float/complex in
column-major order.  `sp` says whether the object stands for a sparse matrix
(then `v` is its dense image; the sparsity pattern is not modelled, it is read
from the real object where a documented rule depends on it).

Three kinds of answers:
  * a value (Ref or Python number/bool/list);
  * RAISES(allowed, why): the manual defines no answer -> the library has to
    raise an exception whose class is in `allowed`;
  * UNSPECIFIED(why): the manual is silent on whether/how the case works ->
    not judged, counted separately.
Both markers are exception classes so that model code can `raise` them from
inside operator methods; `evaluate()` turns them into return values.

stdlib only.
"""
import math, cmath, array as _array, operator

# ---------------------------------------------------------------------------
# markers
# ---------------------------------------------------------------------------
BROAD = frozenset([TypeError, ValueError, IndexError, NotImplementedError, ZeroDivisionError,
                   OverflowError, ArithmeticError])
E_INDEX = frozenset([IndexError])                                   # index out of range
E_BADINDEX = frozenset([TypeError, IndexError, ValueError])         # not an index at all
E_TYPE = frozenset([TypeError, ValueError, NotImplementedError])    # wrong type / size / type change
E_ARITH = frozenset([ZeroDivisionError, ValueError, ArithmeticError, OverflowError])
E_NOTDEF = frozenset([TypeError, ValueError, NotImplementedError, ArithmeticError])  # operation not defined
E_OVERFLOW = frozenset([OverflowError, TypeError, ValueError])


class RAISES(Exception):
    """the model has no answer: the library must raise one of `allowed`"""
    def __init__(self, allowed, why=""):
        Exception.__init__(self, why)
        self.allowed = frozenset(allowed)
        self.why = why

    def accepts(self, exc):
        return any(isinstance(exc, a) for a in self.allowed)

    def __repr__(self):
        return "RAISES({%s}: %s)" % (",".join(sorted(a.__name__ for a in self.allowed)), self.why)


class UNSPECIFIED(Exception):
    """the manual is silent: do not judge"""
    def __init__(self, why=""):
        Exception.__init__(self, why)
        self.why = why

    def __repr__(self):
        return "UNSPECIFIED(%s)" % self.why


def all_of(*thunks):
    """evaluate every thunk; if several parts of one statement have no answer the library may
    report any of them: the acceptable classes are the union.  An unspecified part makes the
    whole statement unspecified.  Returns the list of values."""
    out, errs, unspec = [], [], None
    for t in thunks:
        try:
            out.append(t())
        except RAISES as r:
            errs.append(r)
            out.append(None)
        except UNSPECIFIED as u:
            unspec = unspec or u
            out.append(None)
    if unspec is not None:
        raise unspec
    if errs:
        allowed = frozenset().union(*[e.allowed for e in errs])
        raise RAISES(allowed, "; ".join(e.why for e in errs))
    return out


def evaluate(fn, *a, **kw):
    """-> ('value', v) | ('raises', RAISES) | ('unspec', UNSPECIFIED)"""
    try:
        return ("value", fn(*a, **kw))
    except RAISES as r:
        return ("raises", r)
    except UNSPECIFIED as u:
        return ("unspec", u)


ORDER = {"i": 0, "d": 1, "z": 2}
TCS = "idz"
INT_LIMIT = 2 ** 53          # beyond: dedicated overflow class only
INT64_MAX = 2 ** 63 - 1
FLT_LIMIT = 1e100


def is_num(x):
    return isinstance(x, (int, float, complex)) and not isinstance(x, bool)


def num_tc(x):
    if isinstance(x, bool):
        raise UNSPECIFIED("bool used as a number")
    if isinstance(x, int):
        return "i"
    if isinstance(x, float):
        return "d"
    if isinstance(x, complex):
        return "z"
    return None


def maxtc(*tcs):
    return TCS[max(ORDER[t] for t in tcs)]


def conv(val, tc, allowed=E_TYPE):
    """value conversion i -> d -> z only ("If necessary, the type of x is converted
    (from integer to double ..., and from integer or double to complex ...)")"""
    vt = num_tc(val)
    if vt is None:
        raise RAISES(allowed, "not a number: %r" % (type(val).__name__,))
    if ORDER[vt] > ORDER[tc]:
        raise RAISES(allowed, "conversion %s -> %s is not defined" % (vt, tc))
    if tc == "i":
        if val > INT64_MAX or val < -INT64_MAX - 1:
            raise RAISES(E_OVERFLOW, "integer does not fit a machine integer")
        return val
    if tc == "d":
        try:
            return float(val)
        except OverflowError:
            raise RAISES(E_OVERFLOW, "integer too large for a double")
    try:
        return complex(val)
    except OverflowError:
        raise RAISES(E_OVERFLOW, "integer too large for a double")


def _zero(tc):
    return {"i": 0, "d": 0.0, "z": 0j}[tc]


def _guard(vals, tc):
    """magnitudes outside the range this check is about are not judged"""
    if tc == "i":
        for x in vals:
            if abs(x) >= INT_LIMIT:
                raise UNSPECIFIED("integer magnitude >= 2^53")
    else:
        for x in vals:
            a = abs(x)
            if a != a or a > FLT_LIMIT:
                raise UNSPECIFIED("floating magnitude > 1e100 or nan")


def is_seq(x):
    return isinstance(x, (list, tuple, range, _array.array))


def array_tc(x):
    """element type of an array.array ('d'/'f' -> real, integer codes -> integer)"""
    if isinstance(x, _array.array):
        if x.typecode in "df":
            return "d"
        if x.typecode in "bBhHiIlLqQ":
            return "i"
        raise UNSPECIFIED("array of typecode %r" % x.typecode)
    return None


# ---------------------------------------------------------------------------
# the reference matrix
# ---------------------------------------------------------------------------
class Ref(object):
    __array_priority__ = 0

    def __init__(self, tc, m, n, v, sp=False):
        assert tc in TCS and len(v) == m * n, (tc, m, n, len(v))
        self.tc, self.m, self.n, self.v, self.sp = tc, m, n, v, sp
        self.scale = None       # per-element magnitude for the arithmetic tolerance (None = exact)
        self.alt = None         # alternative value list where the manual leaves a convention open
        self.free = ()          # subset of ('tc', 'kind'): attribute not fixed by the manual
        self.pat = None         # sparsity pattern [(i, j)] copied from the real object (sparse only)
        self.patdoc = False     # True: .pat is what the manual documents for this result -> compared
        self.mask = None        # list of bool: positions whose value the documentation defines
        self.wrap = None        # |c| of a real remainder: results that differ by c are the same residue

    # -- basic -------------------------------------------------------------
    @property
    def size(self):
        return (self.m, self.n)

    @size.setter
    def size(self, value):
        if not isinstance(value, tuple) or len(value) != 2 or \
                not all(isinstance(t, int) and not isinstance(t, bool) for t in value):
            raise RAISES(E_TYPE, "size must be a tuple of two integers")
        if value[0] < 0 or value[1] < 0 or value[0] * value[1] != self.m * self.n:
            raise RAISES(E_TYPE, "size assignment must keep the number of elements")
        self.m, self.n = value

    @property
    def typecode(self):
        return self.tc

    def copy(self):
        r = Ref(self.tc, self.m, self.n, list(self.v), self.sp)
        return r

    def __repr__(self):
        return "Ref(%s%s %dx%d %r)" % ("sp " if self.sp else "", self.tc, self.m, self.n, self.v)

    def at(self, i, j):
        return self.v[i + j * self.m]

    # -- sparse attributes V, I, J ("a copy is returned, as a new dense matrix") ----------------
    def _need_pat(self, what):
        if not self.sp:
            raise RAISES(frozenset([AttributeError]), "dense matrices have no attribute %s" % what)
        if self.pat is None:
            raise UNSPECIFIED("%s needs the pattern" % what)

    @property
    def V(self):
        self._need_pat("V")
        return Ref(self.tc, len(self.pat), 1, self.stored())

    @V.setter
    def V(self, val):
        self._need_pat("V")
        if not isinstance(val, Ref) or val.sp:
            raise UNSPECIFIED("V assigned something that is not a dense matrix")
        if val.tc != self.tc:
            if ORDER[val.tc] > ORDER[self.tc]:
                raise RAISES(E_TYPE, "V assignment may not change the type")
            raise UNSPECIFIED("V assigned a matrix of a lower type")
        if val.m * val.n != len(self.pat):
            raise RAISES(E_TYPE | E_INDEX, "V must have one value per stored entry")
        if (val.m, val.n) != (len(self.pat), 1):
            raise UNSPECIFIED("V assigned a matrix that is not a single column")
        if len(set(self.pat)) != len(self.pat):
            raise UNSPECIFIED("pattern with repeated positions")
        for (i, j), x in zip(self.pat, val.v):
            self.v[i + j * self.m] = x

    @property
    def I(self):
        self._need_pat("I")
        return Ref("i", len(self.pat), 1, [i for (i, j) in self.pat])

    @property
    def J(self):
        self._need_pat("J")
        return Ref("i", len(self.pat), 1, [j for (i, j) in self.pat])

    def is_scalar(self):
        """'a scalar (a Python number or a dense 1 by 1 matrix)'"""
        return (not self.sp) and self.m == 1 and self.n == 1

    # -- built-ins ---------------------------------------------------------
    def __len__(self):
        if self.sp:
            if self.pat is None:
                raise UNSPECIFIED("len of sparse needs the pattern")
            return len(self.pat)
        return self.m * self.n

    def __bool__(self):
        # "Returns False if x is a zero matrix and True otherwise."
        return any(x != 0 for x in self.v)

    def stored(self):
        """values that built-ins see: all elements (dense) / the stored entries (sparse)"""
        if not self.sp:
            return list(self.v)
        if self.pat is None:
            raise UNSPECIFIED("needs the pattern")
        return [self.v[i + j * self.m] for (i, j) in self.pat]

    def __iter__(self):
        return iter(self.stored())

    def __contains__(self, x):
        if not is_num(x):
            raise UNSPECIFIED("'in' with a non-number")
        return any(e == x for e in self.stored())

    def __abs__(self):
        tc = "d" if self.tc == "z" else self.tc
        r = Ref(tc, self.m, self.n, [abs(x) for x in self.v], self.sp)
        if self.tc == "z":
            r.scale = [abs(x) for x in r.v]
        if self.sp:
            r.free = ("kind",)
        return r

    def __pos__(self):
        r = self.copy()
        if self.sp:
            r.free = ("kind",)
        return r

    def __neg__(self):
        r = Ref(self.tc, self.m, self.n, [-x for x in self.v], self.sp)
        if self.sp:
            r.free = ("kind",)
        return r

    # -- transposes, real, imag ---------------------------------------------
    def trans(self, conj=False):
        m, n = self.m, self.n
        v = [None] * (m * n)
        for j in range(n):
            for i in range(m):
                x = self.v[i + j * m]
                v[j + i * n] = x.conjugate() if (conj and self.tc == "z") else x
        return Ref(self.tc, n, m, v, self.sp)

    def ctrans(self):
        return self.trans(True)

    T = property(lambda self: self.trans())
    H = property(lambda self: self.trans(True))

    def real(self):
        if self.tc != "z":
            return self.copy()
        return Ref("d", self.m, self.n, [x.real for x in self.v], self.sp)

    def imag(self):
        if self.tc != "z":
            return Ref(self.tc, self.m, self.n, [_zero(self.tc)] * (self.m * self.n), self.sp)
        return Ref("d", self.m, self.n, [x.imag for x in self.v], self.sp)

    # -- indexing ------------------------------------------------------------
    @staticmethod
    def _ilist(idx, dim):
        """-> (is_scalar, [nonnegative indices])"""
        if isinstance(idx, bool):
            raise UNSPECIFIED("bool as index")
        if isinstance(idx, int):
            if idx < -dim or idx >= dim:
                raise RAISES(E_INDEX, "index %d out of range for dimension %d" % (idx, dim))
            return True, [idx % dim if dim else idx]
        if isinstance(idx, slice):
            for t in (idx.start, idx.stop, idx.step):
                if t is not None and (not isinstance(t, int) or isinstance(t, bool)):
                    raise RAISES(E_BADINDEX, "slice fields must be integers")
            if idx.step == 0:
                raise RAISES(E_BADINDEX, "slice step zero")
            return False, list(range(*idx.indices(dim)))
        if isinstance(idx, list):
            out = []
            for k in idx:
                if isinstance(k, bool):
                    raise UNSPECIFIED("bool in index list")
                if not isinstance(k, int):
                    raise RAISES(E_BADINDEX, "non-integer in index list")
            for k in idx:
                if k < -dim or k >= dim:
                    raise RAISES(E_INDEX, "index %d out of range for dimension %d" % (k, dim))
                out.append(k % dim)
            return False, out
        if isinstance(idx, Ref):
            if idx.sp:
                raise UNSPECIFIED("sparse matrix as index")
            if idx.tc != "i":
                raise RAISES(E_BADINDEX, "index matrix must have typecode 'i'")
            out = []
            for k in idx.v:
                if k < -dim or k >= dim:
                    raise RAISES(E_INDEX, "index %d out of range for dimension %d" % (k, dim))
                out.append(k % dim)
            return False, out
        raise RAISES(E_BADINDEX, "not an index: %s" % type(idx).__name__)

    def _resolve(self, key):
        """-> (scalar?, flat positions, (rows, cols) of the addressed block)"""
        if isinstance(key, tuple):
            if len(key) != 2:
                raise RAISES(E_BADINDEX, "indexing takes one or two arguments")
            (si, I), (sj, J) = all_of(lambda: self._ilist(key[0], self.m), lambda: self._ilist(key[1], self.n))
            pos = [i + j * self.m for j in J for i in I]
            return (si and sj), pos, (len(I), len(J))
        s, I = self._ilist(key, self.m * self.n)
        return s, I, (len(I), 1)

    def _pynum(self, x):
        return x

    def __getitem__(self, key):
        scalar, pos, (r, c) = self._resolve(key)
        if scalar:
            return self.v[pos[0]]
        return Ref(self.tc, r, c, [self.v[p] for p in pos], self.sp)

    def _rhs_class(self, val):
        """first look at the right-hand side alone (independent of the index)"""
        if isinstance(val, bool):
            raise UNSPECIFIED("bool as right-hand side")
        if is_num(val):
            return ("num", conv(val, self.tc))
        if isinstance(val, Ref):
            if ORDER[val.tc] > ORDER[self.tc]:
                raise RAISES(E_TYPE, "indexed assignment may not change the type")
            if val is self:
                raise UNSPECIFIED("right-hand side is the assigned matrix itself")
            return ("mat", val)
        if is_seq(val):
            seq = list(val)
            if not seq and array_tc(val) is not None and ORDER[array_tc(val)] > ORDER[self.tc]:
                raise UNSPECIFIED("empty typed array of a higher type on the right")
            for x in seq:
                if isinstance(x, bool):
                    raise UNSPECIFIED("bool in sequence")
                if not is_num(x):
                    raise RAISES(E_TYPE, "non-number in right-hand side sequence")
            for x in seq:
                if ORDER[num_tc(x)] > ORDER[self.tc]:
                    raise RAISES(E_TYPE, "indexed assignment may not change the type")
            return ("seq", seq)
        raise RAISES(E_TYPE, "right-hand side of type %s" % type(val).__name__)

    def __setitem__(self, key, val):
        # right-hand side: "a scalar (i.e., a number or a 1 by 1 dense matrix), a sequence of
        # numbers, or a dense or sparse matrix"
        try:
            (scalar, pos, (r, c)), (kind, rhs) = all_of(lambda: self._resolve(key), lambda: self._rhs_class(val))
        except RAISES as e:
            k2, v2 = evaluate(self._rhs_class, val)
            if k2 == "value" and (v2[0] == "seq" or (v2[0] == "mat" and not v2[1].is_scalar())):
                # the block does not exist, so a size complaint about the right-hand side is as good
                raise RAISES(e.allowed | E_TYPE, e.why + "; size of the right-hand side cannot match")
            raise
        cnt = r * c
        if scalar and kind == "mat" and rhs.sp:
            raise UNSPECIFIED("sparse right-hand side for a single element")
        if kind == "num":
            new = [rhs] * cnt
        elif kind == "mat":
            if rhs.is_scalar():
                new = [conv(rhs.v[0], self.tc)] * cnt
            else:
                if (rhs.m, rhs.n) != (r, c):
                    if rhs.sp and rhs.m * rhs.n == 1:
                        raise UNSPECIFIED("1x1 sparse right-hand side for a larger block")
                    if rhs.m * rhs.n == 0 and cnt == 0:
                        raise UNSPECIFIED("empty right-hand side of another shape for an empty block")
                    raise RAISES(E_TYPE | E_INDEX, "right-hand side %dx%d for a %dx%d block" % (rhs.m, rhs.n, r, c))
                new = [conv(x, self.tc) for x in rhs.v]
        else:
            if len(rhs) != cnt:
                if len(rhs) == 1:
                    raise UNSPECIFIED("length-1 sequence for a larger block")
                raise RAISES(E_TYPE | E_INDEX, "sequence of length %d for a block with %d elements" % (len(rhs), cnt))
            new = [conv(x, self.tc) for x in rhs]
        if len(set(pos)) != len(pos) and len(set(map(repr, new))) > 1:
            raise UNSPECIFIED("repeated index on the left with different values")
        for p, x in zip(pos, new):
            self.v[p] = x

    # -- arithmetic ----------------------------------------------------------
    @staticmethod
    def _operand(x):
        """classify an operand: ('num', value, tc) | ('mat', Ref) | None"""
        if isinstance(x, Ref):
            return ("mat", x)
        if isinstance(x, bool):
            raise UNSPECIFIED("bool operand")
        if is_num(x):
            return ("num", x, num_tc(x))
        return None

    @staticmethod
    def _addsub(a, b, sub):
        """a, b: Ref or number (at least one Ref)"""
        f = operator.sub if sub else operator.add
        if isinstance(a, Ref) and isinstance(b, Ref):
            tc = maxtc(a.tc, b.tc)
            if (a.m, a.n) == (b.m, b.n):
                av, bv, m, n = a.v, b.v, a.m, a.n
            elif a.is_scalar():
                m, n = b.m, b.n
                av, bv = [a.v[0]] * (m * n), b.v
            elif b.is_scalar():
                m, n = a.m, a.n
                av, bv = a.v, [b.v[0]] * (m * n)
            else:
                if (a.m * a.n == 1) or (b.m * b.n == 1):
                    raise UNSPECIFIED("1x1 sparse operand broadcast")
                raise RAISES(E_TYPE, "incompatible dimensions %dx%d and %dx%d" % (a.m, a.n, b.m, b.n))
            sp = a.sp and b.sp
        else:
            A, c, first = (a, b, True) if isinstance(a, Ref) else (b, a, False)
            ctc = num_tc(c)
            tc = maxtc(A.tc, ctc)
            m, n = A.m, A.n
            if first:
                av, bv = A.v, [c] * (m * n)
            else:
                av, bv = [c] * (m * n), A.v
            sp = False     # "c ... is interpreted as a dense matrix"
        av = [conv(x, tc) for x in av]
        bv = [conv(x, tc) for x in bv]
        r = Ref(tc, m, n, [f(x, y) for x, y in zip(av, bv)], sp)
        _guard(r.v, tc)
        if tc != "i":
            r.scale = [abs(x) + abs(y) for x, y in zip(av, bv)]
        return r

    @staticmethod
    def _scalmul(A, c, ctc, sp):
        tc = maxtc(A.tc, ctc)
        cc = conv(c, tc)
        r = Ref(tc, A.m, A.n, [conv(x, tc) * cc for x in A.v], sp)
        _guard(r.v, tc)
        if tc != "i":
            r.scale = [abs(x) for x in r.v]
        return r

    @staticmethod
    def _matmul(a, b):
        tc = maxtc(a.tc, b.tc)
        m, k, n = a.m, a.n, b.n
        av = [conv(x, tc) for x in a.v]
        bv = [conv(x, tc) for x in b.v]
        v, sc = [], []
        for j in range(n):
            for i in range(m):
                s, t = _zero(tc), 0.0
                for l in range(k):
                    p = av[i + l * m] * bv[l + j * k]
                    s += p
                    t += abs(p)
                v.append(s)
                sc.append(t)
        r = Ref(tc, m, n, v, a.sp and b.sp)
        _guard(r.v, tc)
        if tc != "i":
            r.scale = sc
        return r

    @staticmethod
    def _mul(a, b):
        if isinstance(a, Ref) and isinstance(b, Ref):
            if a.is_scalar() and b.is_scalar():
                return Ref._matmul(a, b)
            if a.is_scalar():
                # "if possible, the products c*A and A*c are interpreted as matrix-matrix products",
                # otherwise scalar multiplication with c[0]
                if b.m == 1:
                    return Ref._matmul(a, b)
                return Ref._scalmul(b, a.v[0], a.tc, b.sp)
            if b.is_scalar():
                if a.n == 1:
                    return Ref._matmul(a, b)
                return Ref._scalmul(a, b.v[0], b.tc, a.sp)
            if a.n != b.m:
                if (a.m * a.n == 1) or (b.m * b.n == 1):
                    raise UNSPECIFIED("1x1 sparse operand as scalar")
                raise RAISES(E_TYPE, "incompatible dimensions %dx%d * %dx%d" % (a.m, a.n, b.m, b.n))
            return Ref._matmul(a, b)
        A, c = (a, b) if isinstance(a, Ref) else (b, a)
        return Ref._scalmul(A, c, num_tc(c), A.sp)

    @staticmethod
    def _scalar_of(c, what):
        """c: number or dense 1x1 Ref -> (value, tc)"""
        if isinstance(c, Ref):
            if c.is_scalar():
                return c.v[0], c.tc
            if c.m * c.n == 1:
                raise UNSPECIFIED("1x1 sparse matrix as scalar")
            raise RAISES(E_NOTDEF, "%s by a matrix that is not 1 by 1" % what)
        if isinstance(c, bool):
            raise UNSPECIFIED("bool operand")
        if is_num(c):
            return c, num_tc(c)
        raise RAISES(E_NOTDEF, "%s by %s" % (what, type(c).__name__))

    def _div(self, c):
        cv, ctc = self._scalar_of(c, "division")
        tc = maxtc("d", self.tc, ctc)      # Python 3: "standard division and results in a type 'd' matrix"
        cc = conv(cv, tc)
        if cc == 0:
            raise RAISES(E_ARITH, "division by zero")
        r = Ref(tc, self.m, self.n, [conv(x, tc) / cc for x in self.v], self.sp)
        _guard(r.v, tc)
        r.scale = [abs(x) for x in r.v]
        return r

    def _rem(self, c):
        if self.sp:
            raise RAISES(E_NOTDEF, "remainder is defined for dense matrices only")
        cv, ctc = self._scalar_of(c, "remainder")
        tc = maxtc(self.tc, ctc)
        if tc == "z":
            raise RAISES(E_NOTDEF, "complex remainder")
        cc = conv(cv, tc)
        if cc == 0:
            raise RAISES(E_ARITH, "remainder by zero")
        av = [conv(x, tc) for x in self.v]
        r = Ref(tc, self.m, self.n, [x % cc for x in av], False)
        # the manual does not say which sign convention the remainder follows
        if tc == "i":
            alt = [int(math.fmod(x, cc)) for x in av]
        else:
            alt = [math.fmod(x, cc) for x in av]
        if alt != r.v:
            r.alt = alt
        if tc != "i":
            r.scale = [abs(x) + abs(cc) for x in av]
            r.wrap = abs(cc)    # a quotient that rounds to an integer moves the result by c: same residue
        return r

    def __pow__(self, e):
        if self.sp:
            raise RAISES(E_NOTDEF, "elementwise power is defined for dense matrices only")
        if isinstance(e, Ref):
            raise RAISES(E_NOTDEF, "exponent must be a Python number")
        if isinstance(e, bool):
            raise UNSPECIFIED("bool exponent")
        if not is_num(e):
            raise RAISES(E_NOTDEF, "exponent must be a Python number")
        tc = maxtc("d", self.tc, num_tc(e))
        ee = conv(e, tc)
        out = []
        for x in self.v:
            xx = conv(x, tc)
            if tc == "z" and abs(xx) < 1e-290 and ee.real <= 0:
                raise UNSPECIFIED("complex zero to a non-positive power")
            try:
                y = xx ** ee
            except ZeroDivisionError:
                raise RAISES(E_ARITH, "zero to a negative or complex power")
            except OverflowError:
                raise UNSPECIFIED("power overflows")
            if tc == "d" and isinstance(y, complex):
                raise UNSPECIFIED("negative base with fractional exponent in a real matrix")
            if tc == "z" and xx == 0 and ee.real <= 0:
                raise UNSPECIFIED("complex zero to a non-positive power")
            out.append(y)
        r = Ref(tc, self.m, self.n, out, False)
        _guard(r.v, tc)
        r.scale = [abs(y) * max(1.0, abs(ee)) * (4.0 if tc == "z" else 1.0) for y in out]
        return r

    def __rpow__(self, other):
        raise RAISES(E_NOTDEF, "number ** matrix is not defined")

    # regular binary operators ------------------------------------------------
    def __add__(self, o):
        if Ref._operand(o) is None:
            raise RAISES(E_NOTDEF, "matrix + %s" % type(o).__name__)
        return Ref._addsub(self, o, False)

    def __radd__(self, o):
        if Ref._operand(o) is None:
            raise RAISES(E_NOTDEF, "%s + matrix" % type(o).__name__)
        return Ref._addsub(o, self, False)

    def __sub__(self, o):
        if Ref._operand(o) is None:
            raise RAISES(E_NOTDEF, "matrix - %s" % type(o).__name__)
        return Ref._addsub(self, o, True)

    def __rsub__(self, o):
        if Ref._operand(o) is None:
            raise RAISES(E_NOTDEF, "%s - matrix" % type(o).__name__)
        return Ref._addsub(o, self, True)

    def __mul__(self, o):
        if Ref._operand(o) is None:
            raise RAISES(E_NOTDEF, "matrix * %s" % type(o).__name__)
        return Ref._mul(self, o)

    def __rmul__(self, o):
        if Ref._operand(o) is None:
            raise RAISES(E_NOTDEF, "%s * matrix" % type(o).__name__)
        return Ref._mul(o, self)

    def __truediv__(self, o):
        return self._div(o)

    def __rtruediv__(self, o):
        if self.m * self.n == 1:
            raise UNSPECIFIED("number / 1x1 matrix")
        raise RAISES(E_NOTDEF, "number / matrix is not defined")

    def __mod__(self, o):
        return self._rem(o)

    def __rmod__(self, o):
        if self.m * self.n == 1:
            raise UNSPECIFIED("number % 1x1 matrix")
        raise RAISES(E_NOTDEF, "number % matrix is not defined")

    def __floordiv__(self, o):
        raise RAISES(E_NOTDEF, "// is not defined")

    def __rfloordiv__(self, o):
        raise RAISES(E_NOTDEF, "// is not defined")

    # in-place operators: "only if they do not change the type (sparse or dense, integer, real,
    # or complex) of the matrix A ... modify the existing object A" ------------------------------
    def _inplace(self, res, what):
        if res.tc != self.tc:
            raise RAISES(E_TYPE, "in-place %s would change the typecode %s -> %s" % (what, self.tc, res.tc))
        if res.sp != self.sp:
            raise RAISES(E_TYPE, "in-place %s would change sparse/dense" % what)
        if (res.m, res.n) != (self.m, self.n):
            raise UNSPECIFIED("in-place %s whose result has another size" % what)
        self.v = res.v
        self.scale = res.scale
        self.alt = res.alt
        self.wrap = res.wrap
        return self

    def __iadd__(self, o):
        return self._inplace(self.__add__(o), "addition")

    def __isub__(self, o):
        return self._inplace(self.__sub__(o), "subtraction")

    def __imul__(self, o):
        # "In-place matrix-matrix products are not allowed.  (Except when c is a 1 by 1 dense
        # matrix, in which case A *= c is interpreted as the scalar product A *= c[0].)"
        if isinstance(o, Ref):
            if not o.is_scalar():
                if o.m * o.n == 1:
                    raise UNSPECIFIED("1x1 sparse matrix as scalar")
                raise RAISES(E_TYPE, "in-place matrix-matrix product")
            return self._inplace(Ref._scalmul(self, o.v[0], o.tc, self.sp), "multiplication")
        if Ref._operand(o) is None:
            raise RAISES(E_NOTDEF, "matrix *= %s" % type(o).__name__)
        return self._inplace(Ref._scalmul(self, o, num_tc(o), self.sp), "multiplication")

    def _inplace_tc(self, o, floor_tc, what):
        def chk():
            cv, ctc = self._scalar_of(o, what)
            t = maxtc(floor_tc, self.tc, ctc)
            if t != self.tc:
                raise RAISES(E_TYPE, "in-place %s would change the typecode %s -> %s" % (what, self.tc, t))
        return chk

    def __itruediv__(self, o):
        res = all_of(self._inplace_tc(o, "d", "division"), lambda: self._div(o))[1]
        return self._inplace(res, "division")

    def __imod__(self, o):
        res = all_of(self._inplace_tc(o, "i", "remainder"), lambda: self._rem(o))[1]
        return self._inplace(res, "remainder")

    def __ipow__(self, o):
        raise UNSPECIFIED("**= is not in the table of in-place operations")

    def __ifloordiv__(self, o):
        raise RAISES(E_NOTDEF, "//= is not defined")

    __hash__ = None


# ---------------------------------------------------------------------------
# constructors
# ---------------------------------------------------------------------------
def _check_size(size):
    if size is None:
        return None
    if not isinstance(size, tuple):
        raise UNSPECIFIED("size that is not a tuple")
    if len(size) != 2 or not all(isinstance(t, int) and not isinstance(t, bool) for t in size):
        raise RAISES(E_TYPE, "size must be a tuple of length two")
    if size[0] < 0 or size[1] < 0:
        raise RAISES(E_TYPE, "negative dimension")
    return size


def _check_tc(tc, allowed="idz"):
    if tc is None:
        return None
    if not isinstance(tc, str) or len(tc) != 1 or tc not in allowed:
        raise RAISES(E_TYPE, "typecode %r" % (tc,))
    return tc


def _seq_values(x):
    vals = list(x)
    for t in vals:
        if isinstance(t, bool):
            raise UNSPECIFIED("bool in sequence")
    return vals


def _blocks(x, tc, min_tc="i"):
    """x: list of block columns (or one block column).  -> (tc, m, n, v)"""
    if len(x) > 0 and not any(isinstance(e, list) for e in x):
        cols = [x]
    else:
        cols = x
    for col in cols:
        if not isinstance(col, list):
            raise RAISES(E_TYPE, "mixture of lists and non-lists")
        for e in col:
            if isinstance(e, bool):
                raise UNSPECIFIED("bool in block list")
            if not (isinstance(e, Ref) or is_num(e)):
                raise RAISES(E_TYPE, "block of type %s" % type(e).__name__)
    if any(len(col) == 0 for col in cols) and any(len(col) for col in cols):
        raise UNSPECIFIED("empty block column next to non-empty ones")
    t = min_tc
    colinfo = []
    for col in cols:
        rows, width = 0, None
        for e in col:
            bm, bn = (e.m, e.n) if isinstance(e, Ref) else (1, 1)
            t = maxtc(t, e.tc if isinstance(e, Ref) else num_tc(e))
            if width is None:
                width = bn
            elif width != bn:
                raise RAISES(E_TYPE, "blocks of one block column have different widths")
            rows += bm
        colinfo.append((rows, width or 0))
    if len(set(r for r, w in colinfo)) > 1:
        raise RAISES(E_TYPE, "block columns have different heights")
    m = colinfo[0][0] if colinfo else 0
    n = sum(w for r, w in colinfo)
    if tc is not None:
        if ORDER[tc] < ORDER[t]:
            raise RAISES(E_TYPE, "blocks cannot be converted to %s" % tc)
        t = maxtc(tc, min_tc)
    v = [_zero(t)] * (m * n)
    c0 = 0
    for col, (rows, width) in zip(cols, colinfo):
        r0 = 0
        for e in col:
            if isinstance(e, Ref):
                for j in range(e.n):
                    for i in range(e.m):
                        v[(r0 + i) + (c0 + j) * m] = conv(e.v[i + j * e.m], t)
                r0 += e.m
            else:
                v[r0 + c0 * m] = conv(e, t)
                r0 += 1
        c0 += width
    return t, m, n, v


def matrix(x=None, size=None, tc=None):
    """cvxopt.matrix(x[, size[, tc]])"""
    if x is None:
        raise UNSPECIFIED("matrix() without x")
    try:
        tc, size = all_of(lambda: _check_tc(tc), lambda: _check_size(size))
    except RAISES as r0:
        # the other arguments may be wrong as well
        try:
            _matrix(x, None, None)
        except RAISES as r1:
            raise RAISES(r0.allowed | r1.allowed, r0.why + "; " + r1.why)
        raise r0
    return _matrix(x, size, tc)


def _matrix(x, size, tc):
    if isinstance(x, bool):
        raise UNSPECIFIED("bool as x")
    if is_num(x):
        m, n = size if size is not None else (1, 1)
        t = tc or num_tc(x)
        return Ref(t, m, n, [conv(x, t)] * (m * n))
    if isinstance(x, Ref):
        t = tc or x.tc
        if ORDER[x.tc] > ORDER[t]:
            if x.m * x.n == 0:
                raise UNSPECIFIED("down-conversion of a matrix without elements")
            raise RAISES(E_TYPE, "conversion %s -> %s is not defined" % (x.tc, t))
        v = [conv(e, t) for e in x.v]
        m, n = size if size is not None else (x.m, x.n)
        if m * n != x.m * x.n:
            raise RAISES(E_TYPE, "size does not match the number of elements")
        return Ref(t, m, n, v)
    if isinstance(x, list) and any(isinstance(e, (list, Ref)) for e in x):
        t, m, n, v = _blocks(x, tc)
        if size is not None:
            if size[0] * size[1] != m * n:
                raise RAISES(E_TYPE, "size does not match the number of elements")
            m, n = size
        return Ref(t, m, n, v)
    if is_seq(x):
        vals = _seq_values(x)
        for e in vals:
            if not is_num(e):
                raise RAISES(E_TYPE, "non-number in sequence")
        t = tc
        if t is None:
            t = "i"
            for e in vals:
                t = maxtc(t, num_tc(e))
        elif not vals and array_tc(x) is not None and ORDER[array_tc(x)] > ORDER[t]:
            raise UNSPECIFIED("empty typed array of a higher type than tc")
        v = [conv(e, t) for e in vals]
        m, n = size if size is not None else (len(v), 1)
        if m * n != len(v):
            raise RAISES(E_TYPE, "size does not match the length of the sequence")
        r = Ref(t, m, n, v)
        if not vals and tc is None and array_tc(x) is not None:
            r.free = ("tc",)        # typed but empty: "if that is impossible ... 'i' is used" or the array's type
        return r
    raise RAISES(E_TYPE, "x of type %s" % type(x).__name__)


def _index_seq(I, what):
    if isinstance(I, Ref):
        if I.sp or I.tc != "i":
            raise RAISES(E_TYPE, "%s must be an integer matrix or a sequence of integers" % what)
        return list(I.v)
    if is_seq(I):
        out = list(I)
        for k in out:
            if isinstance(k, bool):
                raise UNSPECIFIED("bool index")
            if not isinstance(k, int):
                raise RAISES(E_TYPE, "%s contains a non-integer" % what)
        return out
    raise RAISES(E_TYPE, "%s of type %s" % (what, type(I).__name__))


def spmatrix(x, I, J, size=None, tc=None):
    """cvxopt.spmatrix(x, I, J[, size[, tc]]) -> Ref with sp=True and .pat = the distinct
    (i, j) pairs in column-major order (explicit zeros are entries)."""
    tc = _check_tc(tc, "idz")
    if tc == "i":
        raise RAISES(E_TYPE, "integer sparse matrices are not implemented")
    size = _check_size(size)
    Il, Jl = _index_seq(I, "I"), _index_seq(J, "J")
    if len(Il) != len(Jl):
        raise RAISES(E_TYPE | E_INDEX, "I and J have different lengths")
    if any(k < 0 for k in Il + Jl):
        raise RAISES(E_TYPE | E_INDEX | E_OVERFLOW, "negative row/column index")
    if isinstance(x, bool):
        raise UNSPECIFIED("bool as x")
    if is_num(x):
        vals = [x] * len(Il)
        t = tc or ("z" if num_tc(x) == "z" else "d")
    elif isinstance(x, Ref):
        if x.sp:
            raise UNSPECIFIED("sparse x")
        vals = list(x.v)
        t = tc or ("z" if x.tc == "z" else "d")
        if ORDER[x.tc] > ORDER[t]:
            if x.m * x.n == 0:
                raise UNSPECIFIED("down-conversion of a matrix without elements")
            raise RAISES(E_TYPE, "conversion %s -> %s is not defined" % (x.tc, t))
    elif is_seq(x):
        vals = _seq_values(x)
        for e in vals:
            if not is_num(e):
                raise RAISES(E_TYPE, "non-number in x")
        t = tc or ("z" if any(num_tc(e) == "z" for e in vals) else "d")
    else:
        raise RAISES(E_TYPE, "x of type %s" % type(x).__name__)
    if len(vals) != len(Il):
        raise RAISES(E_TYPE | E_INDEX, "x must have the same length as I and J")
    vals = [conv(e, t) for e in vals]
    m = (max(Il) + 1) if Il else 0
    n = (max(Jl) + 1) if Jl else 0
    if size is not None:
        if size[0] < m or size[1] < n:
            raise RAISES(E_TYPE | E_INDEX, "index outside the given size")
        m, n = size
    v = [_zero(t)] * (m * n)
    sc = [0.0] * (m * n)
    pat = set()
    for i, j, e in zip(Il, Jl, vals):
        v[i + j * m] += e           # "If I and J contain repeated entries, the ... values ... are added."
        sc[i + j * m] += abs(e)
        pat.add((i, j))
    r = Ref(t, m, n, v, True)
    if len(pat) != len(Il):
        r.scale = sc
    r.pat = sorted(pat, key=lambda p: (p[1], p[0]))
    r.patdoc = True
    return r


def sparse(x, tc=None):
    """cvxopt.sparse(x[, tc]): numerical zeros are removed from the triplet description"""
    tc = _check_tc(tc, "idz")
    if tc == "i":
        raise RAISES(E_TYPE, "integer sparse matrices are not implemented")
    if isinstance(x, Ref):
        t = tc or maxtc("d", x.tc)
        if ORDER[x.tc] > ORDER[t]:
            if x.m * x.n == 0:
                raise UNSPECIFIED("down-conversion of a matrix without elements")
            raise RAISES(E_TYPE, "conversion %s -> %s is not defined" % (x.tc, t))
        r = Ref(t, x.m, x.n, [conv(e, t) for e in x.v], True)
    elif isinstance(x, list):
        t, m, n, v = _blocks(x, tc, "d")
        r = Ref(t, m, n, v, True)
    else:
        raise UNSPECIFIED("sparse() of %s" % type(x).__name__)
    r.pat = [(i, j) for j in range(r.n) for i in range(r.m) if r.v[i + j * r.m] != 0]
    r.patdoc = True
    return r


def spdiag(x):
    if isinstance(x, Ref):
        if x.m != 1 and x.n != 1:
            raise UNSPECIFIED("spdiag of a matrix that is not a single row or column")
        if x.m * x.n == 0:
            raise UNSPECIFIED("spdiag of an empty vector")
        t = maxtc("d", x.tc)
        k = x.m * x.n
        vals = list(x.v) if not x.sp or True else None
        v = [_zero(t)] * (k * k)
        for i in range(k):
            v[i + i * k] = conv(vals[i], t)
        return Ref(t, k, k, v, True)
    if isinstance(x, list):
        t = "d"
        dims = []
        for e in x:
            if isinstance(e, bool):
                raise UNSPECIFIED("bool block")
            if isinstance(e, Ref):
                if e.m != e.n:
                    raise UNSPECIFIED("non-square diagonal block")
                dims.append(e.m)
                t = maxtc(t, e.tc)
            elif is_num(e):
                dims.append(1)
                t = maxtc(t, num_tc(e))
            else:
                raise RAISES(E_TYPE, "diagonal block of type %s" % type(e).__name__)
        k = sum(dims)
        v = [_zero(t)] * (k * k)
        o = 0
        for e, d in zip(x, dims):
            if isinstance(e, Ref):
                for j in range(d):
                    for i in range(d):
                        v[(o + i) + (o + j) * k] = conv(e.v[i + j * d], t)
            else:
                v[o + o * k] = conv(e, t)
            o += d
        return Ref(t, k, k, v, True)
    raise UNSPECIFIED("spdiag of %s" % type(x).__name__)


# ---------------------------------------------------------------------------
# built-in functions applied to matrices
# ---------------------------------------------------------------------------
def bmax(A):
    """built-in max: 'the maximum element' (dense) / 'maximum nonzero element' (stored entries)"""
    return _bext(A, max)


def bmin(A):
    return _bext(A, min)


def _bext(A, f):
    if not isinstance(A, Ref):
        raise UNSPECIFIED("not a matrix")
    if A.tc == "z":
        raise UNSPECIFIED("max/min of a complex matrix")
    vals = A.stored()
    if not vals:
        raise RAISES(E_TYPE | E_INDEX, "max/min of a matrix without elements")
    if any(x != x for x in vals):
        raise UNSPECIFIED("nan input")
    return f(vals)


def bsum(A, start=None):
    vals = A.stored()
    s = 0 if start is None else start
    for x in vals:
        s = s + x
    return s


# ---------------------------------------------------------------------------
# "Other Matrix Functions"
# ---------------------------------------------------------------------------
def _elementwise(name, A, freal, fcomplex, domain_real=None, domain_complex=None, why=""):
    if not isinstance(A, Ref):
        raise UNSPECIFIED("%s of a %s" % (name, type(A).__name__))
    if A.sp:
        raise UNSPECIFIED("%s of a sparse matrix" % name)
    out = []
    if any(x != x for x in A.v):
        raise UNSPECIFIED("nan input")
    if A.tc == "z":
        for x in A.v:
            if domain_complex is not None and not domain_complex(x):
                raise RAISES(E_ARITH, "%s: %s" % (name, why))
            try:
                out.append(fcomplex(x))
            except (OverflowError, ValueError):
                raise UNSPECIFIED("%s overflows" % name)
        r = Ref("z", A.m, A.n, out)
        r.scale = [abs(y) * (2.0 + abs(x)) for x, y in zip(A.v, out)]
    else:
        for x in A.v:
            xx = float(x)
            if domain_real is not None and not domain_real(xx):
                raise RAISES(E_ARITH, "%s: %s" % (name, why))
            try:
                out.append(freal(xx))
            except (OverflowError, ValueError):
                raise UNSPECIFIED("%s overflows" % name)
        r = Ref("d", A.m, A.n, out)
        r.scale = [max(abs(y), 1e-300) * (2.0 + abs(float(x))) for x, y in zip(A.v, out)]
    _guard(r.v, r.tc)
    return r


def sqrt(A):
    return _elementwise("sqrt", A, math.sqrt, cmath.sqrt, lambda x: x >= 0, None, "negative element")


def exp(A):
    return _elementwise("exp", A, math.exp, cmath.exp)


def sin(A):
    return _elementwise("sin", A, math.sin, cmath.sin)


def cos(A):
    return _elementwise("cos", A, math.cos, cmath.cos)


def log(A):
    return _elementwise("log", A, math.log, cmath.log, lambda x: x > 0, lambda z: z != 0,
                        "nonpositive real / zero complex element")


def _nary_args(args, name):
    if len(args) == 1 and isinstance(args[0], (list, tuple, range)):
        args = tuple(args[0])
        if len(args) == 1:
            raise UNSPECIFIED("%s of an iterable with one element" % name)
    if not args:
        raise UNSPECIFIED("%s without arguments" % name)
    for a in args:
        if isinstance(a, bool):
            raise UNSPECIFIED("bool argument")
        if not (isinstance(a, Ref) or is_num(a)):
            raise RAISES(E_TYPE, "%s argument of type %s" % (name, type(a).__name__))
    return args


def _broadcast(args, name):
    """common shape of an elementwise n-ary function: 'A 1 by 1 dense matrix is treated as a
    scalar if the dimensions of the other arguments are not all 1 by 1.'
    -> (m, n, [value lists or scalars], mats)"""
    mats = [a for a in args if isinstance(a, Ref)]
    shapes = set((a.m, a.n) for a in mats)
    big = set(s for s in shapes if s != (1, 1))
    if len(big) > 1:
        raise RAISES(E_TYPE, "%s: arguments of different sizes" % name)
    if big:
        m, n = next(iter(big))
        for a in mats:
            if (a.m, a.n) == (1, 1) and a.sp:
                raise UNSPECIFIED("1x1 sparse matrix as scalar")
    else:
        m, n = (1, 1)
    cols = []
    for a in args:
        if isinstance(a, Ref):
            cols.append(list(a.v) if (a.m, a.n) == (m, n) else [a.v[0]] * (m * n))
        else:
            cols.append([a] * (m * n))
    return m, n, cols, mats


def mul(*args):
    """cvxopt.mul: elementwise product"""
    args = _nary_args(args, "mul")
    m, n, cols, mats = _broadcast(args, "mul")
    if not mats:
        raise UNSPECIFIED("mul of numbers only")
    tc = maxtc(*[a.tc if isinstance(a, Ref) else num_tc(a) for a in args])
    v, sc = [], []
    for k in range(m * n):
        p = conv(1, tc)
        for c in cols:
            p = p * conv(c[k], tc)
        v.append(p)
        sc.append(abs(p) * len(cols))
    # "The result is a sparse matrix if one or more of its arguments is sparse"
    r = Ref(tc, m, n, v, any(a.sp for a in mats))
    _guard(r.v, tc)
    if tc != "i":
        r.scale = sc
    if len(set(a.tc if isinstance(a, Ref) else num_tc(a) for a in args)) > 1:
        r.free = ("tc",)        # the manual does not state the type of a mixed product
        if tc == "i":
            r.free = ()
    if len(args) == 1:
        r.free = tuple(r.free) + ("kind",)
    return r


def div(*args):
    """cvxopt.div(x, y): 'x is a dense or sparse matrix, or a scalar ...; y is a dense matrix or
    a scalar'"""
    if len(args) != 2:
        raise UNSPECIFIED("div takes x and y")
    x, y = args
    for a in args:
        if isinstance(a, bool):
            raise UNSPECIFIED("bool argument")
        if not (isinstance(a, Ref) or is_num(a)):
            raise RAISES(E_TYPE, "div argument of type %s" % type(a).__name__)
    if isinstance(y, Ref) and y.sp:
        raise UNSPECIFIED("sparse divisor")
    if not isinstance(x, Ref) and not isinstance(y, Ref):
        raise UNSPECIFIED("div of two numbers")
    m, n, cols, mats = _broadcast(args, "div")
    xt = x.tc if isinstance(x, Ref) else num_tc(x)
    yt = y.tc if isinstance(y, Ref) else num_tc(y)
    if xt == "i" and yt == "i":
        raise UNSPECIFIED("div of two integer operands (integer or true division?)")
    tc = maxtc("d", xt, yt)
    v = []
    for k in range(m * n):
        d = conv(cols[1][k], tc)
        if d == 0:
            raise UNSPECIFIED("div by a zero element")
        v.append(conv(cols[0][k], tc) / d)
    r = Ref(tc, m, n, v, isinstance(x, Ref) and x.sp)
    _guard(r.v, tc)
    r.scale = [abs(t) for t in v]
    r.free = ("kind",) if (isinstance(x, Ref) and x.sp) else ()
    return r


def _emaxmin(args, name, f):
    args = _nary_args(args, name)
    for a in args:
        if (a.tc if isinstance(a, Ref) else num_tc(a)) == "z":
            raise UNSPECIFIED("%s with complex arguments" % name)
        if any(x != x for x in (a.v if isinstance(a, Ref) else [a])):
            raise UNSPECIFIED("nan input")
    if len(args) == 1:
        a = args[0]
        if not isinstance(a, Ref):
            raise UNSPECIFIED("%s of one number" % name)
        # "returns the maximum of the elements of the matrix (including the zero entries, if
        # the matrix is sparse)"
        if a.m * a.n == 0:
            raise RAISES(E_TYPE | E_INDEX, "%s of a matrix without elements" % name)
        return f(a.v)
    m, n, cols, mats = _broadcast(args, name)
    if not mats:
        return f(args)          # "The result is a number if all its arguments are numbers."
    tcs = set(a.tc if isinstance(a, Ref) else num_tc(a) for a in args)
    tc = maxtc(*tcs)
    v = [conv(f([c[k] for c in cols]), tc) for k in range(m * n)]
    allsp = all(isinstance(a, Ref) and a.sp for a in args)
    anydense = any(isinstance(a, Ref) and not a.sp for a in args)
    r = Ref(tc, m, n, v, allsp)
    fr = []
    if not allsp and not anydense:
        fr.append("kind")       # sparse matrices and numbers: not stated
    if len(tcs) > 1:
        fr.append("tc")
    if (m, n) == (1, 1) and "kind" not in fr:
        fr.append("kind")       # all arguments 1 by 1: matrices or scalars?
    r.free = tuple(fr)
    return r


def emax(*args):
    return _emaxmin(args, "max", max)


def emin(*args):
    return _emaxmin(args, "min", min)


# ---------------------------------------------------------------------------
# cvxopt.base level-1/2/3 routines used by the solvers (docstrings)
# ---------------------------------------------------------------------------
def _alpha(val, tc, name):
    if val is None:
        return None
    if isinstance(val, bool) or not is_num(val):
        raise RAISES(E_TYPE, "%s must be a number" % name)
    if num_tc(val) == "z" and tc != "z":
        raise RAISES(E_TYPE, "complex %s with real matrices" % name)
    return conv(val, tc)


def _need_dz(*mats):
    for a in mats:
        if not isinstance(a, Ref):
            raise RAISES(E_TYPE, "matrix argument expected")
    if any(a.tc == "i" for a in mats):
        raise RAISES(E_TYPE, "'d' or 'z' matrices required")
    if len(set(a.tc for a in mats)) != 1:
        raise RAISES(E_TYPE, "matrices must have the same type")
    return mats[0].tc


def _op(A, trans):
    if trans == "N":
        return A
    if trans == "T":
        return A.trans()
    if trans == "C":
        return A.trans(True)
    raise RAISES(E_TYPE, "trans=%r" % (trans,))


def _partial(C, new, partial):
    """'If C is sparse and partial is True, then only the nonzero elements of C are updated'"""
    if partial and C.sp:
        if C.pat is None:
            raise UNSPECIFIED("partial update needs the pattern")
        keep = set(i + j * C.m for (i, j) in C.pat)
        return [x if k in keep else c for k, (x, c) in enumerate(zip(new, C.v))]
    return new


def base_axpy(x, y, alpha=None, partial=None):
    """y := alpha*x + y"""
    tc = _need_dz(x, y)
    if partial is not None and not isinstance(partial, bool):
        raise RAISES(E_TYPE, "partial must be a bool")
    if (x.m, x.n) != (y.m, y.n):
        raise RAISES(E_TYPE, "dimensions of x and y do not match")
    a = _alpha(alpha, tc, "alpha")
    a = conv(1, tc) if a is None else a
    new = [a * xv + yv for xv, yv in zip(x.v, y.v)]
    sc = [abs(a * xv) + abs(yv) for xv, yv in zip(x.v, y.v)]
    _guard(new, tc)
    if x is y:
        raise UNSPECIFIED("x and y are the same object")
    y.v = _partial(y, new, partial)
    y.scale = sc
    return None


def base_gemm(A, B, C, transA="N", transB="N", alpha=None, beta=None, partial=None):
    tc = _need_dz(A, B, C)
    if partial is not None and not isinstance(partial, bool):
        raise RAISES(E_TYPE, "partial must be a bool")
    oA, oB = _op(A, transA), _op(B, transB)
    if oA.n != oB.m:
        raise RAISES(E_TYPE, "dimensions of A and B do not match")
    if (C.m, C.n) != (oA.m, oB.n):
        if oA.m == 0 or oB.n == 0:
            raise UNSPECIFIED("empty product with a C of another size")
        raise RAISES(E_TYPE, "dimensions of C do not match")
    a = _alpha(alpha, tc, "alpha")
    b = _alpha(beta, tc, "beta")
    a = conv(1, tc) if a is None else a
    b = conv(0, tc) if b is None else b
    P = Ref._matmul(oA, oB)
    new = [a * p + (b * c if b != 0 else _zero(tc)) for p, c in zip(P.v, C.v)]
    sc = [abs(a) * s + abs(b * c) for s, c in zip(P.scale, C.v)]
    _guard(new, tc)
    if C is A or C is B:
        raise UNSPECIFIED("C is one of the factors")
    C.v = _partial(C, new, partial)
    C.scale = sc
    return None


def base_syrk(A, C, uplo="L", trans="N", alpha=None, beta=None, partial=None):
    """C := alpha*A*A^T + beta*C (trans 'N') / alpha*A^T*A + beta*C (trans 'T'); only the
    `uplo` triangle of C is defined afterwards.  Returns the mask of defined positions."""
    tc = _need_dz(A, C)
    if uplo not in ("L", "U"):
        raise RAISES(E_TYPE, "uplo")
    if trans not in ("N", "T"):
        if trans == "C" and tc == "d":
            raise UNSPECIFIED("trans='C' for real syrk")
        raise RAISES(E_TYPE, "trans")
    if partial is not None and not isinstance(partial, bool):
        raise RAISES(E_TYPE, "partial must be a bool")
    if tc == "z" and (A.sp or C.sp):
        # the docstring admits 'z' (sp)matrices, but no complex sparse kernel exists and the
        # repaired library rejects the call: not judged (a crash still is)
        raise UNSPECIFIED("complex syrk with a sparse operand")
    X = A if trans == "N" else A.trans()
    n = X.m
    if (C.m, C.n) != (n, n):
        if n == 0:
            raise UNSPECIFIED("n = 0 with a C of another size")
        raise RAISES(E_TYPE, "C must be square of order n")
    a = _alpha(alpha, tc, "alpha")
    b = _alpha(beta, tc, "beta")
    a = conv(1, tc) if a is None else a
    b = conv(0, tc) if b is None else b
    P = Ref._matmul(X, X.trans())
    new, sc, mask = list(C.v), [0.0] * (n * n), [False] * (n * n)
    for j in range(n):
        for i in range(n):
            if (uplo == "L" and i >= j) or (uplo == "U" and i <= j):
                k = i + j * n
                new[k] = a * P.v[k] + (b * C.v[k] if b != 0 else _zero(tc))
                sc[k] = abs(a) * P.scale[k] + abs(b * C.v[k])
                mask[k] = True
    _guard([x for x, mk in zip(new, mask) if mk], tc)
    if C is A:
        raise UNSPECIFIED("C is A")
    C.v = _partial(C, new, partial)
    C.scale = sc
    C.mask = mask
    return None


def base_gemv(A, x, y, trans="N", alpha=None, beta=None, m=None, n=None, incx=1, incy=1,
              offsetA=0, offsetx=0, offsety=0):
    """y := alpha*op(A)*x + beta*y on the m x n block of A starting at offsetA (column-major
    with leading dimension max(1, A.size[0])), strided x and y."""
    tc = _need_dz(A, x, y)
    if x.sp or y.sp:
        raise RAISES(E_TYPE, "x and y must be dense")
    if trans not in ("N", "T", "C"):
        raise RAISES(E_TYPE, "trans")
    for name, t in (("m", m), ("n", n), ("incx", incx), ("incy", incy), ("offsetA", offsetA),
                    ("offsetx", offsetx), ("offsety", offsety)):
        if t is not None and (isinstance(t, bool) or not isinstance(t, int)):
            raise RAISES(E_TYPE, "%s must be an integer" % name)
    if incx == 0 or incy == 0:
        raise RAISES(E_TYPE, "zero increment")
    if m is None or m < 0:
        m = A.m
    if n is None or n < 0:
        n = A.n
    if (m == 0 and trans == "N") or (n == 0 and trans != "N"):
        return None          # "Returns immediately"
    if offsetA < 0 or offsetx < 0 or offsety < 0:
        raise RAISES(E_TYPE, "negative offset")
    ld = max(1, A.m)
    if n > 0 and m > 0 and offsetA + (n - 1) * ld + m > A.m * A.n:
        raise RAISES(E_TYPE, "A too short")
    if A.sp and m > 0 and n > 0 and A.m and m > A.m - (offsetA % A.m):
        raise UNSPECIFIED("sparse gemv requires m <= A.size[0] - offsetA % A.size[0]")
    lx, ly = (n, m) if trans == "N" else (m, n)
    if lx > 0 and offsetx + (lx - 1) * abs(incx) + 1 > x.m * x.n:
        raise RAISES(E_TYPE, "x too short")
    if offsety + (ly - 1) * abs(incy) + 1 > y.m * y.n:
        raise RAISES(E_TYPE, "y too short")
    if x is y:
        raise UNSPECIFIED("x and y are the same object")
    a = _alpha(alpha, tc, "alpha")
    b = _alpha(beta, tc, "beta")
    a = conv(1, tc) if a is None else a
    b = conv(0, tc) if b is None else b
    blk = Ref(tc, m, n, [A.v[offsetA + i + j * ld] for j in range(n) for i in range(m)])
    op = _op(blk, trans)

    def pos(off, inc, k, cnt):      # BLAS convention for negative increments
        return off + (k * inc if inc > 0 else (cnt - 1 - k) * (-inc))
    xs = [x.v[pos(offsetx, incx, k, lx)] for k in range(lx)]
    new, sc = list(y.v), [0.0] * len(y.v)
    for i in range(ly):
        s, t = _zero(tc), 0.0
        for k in range(lx):
            p = op.v[i + k * op.m] * xs[k]
            s += p
            t += abs(p)
        q = pos(offsety, incy, i, ly)
        new[q] = a * s + (b * y.v[q] if b != 0 else _zero(tc))
        sc[q] = abs(a) * t + abs(b * y.v[q])
    _guard(new, tc)
    y.v = new
    y.scale = sc
    return None


def base_symv(A, x, y, uplo="L", alpha=None, beta=None, n=None, incx=1, incy=1,
              offsetA=0, offsetx=0, offsety=0):
    """y := alpha*A*x + beta*y, A real symmetric of order n given by its `uplo` triangle"""
    tc = _need_dz(A, x, y)
    if tc != "d":
        raise UNSPECIFIED("symv is documented for 'd' matrices")
    if x.sp or y.sp:
        raise RAISES(E_TYPE, "x and y must be dense")
    if uplo not in ("L", "U"):
        raise RAISES(E_TYPE, "uplo")
    if incx == 0 or incy == 0:
        raise RAISES(E_TYPE, "zero increment")
    if n is None or n < 0:
        if A.m != A.n:
            raise RAISES(E_TYPE, "A is not square")
        n = A.m
    if n == 0:
        return None
    if offsetA < 0 or offsetx < 0 or offsety < 0:
        raise RAISES(E_TYPE, "negative offset")
    ld = max(1, A.m)
    if offsetA + (n - 1) * ld + n > A.m * A.n:
        raise RAISES(E_TYPE, "A too short")
    if A.sp and n > A.m - (offsetA % A.m):
        raise UNSPECIFIED("sparse symv block constraint")
    if offsetx + (n - 1) * abs(incx) + 1 > x.m * x.n:
        raise RAISES(E_TYPE, "x too short")
    if offsety + (n - 1) * abs(incy) + 1 > y.m * y.n:
        raise RAISES(E_TYPE, "y too short")
    if x is y:
        raise UNSPECIFIED("x and y are the same object")
    a = _alpha(alpha, tc, "alpha")
    b = _alpha(beta, tc, "beta")
    a = 1.0 if a is None else a
    b = 0.0 if b is None else b

    def el(i, j):
        if (uplo == "L" and i < j) or (uplo == "U" and i > j):
            i, j = j, i
        return A.v[offsetA + i + j * ld]

    def pos(off, inc, k, cnt):
        return off + (k * inc if inc > 0 else (cnt - 1 - k) * (-inc))
    xs = [x.v[pos(offsetx, incx, k, n)] for k in range(n)]
    new, sc = list(y.v), [0.0] * len(y.v)
    for i in range(n):
        s, t = 0.0, 0.0
        for k in range(n):
            p = el(i, k) * xs[k]
            s += p
            t += abs(p)
        q = pos(offsety, incy, i, n)
        new[q] = a * s + (b * y.v[q] if b != 0 else 0.0)
        sc[q] = abs(a) * t + abs(b * y.v[q])
    _guard(new, tc)
    y.v = new
    y.scale = sc
    return None


# ---------------------------------------------------------------------------
# images of real cvxopt objects (own triplet expansion; cvxopt.matrix(A) is not used)
# ---------------------------------------------------------------------------
def kind_of(obj):
    tn = type(obj).__name__
    if tn == "matrix" and hasattr(obj, "typecode"):
        return "dense"
    if tn == "spmatrix" and hasattr(obj, "typecode"):
        return "sparse"
    return None


def triplets(A):
    """[(i, j, value)] of a real spmatrix read from A.CCS (column-major order)"""
    colptr, rowind, values = A.CCS
    colptr, rowind, values = list(colptr), list(rowind), list(values)
    out = []
    for j in range(len(colptr) - 1):
        for k in range(colptr[j], colptr[j + 1]):
            if 0 <= k < len(rowind) and k < len(values):     # an invalid CCS is reported by O-ccs
                out.append((rowind[k], j, values[k]))
    return out


def snapshot(obj):
    """Ref image of a real matrix / spmatrix"""
    k = kind_of(obj)
    m, n = obj.size
    if k == "dense":
        return Ref(obj.typecode, m, n, list(obj))
    if k == "sparse":
        tc = obj.typecode
        v = [_zero(tc)] * (m * n)
        pat = []
        for (i, j, x) in triplets(obj):
            if 0 <= i < m and 0 <= j < n:
                v[i + j * m] += x
            pat.append((i, j))
        r = Ref(tc, m, n, v, True)
        r.pat = pat
        return r
    raise TypeError("not a cvxopt matrix: %r" % (obj,))


# ---------------------------------------------------------------------------
# comparison
# ---------------------------------------------------------------------------
RTOL = 1e-14


def value_mismatch(tc, got, want, scale, rtol=RTOL, mask=None, wrap=None):
    """-> (index, got, want, err/scale) of the first mismatching element, or None; and the
    largest err/scale seen (for calibration)"""
    worst = 0.0
    bad = None
    for k, (g, w) in enumerate(zip(got, want)):
        if mask is not None and not mask[k]:
            continue
        if type(g) is not type(w):
            return (k, g, w, float("inf")), float("inf")
        if g == w or same_nan(g, w):
            continue
        if tc == "i" or scale is None:
            return (k, g, w, float("inf")), float("inf")
        err = abs(g - w)
        if wrap is not None:
            err = min(err, abs(err - wrap))
        s = max(scale[k], 1e-280)       # subnormal results carry no relative accuracy
        if err != err:
            return (k, g, w, float("inf")), float("inf")
        rel = err / s if s > 0 else float("inf")
        if rel > worst:
            worst = rel
        if rel > rtol and bad is None:
            bad = (k, g, w, rel)
    return bad, worst


def same_nan(g, w):
    """values the model merely copied from the library (after an unjudged step) may be nan"""
    if isinstance(g, float):
        return g != g and w != w
    if isinstance(g, complex):
        return (g.real == w.real or (g.real != g.real and w.real != w.real)) and \
               (g.imag == w.imag or (g.imag != g.imag and w.imag != w.imag))
    return False


def num_equal(got, want, tol=None):
    """scalar results: same Python type and value"""
    if type(got) is not type(want):
        return False
    if got == want:
        return True
    if tol is not None and isinstance(want, (float, complex)):
        return abs(got - want) <= tol
    return False


# ---------------------------------------------------------------------------
# lock-step execution of one program on cvxopt and on the model
# ---------------------------------------------------------------------------
def _make_probe():
    """PyErr_Occurred() through ctypes.pythonapi: ctypes re-raises an error indicator that a C
    function left set while reporting success (specialised CALL bytecodes do not check it)."""
    import ctypes
    f = ctypes.pythonapi.PyErr_Occurred
    f.restype = ctypes.c_void_p
    f.argtypes = []
    return f


GRAVEYARD = []      # objects that took part in a failed operation: kept alive, never used again


def materialize(r):
    """a fresh cvxopt object with the state of the model object r"""
    import cvxopt
    if not r.sp:
        return cvxopt.matrix(list(r.v), (r.m, r.n), r.tc)
    pat = list(r.pat or [])
    if len(set(pat)) != len(pat):
        raise ValueError("pattern with repeated positions")
    return cvxopt.spmatrix([r.v[i + j * r.m] for (i, j) in pat], [i for (i, j) in pat], [j for (i, j) in pat],
                           (r.m, r.n), r.tc)


_PROBE = _make_probe()
_NOARGS = ()


class Lockstep(object):
    """Two namespaces with the same variable names: `real` (cvxopt objects) and `ref` (Ref
    objects).  step() executes one source line in both and compares outcome, every live
    variable (typecode, size, kind, values), and the identity structure (which names are the
    same object)."""

    def __init__(self, case, ctx, real_ns, ref_ns, names, prefix, extra_check=None):
        self.c, self.ctx = case, ctx
        self.real, self.ref = real_ns, ref_ns
        self.names = list(names)
        self.prefix = prefix
        self.extra_check = extra_check       # f(lockstep, name, realobj, refobj, label) after every step
        self.progress = getattr(case, "progress", None)
        self.program = []
        self.dead = False
        self.nunspec = 0
        self.nfailed = 0
        self.failed_keys = set()

    # -- helpers ---------------------------------------------------------
    def live(self):
        return [n for n in self.names if n in self.ref]

    def fail(self, key, msg, fatal=True, **detail):
        if fatal:
            self.dead = True
        self.nfailed += 1
        if key in self.failed_keys and not fatal:
            return              # one witness per mechanism and program is enough
        self.failed_keys.add(key)
        self.c.fail(key, msg + "\nprogram:\n  " + "\n  ".join(self.program), **detail)

    def _identity(self, ns):
        names = [n for n in self.names if n in ns]
        groups = {}
        for n in names:
            groups.setdefault(id(ns[n]), []).append(n)
        return sorted(tuple(g) for g in groups.values())

    def resync(self):
        """rebuild the model namespace from the real one (after an unjudged step)"""
        cache = {}
        for n in self.names:
            if n in self.real:
                o = self.real[n]
                if kind_of(o) is None:
                    self.ref.pop(n, None)
                    self.real.pop(n, None)
                    continue
                if id(o) not in cache:
                    cache[id(o)] = snapshot(o)
                self.ref[n] = cache[id(o)]
            else:
                self.ref.pop(n, None)

    def renew(self):
        """Containment after an operation that raised: every live library object is replaced by a
        fresh one built from the (just verified) model state, with the same identity structure;
        the old objects are parked and never touched or freed again.  An operation that damages
        an object while failing (e.g. frees its buffer) then cannot falsify later steps."""
        fresh = {}
        for n in self.live():
            r = self.ref[n]
            if n not in self.real:
                continue
            if id(r) not in fresh:
                try:
                    fresh[id(r)] = materialize(r)
                except Exception:       # noqa: keep the old object
                    fresh[id(r)] = self.real[n]
            GRAVEYARD.append(self.real[n])
            self.real[n] = fresh[id(r)]

    def compare_var(self, name, label, adopt=True):
        """real[name] against ref[name]; adopts real values that are within tolerance so that
        later data movement stays exact"""
        c = self.c
        o, r = self.real.get(name), self.ref.get(name)
        if (o is None) != (r is None):
            self.fail("%s:variable-binding" % label, "%s bound in one world only" % name)
            return False
        if o is None:
            return True
        if not isinstance(r, Ref):
            c.check()
            ok = kind_of(o) is None and self._same_python_value(o, r)
            self.real.pop(name, None)
            self.ref.pop(name, None)
            if not ok:
                self.fail("%s:python-result" % label, "%s = %r, model %r" % (name, o, r))
            return ok
        k = kind_of(o)
        if k is None:
            self.fail("%s:result-type" % label,
                      "%s is a %s, the model has a matrix %r" % (name, type(o).__name__, r))
            return False
        c.check()
        if (k == "sparse") != r.sp:
            if "kind" in r.free:
                r.sp = (k == "sparse")
            else:
                self.fail("%s:sparse-dense-kind" % label,
                          "%s is %s, documented result is %s" % (name, k, "sparse" if r.sp else "dense"))
                return False
        if o.size != (r.m, r.n):
            self.fail("%s:size" % label, "%s.size = %s, model %s" % (name, o.size, (r.m, r.n)),
                      got=o, want=r.v)
            return False
        if o.typecode != r.tc:
            if "tc" in r.free and ORDER[o.typecode] >= 0:
                snap = snapshot(o)
                bad = None
                if len(snap.v) != len(r.v) or any(abs(g - w) > 1e-13 * max(1.0, abs(w)) for g, w in zip(snap.v, r.v)):
                    bad = True
                if bad:
                    self.fail("%s:value" % label, "%s values differ (typecode left open)" % name,
                              got=snap.v, want=r.v)
                    return False
                r.tc, r.v, r.scale, r.alt, r.free = snap.tc, snap.v, None, None, ()
                r.pat = snap.pat
                return True
            self.fail("%s:typecode" % label, "%s.typecode = %s, model %s" % (name, o.typecode, r.tc),
                      got=o, want=r.v)
            return False
        snap = snapshot(o)
        if r.sp and r.patdoc and r.pat is not None:
            c.check()
            if sorted(snap.pat) != sorted(r.pat):
                self.fail("%s:pattern" % label, "%s stores the entries %s, documented triplet description: %s" %
                          (name, sorted(snap.pat), sorted(r.pat)))
                return False
        bad, worst = value_mismatch(r.tc, snap.v, r.v, r.scale, mask=r.mask, wrap=r.wrap)
        if bad is not None and r.alt is not None:
            bad2, worst2 = value_mismatch(r.tc, snap.v, r.alt, r.scale, mask=r.mask, wrap=r.wrap)
            if bad2 is None:
                bad, worst = None, worst2
                self.ctx.count("unspec.alternative-convention-taken")
        if bad is None and r.scale is not None and worst < float("inf"):
            self.ctx.maxobs("relerr." + self.prefix, worst)     # calibration: passing comparisons only
        if bad is not None:
            kk, g, w, rel = bad
            self.fail("%s:value" % label,
                      "%s[%d] = %r, model %r (err/scale %.3g; %s)" % (name, kk, g, w, rel,
                                                                     "exact expected" if r.scale is None else "tol %.0e" % RTOL),
                      got=snap.v, want=r.v)
            return False
        if adopt:
            r.v, r.scale, r.alt, r.free = snap.v, None, None, ()
            r.pat, r.patdoc, r.mask, r.wrap = snap.pat, False, None, None
        return True

    def compare_all(self, label):
        done = set()
        for n in self.names:
            if n in self.ref or n in self.real:
                r = self.ref.get(n)
                if r is not None and id(r) in done:
                    continue
                if not self.compare_var(n, label):
                    return False
                if r is not None:
                    done.add(id(r))
        ir, im = self._identity(self.real), self._identity(self.ref)
        self.c.check()
        if ir != im:
            self.fail("%s:aliasing" % label,
                      "identity structure differs: cvxopt %s, model %s" % (ir, im))
            return False
        if self.extra_check is not None:
            for n in self.names:
                if n in self.real and not self.dead:
                    self.extra_check(self, n, self.real[n], self.ref[n], label)
        return not self.dead

    @staticmethod
    def _head(label):
        """exception-class findings are keyed by operation class (the mechanism does not depend on
        the kind of right-hand side / index) except for the small classes"""
        h = label.split(":")[0]
        return h if h.startswith(("getitem", "setitem")) else label

    # -- one step ----------------------------------------------------------
    def step(self, src, label, result=None, mode="exec"):
        """Execute `src` in both worlds.
        result: name of the variable the line binds (compared like all the others), or '_' for a
        line that binds a Python value to `_` (number/bool/list), compared by value.
        Returns 'ok' | 'raised' | 'unspec' | 'dead'."""
        if self.dead:
            return "dead"
        ctx, c = self.ctx, self.c
        self.program.append(src)
        code = compile(src, "<step>", "exec")
        # model first (it has no side effects on the real world); keep a copy to roll back
        saved = {}
        for n in self.live():
            r = self.ref[n]
            if id(r) not in saved:
                saved[id(r)] = (r, r.tc, r.m, r.n, list(r.v), r.sp)
        saved_bind = dict((n, self.ref.get(n)) for n in self.names + ["_"])
        kind, val = evaluate(lambda: exec(code, self.ref))
        if kind != "value":
            # the model rolls back whatever it did before finding out
            for (r, tc, m, n, v, sp) in saved.values():
                r.tc, r.m, r.n, r.v, r.sp = tc, m, n, v, sp
            for n, b in saved_bind.items():
                if b is None:
                    self.ref.pop(n, None)
                else:
                    self.ref[n] = b
        exc = None
        if self.progress is not None:
            self.progress((label, src))
        try:
            exec(code, self.real)
            pending = None
            try:
                _PROBE(*_NOARGS)
            except BaseException as pe:     # noqa: the library returned normally with an error set
                pending = pe
            if pending is not None:
                raise SystemError("returned a result with an exception set (%s: %s)" % (type(pending).__name__, pending))
        except Exception as e:          # noqa: judged below
            exc = e
        ctx.count("%s.op.%s" % (self.prefix, label))
        if kind == "unspec":
            self.nunspec += 1
            ctx.count("unspec.total")
            ctx.count("unspec.%s" % val.why.split(":")[0][:60])
            if isinstance(exc, (SystemError, MemoryError)):
                self.fail("%s:exception-class:%s" % (self._head(label), type(exc).__name__),
                          "%s raised %s: %s" % (src, type(exc).__name__, exc))
                return "dead"
            self.resync()
            return "unspec"
        if kind == "raises":
            c.check()
            if exc is None:
                ctx.count("%s.outcome.should-raise-but-returned" % self.prefix)
                self.fail("%s:no-exception" % label,
                          "%s returned normally; the manual defines no result (%s)" % (src, val.why))
                return "dead"
            if not val.accepts(exc):
                # wrong class, but it did raise: the program can go on if nothing was modified
                self.fail("%s:exception-class:%s" % (self._head(label), type(exc).__name__),
                          "%s raised %s (%s); acceptable: %s (%s)" % (src, type(exc).__name__, exc,
                                                                       sorted(a.__name__ for a in val.allowed), val.why),
                          fatal=isinstance(exc, SystemError))
                if self.dead:
                    return "dead"
                ctx.count("%s.outcome.raised-wrong-class" % self.prefix)
            else:
                ctx.count("%s.outcome.raised.%s" % (self.prefix, type(exc).__name__))
            # nothing may have changed
            if not self.compare_all(label + ":after-exception"):
                return "dead"
            self.renew()
            return "raised"
        # the model has an answer
        c.check()
        if exc is not None:
            ctx.count("%s.outcome.raised-but-defined" % self.prefix)
            self.fail("%s:unexpected-exception" % label,
                      "%s raised %s: %s; the model computes a result" % (src, type(exc).__name__, exc))
            return "dead"
        ctx.count("%s.outcome.value" % self.prefix)
        if result == "_":
            g, w = self.real.get("_"), self.ref.get("_")
            c.check()
            ok = self._same_python_value(g, w)
            if not ok:
                self.fail("%s:python-result" % label, "%s gave %r, model %r" % (src, g, w))
                return "dead"
        if not self.compare_all(label):
            return "dead"
        return "ok"

    def _same_python_value(self, g, w):
        if isinstance(w, Ref) or kind_of(g) is not None:
            return False
        if isinstance(w, (list, tuple)):
            return isinstance(g, type(w)) and len(g) == len(w) and all(self._same_python_value(a, b) for a, b in zip(g, w))
        if isinstance(w, bool) or isinstance(g, bool):
            return type(g) is type(w) and g == w
        if isinstance(w, (int, float, complex)):
            if type(g) is not type(w):
                return False
            if g == w or same_nan(g, w):
                return True
            return abs(g - w) <= 1e-13 * max(1.0, abs(w))
        return g == w


# ---------------------------------------------------------------------------
# containment: cases run in forked children (a batch per child), so that heap corruption caused
# by one program cannot falsify the verdict of later ones and a dying interpreter still yields a
# keyed witness.  A child is retired as soon as one of its cases reports a violation that may have damaged the heap.
# ---------------------------------------------------------------------------
class ForkRunner(object):
    """runner = ForkRunner(ctx, one); ctx.run_case(k, {}, runner.run)

    The child receives case numbers, builds the same Case (same per-case PRNG) and streams
    ('step', (label, source)) before every program line and finally ('done', verdict).  The parent
    merges verdict, counters, maxima, samples.  A child that dies becomes the violation
    'crash:<class of the last step>' of the case it was running."""

    DANGEROUS = ("after-exception", "modified-on-error", "crash", "ccs-", "lifetime", "out-of-sync",
                 "harness-exception")

    def __init__(self, ctx, fn, batch=250):
        self.ctx, self.fn, self.batch = ctx, fn, batch
        self.pid = None
        self.cmd_w = self.res_r = None
        self.buf = b""

    # -- child side -----------------------------------------------------------
    def _child(self, cmd_r, res_w):
        import os, pickle, struct, signal, traceback
        from vlib.harness import Case
        ctx = self.ctx
        signal.alarm(0)
        signal.signal(signal.SIGALRM, signal.SIG_DFL)

        def send(obj):
            b = pickle.dumps(obj, 2)
            os.write(res_w, struct.pack("<I", len(b)) + b)
        done = 0
        f = os.fdopen(cmd_r, "rb", 0)
        while True:
            line = f.readline()
            if not line:
                break
            k = int(line)
            before = dict(ctx.counters)
            nsamples = len(ctx.samples)
            c = Case(ctx, k, {})
            c.progress = lambda item: send(("step", item))
            try:
                self.fn(c)
            except BaseException as e:      # noqa: reported by the parent as a violation
                c.fail("harness-exception:%s" % type(e).__name__,
                       "".join(traceback.format_exception(type(e), e, e.__traceback__))[-3000:])
            done += 1
            delta = dict((n, v - before.get(n, 0)) for n, v in ctx.counters.items() if v != before.get(n, 0))
            # a finding that may have left the heap damaged retires the child; forks are expensive
            retire = done >= self.batch or any(any(d in v["key"] for d in self.DANGEROUS) for v in c.failed)
            send(("done", {"failed": c.failed, "checked": c.checked, "sig": c.sig, "desc": c.desc,
                           "counters": delta, "maxima": ctx.maxima, "samples": ctx.samples[nsamples:],
                           "retire": retire}))
            if retire:
                break

    def _spawn(self):
        import os
        cmd_r, cmd_w = os.pipe()
        res_r, res_w = os.pipe()
        self.ctx.jf.flush()
        pid = os.fork()
        if pid == 0:
            code = 0
            try:
                os.close(cmd_w)
                os.close(res_r)
                self._child(cmd_r, res_w)
            except BaseException:
                code = 3
            finally:
                os._exit(code)
        os.close(cmd_r)
        os.close(res_w)
        self.pid, self.cmd_w, self.res_r, self.buf = pid, cmd_w, res_r, b""

    def _reap(self, kill=False):
        import os, signal
        status = 0
        if self.pid is not None:
            if kill:
                try:
                    os.kill(self.pid, signal.SIGKILL)
                except OSError:
                    pass
            for fd in (self.cmd_w, self.res_r):
                try:
                    os.close(fd)
                except OSError:
                    pass
            try:
                _, status = os.waitpid(self.pid, 0)
            except OSError:
                status = 0
        self.pid = self.cmd_w = self.res_r = None
        return status

    # -- parent side ----------------------------------------------------------
    def run(self, c):
        import os, pickle, struct
        ctx = self.ctx
        if self.pid is None:
            self._spawn()
        last, payload, prog = None, None, []
        try:
            os.write(self.cmd_w, ("%d\n" % c.k).encode())
            while payload is None:
                while len(self.buf) >= 4:
                    (ln,) = struct.unpack("<I", self.buf[:4])
                    if len(self.buf) < 4 + ln:
                        break
                    kind, obj = pickle.loads(self.buf[4:4 + ln])
                    self.buf = self.buf[4 + ln:]
                    if kind == "step":
                        last = obj[0]
                        prog.append(obj[1])
                    else:
                        payload = obj
                        break
                if payload is not None:
                    break
                chunk = os.read(self.res_r, 65536)
                if not chunk:
                    break
                self.buf += chunk
        except BaseException:
            self._reap(kill=True)
            raise
        if payload is None:
            status = self._reap()
            sig = os.WTERMSIG(status) if os.WIFSIGNALED(status) else 0
            c.check()
            import signal as _sg
            try:
                signame = _sg.Signals(sig).name if sig else "exit-%d" % os.WEXITSTATUS(status)
            except ValueError:
                signame = "signal-%d" % sig
            # keyed by signal: the step that dies is often not the one that damaged the heap
            c.fail("crash:%s" % signame,
                   "interpreter died (%s) while/after executing a step of class %r" %
                   ("signal %d" % sig if sig else "exit status %d" % os.WEXITSTATUS(status), last) +
                   "\nprogram:\n  " + "\n  ".join(prog))
            c.desc["program"] = prog
            return
        c.failed.extend(payload["failed"])
        c.checked += payload["checked"]
        c.sig = payload["sig"]
        c.desc.update(payload["desc"])
        for n, v in payload["counters"].items():
            ctx.counters[n] = ctx.counters.get(n, 0) + v
        for n, v in payload["maxima"].items():
            if v > ctx.maxima.get(n, -1.0):
                ctx.maxima[n] = v
        for smp in payload["samples"]:
            if len(ctx.samples) < 4:
                ctx.samples.append(smp)
        if payload["retire"]:
            status = self._reap()
            if os.WIFSIGNALED(status):
                c.fail("crash:at-exit", "child delivered its verdict but then died (signal %d)" % os.WTERMSIG(status))

    def close(self):
        self._reap(kill=True)


def real_namespace():
    """names available to program lines, bound to the library"""
    import cvxopt, cvxopt.base as base
    import builtins
    return {"matrix": cvxopt.matrix, "spmatrix": cvxopt.spmatrix, "sparse": cvxopt.sparse,
            "spdiag": cvxopt.spdiag, "mul": cvxopt.mul, "div": cvxopt.div, "emax": cvxopt.max,
            "emin": cvxopt.min, "exp": cvxopt.exp, "log": cvxopt.log, "sqrt": cvxopt.sqrt,
            "sin": cvxopt.sin, "cos": cvxopt.cos, "array": _array.array,
            "strided": (lambda a, start, step: memoryview(a)[start::step]),     # a non-contiguous 1-D buffer
            "bmax": builtins.max, "bmin": builtins.min, "bsum": builtins.sum,
            "axpy": base.axpy, "gemv": base.gemv, "gemm": base.gemm, "syrk": base.syrk,
            "symv": base.symv}


def ref_namespace():
    """the same names bound to the model"""
    return {"matrix": matrix, "spmatrix": spmatrix, "sparse": sparse, "spdiag": spdiag,
            "mul": mul, "div": div, "emax": emax, "emin": emin, "exp": exp, "log": log,
            "sqrt": sqrt, "sin": sin, "cos": cos, "array": _array.array,
            "strided": (lambda a, start, step: a[start::step]),                 # the elements that buffer exposes
            "bmax": bmax, "bmin": bmin, "bsum": bsum,
            "axpy": base_axpy, "gemv": base_gemv, "gemm": base_gemm, "syrk": base_syrk,
            "symv": base_symv}


# ---------------------------------------------------------------------------
# generators shared by the program-based checks (literals and index expressions as source text)
# ---------------------------------------------------------------------------
def rnum(rng, tc):
    if tc == "i":
        return rng.choice([0, 0, 1, -1, 2, 3, -3, 5, -7, 9, rng.randint(-9, 9)])
    if tc == "d":
        if rng.random() < 0.7:
            return rng.randint(-20, 20) / 4.0
        return round(rng.uniform(-5, 5), 3)
    return complex(rng.randint(-8, 8) / 2.0, rng.randint(-8, 8) / 2.0)

def rtc(rng):
    return rng.choice("iiddz")

def rdim(rng):
    return rng.choice([0, 1, 1, 2, 2, 2, 3, 3, 4])

def vals_src(vals):
    return "[" + ", ".join(repr(v) for v in vals) + "]"

def lit(rng, tc, m, n):
    vals = [rnum(rng, tc) for _ in range(m * n)]
    return "matrix(%s, (%d,%d), '%s')" % (vals_src(vals), m, n, tc)

def divisors(k):
    return [d for d in range(1, k + 1) if k % d == 0]

INDEX_KINDS = ["int", "int", "negint", "int-oor", "slice", "slice", "list", "list-neg", "list-oor",
               "list-empty", "imat", "imat-neg", "imat-oor", "imat-empty", "imat-2d", "bad-dmat", "bad-float",
               "bad-none", "bad-str", "pool-imat"]

def index_src(rng, dim, ls):
    """-> (kind, source, is_scalar)"""
    kind = rng.choice(INDEX_KINDS)
    if dim == 0 and kind in ("int", "negint", "list", "list-neg", "imat", "imat-neg", "imat-2d"):
        kind = rng.choice(["int-oor", "slice", "list-empty", "list-oor", "imat-empty"])
    if kind == "int":
        return kind, str(rng.randrange(dim)), True
    if kind == "negint":
        return kind, str(-rng.randint(1, dim)), True
    if kind == "int-oor":
        return kind, str(rng.choice([dim, dim + 1, -dim - 1, -dim - 2, 99, -99])), True
    if kind == "slice":
        def f():
            return rng.choice(["", "", str(rng.randint(-dim - 2, dim + 2))])
        step = rng.choice(["", "", "", ":2", ":-1", ":-2", ":3", ":1"])
        return kind, "%s:%s%s" % (f(), f(), step), False
    if kind == "list":
        return kind, str([rng.randrange(dim) for _ in range(rng.randint(1, 4))]), False
    if kind == "list-neg":
        l = [rng.randint(-dim, dim - 1) for _ in range(rng.randint(1, 4))]
        l[rng.randrange(len(l))] = -rng.randint(1, dim)
        return kind, str(l), False
    if kind == "list-oor":
        l = [rng.randint(-dim, dim - 1) if dim else 0 for _ in range(rng.randint(1, 3))]
        l[rng.randrange(len(l))] = rng.choice([dim, -dim - 1, dim + 3, 50])
        return kind, str(l), False
    if kind == "list-empty":
        return kind, "[]", False
    if kind == "imat":
        return kind, "matrix(%s)" % [rng.randrange(dim) for _ in range(rng.randint(1, 4))], False
    if kind == "imat-neg":
        l = [rng.randint(-dim, dim - 1) for _ in range(rng.randint(1, 4))]
        l[rng.randrange(len(l))] = -rng.randint(1, dim)
        return kind, "matrix(%s)" % l, False
    if kind == "imat-2d":
        return kind, "matrix(%s, (2,2))" % [rng.randint(-dim, dim - 1) for _ in range(4)], False
    if kind == "imat-oor":
        l = [rng.randint(-dim, dim - 1) if dim else 0 for _ in range(rng.randint(1, 3))]
        l[rng.randrange(len(l))] = rng.choice([dim, -dim - 1, dim + 3, 50])
        return kind, "matrix(%s)" % l, False
    if kind == "imat-empty":
        return kind, "matrix([], (0,1), 'i')", False
    if kind == "bad-dmat":
        return kind, "matrix([0.0])", False
    if kind == "bad-float":
        return kind, "0.0", True
    if kind == "bad-none":
        return kind, "None", True
    if kind == "bad-str":
        return kind, "'a'", True
    # pool-imat: an integer pool matrix used as index list (values are whatever they are)
    cands = [n for n in ls.live() if ls.ref[n].tc == "i"]
    if not cands:
        return "list-empty", "[]", False
    return kind, rng.choice(cands), False

PRIORITY = ["self-imat", "pool-imat", "imat-2d", "imat-neg", "imat-oor", "imat-empty", "imat", "list-neg", "list-oor",
            "list-empty", "list", "negint", "int-oor", "bad-dmat", "bad-float", "bad-none", "bad-str", "slice", "int"]

def primary(k1, k2):
    """the less trivial of two index kinds (keys stay few and name the mechanism)"""
    return min((k1, k2), key=PRIORITY.index)



# ---------------------------------------------------------------------------
# fixtures (hand-computed, from the examples printed in matrices.rst)
# ---------------------------------------------------------------------------
def selftest():
    A = matrix(range(16), (4, 4), "d")
    assert A[4] == 4.0 and A[matrix([0, 5, 10, 15])].v == [0.0, 5.0, 10.0, 15.0]
    I, J = [0, 2], [1, 3]
    assert A[2 * I + J].v == [0.0, 2.0, 0.0, 2.0, 1.0, 3.0]
    assert A[2 * matrix(I) + matrix(J)].v == [1.0, 7.0]
    assert A[4::4].v == [4.0, 8.0, 12.0]
    assert A[:, 1].v == [4.0, 5.0, 6.0, 7.0]
    assert A[matrix([0, 2]), matrix([0, 2])].v == [0.0, 2.0, 8.0, 10.0]
    assert A[:2, -2:].v == [8.0, 9.0, 12.0, 13.0]
    A = matrix(range(16), (4, 4))
    A[::2, ::2] = matrix([[-1, -2], [-3, -4]])
    assert A.v == [-1, 1, -2, 3, 4, 5, 6, 7, -3, 9, -4, 11, 12, 13, 14, 15]
    A[::5] += 1
    A[0, :] = -1, 1, -1, 1
    A[2:, 2:] = range(4)
    assert A.v == [-1, 1, -2, 3, 1, 6, 6, 7, -1, 9, 0, 1, 1, 13, 2, 3]
    A1 = matrix([1, 2], (2, 1)); B1 = matrix([6, 7, 8, 9, 10, 11], (2, 3))
    B2 = matrix([12, 13, 14, 15, 16, 17], (2, 3)); B3 = matrix([18, 19, 20], (1, 3))
    C = matrix([[A1, 3.0, 4.0, 5.0], [B1, B2, B3]])
    assert C.tc == "d" and C.size == (5, 4) and C.v[:5] == [1.0, 2.0, 3.0, 4.0, 5.0] and C.v[5:10] == [6.0, 7.0, 12.0, 13.0, 18.0]
    D = matrix([B1, B2, B3])
    assert D.tc == "i" and D.size == (5, 3) and D.v[:5] == [6, 7, 12, 13, 18]
    S = spmatrix([2, -1, 2, -2, 1, 4, 3], [1, 2, 0, 2, 3, 2, 0], [0, 0, 1, 1, 2, 3, 4])
    assert S.size == (4, 5) and S.tc == "d" and S.at(2, 3) == 4.0 and len(S.pat) == 7
    assert (matrix([5, 7]) / 2).tc == "d" and (matrix([5, 7]) ** 2).tc == "d"
    k, v = evaluate(lambda: matrix([1, 2]).__iadd__(1.0))
    assert k == "raises"
    k, v = evaluate(lambda: matrix([1, 2, 3])[3])
    assert k == "raises" and IndexError in v.allowed
    B = matrix([[1., 2.], [3., 4.]])
    Aa = B
    Aa *= 2
    assert B.v == [2.0, 4.0, 6.0, 8.0] and Aa is B
    X = spmatrix([2, -3], [0, 1], [0, 1])
    assert emax(X, -X, 1).v == [2.0, 1.0, 1.0, 3.0]
    return True
