"""C17  BLAS wrappers compute the reference operation on exactly the addressed
data.  Every function of cvxopt.blas is called with generated arguments; the
table-driven spec vlib/oracle/blasspec.py (written from blas.rst and the
docstrings; numpy + Python ints only) says whether the call must be accepted,
what every buffer must contain afterwards and what is returned."""
import math

LEVEL = "exploration"
TECHNIQUE = "runtime monitoring: generated BLAS calls on the real build vs table-driven spec (integer footprint + numpy reference)"
LEVEL_TEXT = ("held on the calls explored: accept/reject equals the documented rules evaluated with unbounded "
              "integers, addressed outputs equal the numpy definition within a componentwise forward-error bound, "
              "every other element of every argument is bit-identical; oracle independent of blas.c")
RULE = ("each case = one call of one cvxopt.blas function. stratum 1: consistent calls (typecode, all flag values, "
        "dimensions 0..5, band widths 0..3, increments +-1,+-2,3, ld >= minimum, offsets, over-allocated buffers, "
        "optional arguments omitted whenever the documented default reproduces the same call); stratum 2: one "
        "buffer length / offset / ld / dimension / increment / band width / matrix shape moved one below, at, one "
        "above an exactly tight configuration; stratum 3: one type conflict or illegal flag / inc / ld / offset / "
        "scalar; stratum 4: an exactly consistent call with ONE operand buffer one element short and slack on all others "
        "(visits every (function, flags, operand) length test). distinct = function x stratum x typecodes x verdict x mutation kind x flags x "
        "(negative increment, omitted dimension, zero dimension)")
ASSUMPTIONS = [
    "numpy (own bundled OpenBLAS) is the reference arithmetic; integer geometry is done with Python ints",
    "buffer-length requirement = contract footprint of DESIGN.md Appendix B (offset + (n-1)*ld + rows, "
    "offset + (n-1)*|inc| + 1), zero for operands without elements",
    "documented stricter-than-BLAS rules are part of the spec: ld >= its minimum and offsets >= 0 even for "
    "operands that are never dereferenced, inc > 0 for scal/nrm2/asum/iamax, equal default lengths for "
    "swap/dot/dotu, square A for the default n of symv/hemv/trmv/trsv",
    "left open by the manual, hence not judged (either outcome accepted, counted as either.*): validation of the "
    "remaining arguments when a zero dimension makes the routine return immediately; syr/her/syr2/her2 with "
    "default n and non-square A; imaginary parts on the diagonal of Hermitian outputs (zero or unchanged)",
    "herk/her2k with trans='T' on real matrices is undocumented and not generated",
    "integer arguments stay below 1000 in magnitude (values near 2^31 belong to C19)",
    "aliased arguments (the same matrix passed twice) are not generated",
]

FUNCS = ["asum", "axpy", "copy", "dot", "dotu", "nrm2", "iamax", "scal", "swap",
         "gemv", "gbmv", "symv", "hemv", "sbmv", "hbmv", "trmv", "tbmv", "trsv", "tbsv",
         "ger", "geru", "syr", "her", "syr2", "her2",
         "gemm", "symm", "hemm", "syrk", "herk", "syr2k", "her2k", "trmm", "trsm"]
REQUIRED_COUNTERS = (["accept." + f for f in FUNCS] + ["reject." + f for f in FUNCS] +
                     ["stratum.1", "stratum.2", "stratum.3", "stratum.4", "omitted-dim", "negative-inc", "zero-dim",
                      "tc.d", "tc.z", "same-matrix-operands.swap", "same-matrix-operands.syr2k", "extreme-scale.nrm2"])

# |got - ref| <= TOLF * 8 (K+2) u * (|alpha||A||x| + |beta||y|)   (DESIGN.md Appendix C).  The evidence prints
# max_observed["ratio.*"] = error / (8 (K+2) u scale) over all passing calls; on the unchanged tree it stays
# below 0.3 (seeds 0,1,2,3,7,12345, both tiers), so TOLF = 32 is >= 100x the maximum seen while a realistic
# bug (wrong element, factor 2, wrong transpose) gives ratios >= 1e12.  Solves: normwise, scale = cond * max|x|.
TOLF = 32.0


def plan(tier):
    if tier == "thorough":
        return [{"variant": "plain", "workers": 16, "cases": 200000}]
    return [{"variant": "plain", "workers": 16, "cases": 8000}]


def run(ctx):
    import re
    import numpy as np
    from cvxopt import blas
    from vlib.oracle import blasspec as B
    from vlib.harness import CaseTimeout

    assert B.selftest(), "blasspec fixtures failed"
    assert sorted(FUNCS) == sorted(B.NAMES)
    # the table must describe the functions that are actually there (Appendix B)
    for fn in FUNCS:
        doc = getattr(blas, fn).__doc__ or ""
        assert re.search(r"\b%s\(" % fn, doc), "docstring of %s has no signature" % fn
        for name in B.SPECS[fn].order:
            assert re.search(r"\b%s\b" % name, doc), "argument %s of %s not in its docstring" % (name, fn)
    U = B.U
    CONV = {"d": float, "z": complex, "i": int}
    DT = {"d": np.float64, "z": np.complex128, "i": np.int64}

    build = B.to_cvxopt

    def image(obj, buf):
        """bit image (uint64 words, column-major = buffer order) of a dense matrix argument"""
        return (np.frombuffer(memoryview(obj).tobytes(order='F'), dtype=np.uint64) if len(obj)
                else np.zeros(0, dtype=np.uint64))

    def words(a):
        return np.ascontiguousarray(a).view(np.uint64) if len(a) else np.zeros(0, dtype=np.uint64)

    def changed_elems(after_w, before_w, tc):
        d = after_w != before_w
        if tc == "z":
            d = d.reshape(-1, 2).any(axis=1)
        return d

    ACCEPT_KEY = {"buflen": "out-of-footprint", "ld": "illegal-ld", "offset": "negative-offset", "inc": "illegal-inc",
                  "type-mix": "type-conflict", "type": "illegal-typecode", "not-a-matrix": "non-matrix-argument",
                  "default-dims": "inconsistent-default-dims", "not-an-int": "non-integer"}

    def evaluate(call):
        """build, call, judge.  returns (failures, info);  failures = [(key, msg, detail)]"""
        fn = call["fn"]
        sp = B.SPECS[fn]
        exp = B.expected(call)
        res = B.resolve(call)
        verdict = "reject" if exp == B.REJECT else exp["verdict"]
        fails = []
        info = {"verdict": verdict, "checks": 0, "ratio": 0.0, "accepted": None}
        objs = {b: build(call["bufs"][b]) for b in sp.mats}
        dense = [b for b in sp.mats if call["bufs"][b].get("kind", "matrix") == "matrix"]
        before = {b: words(call["bufs"][b]["data"]) for b in dense}
        for b in dense:          # conversion to cvxopt must be faithful, or nothing below means anything
            assert np.array_equal(image(objs[b], call["bufs"][b]), before[b]), "conversion of %s" % b
        pos, kw = B.invocation(call, objs)
        f = getattr(blas, fn)
        ret, exc = None, None
        try:
            ret = f(*pos, **kw)
            accepted = True
        except (TypeError, ValueError) as e:
            accepted, exc = False, e
        except CaseTimeout:
            raise
        except Exception as e:
            accepted, exc = False, e
            info["checks"] += 1
            fails.append(("%s:raises-%s" % (fn, type(e).__name__),
                          "%s raised %s: %s (only TypeError/ValueError are documented)" % (fn, type(e).__name__, e), {}))
        info["accepted"] = accepted
        info["exc"] = "%s: %s" % (type(exc).__name__, exc) if exc is not None else None
        after = {b: image(objs[b], call["bufs"][b]) for b in dense}
        untouched = all(np.array_equal(after[b], before[b]) for b in dense)
        for b in sp.mats:
            if call["bufs"][b].get("kind") == "list":
                untouched = untouched and objs[b] == [CONV[call["bufs"][b]["tc"]](v) for v in call["bufs"][b]["data"]]

        # ---- accept <=> spec
        info["checks"] += 1
        if verdict == "reject" and accepted:
            why = res.reason or "?"
            key = ACCEPT_KEY.get(why, why.replace("flag-", "illegal-"))
            if res.G.get("betaonly") and why == "ld":
                key += "-empty-product"
            fails.append(("%s:accepts-%s" % (fn, key),
                          "%s accepted a call the documentation forbids (%s)%s" %
                          (fn, why, "" if untouched else "; arguments were modified"),
                          {"reasons": res.reasons}))
            return fails, info
        if verdict == "accept" and not accepted:
            if not any(k.startswith(fn + ":raises-") for k, _, _ in fails):
                fails.append(("%s:rejects-valid-call" % fn, "%s rejected a documented-valid call: %s" % (fn, info["exc"]),
                              {}))
        if not accepted:
            info["checks"] += 1
            if not untouched:
                fails.append(("%s:reject-modifies-arguments" % fn,
                              "%s raised %s but changed its arguments" % (fn, info["exc"]), {}))
            return fails, info

        # ---- accepted (verdict accept / either): results
        # return value
        info["checks"] += 1
        want = exp["ret"]
        if want is None:
            if ret is not None:
                fails.append(("%s:return-value" % fn, "returned %r instead of None" % (ret,), {}))
        elif fn == "iamax":
            if not (isinstance(ret, int) and ret == want):
                fails.append(("iamax:return-value", "returned %r, first maximiser is %r" % (ret, want), {}))
        else:
            okt = isinstance(ret, complex) if isinstance(want, complex) else isinstance(ret, float)
            bound = TOLF * 8 * (exp["K"] + 2) * U * exp["ret_scale"]
            err = abs(ret - want) if okt else float("inf")
            if exp["ret_scale"] > 0:
                info["ratio"] = max(info["ratio"], err / (8 * (exp["K"] + 2) * U * exp["ret_scale"]))
            if not (okt and err <= bound):
                fails.append(("%s:return-value" % fn, "returned %r, reference %r (error %.3g > %.3g)" %
                              (ret, want, err, bound), {}))
        # buffers
        for b in dense:
            tc = call["bufs"][b]["tc"]
            got = after[b].view(DT[tc]) if len(after[b]) else np.zeros(0, dtype=DT[tc])
            mask = exp["mask"][b]
            ch = changed_elems(after[b], before[b], tc)
            info["checks"] += 1
            outside = ch & ~mask
            if outside.any():
                ix = [int(i) for i in np.nonzero(outside)[0][:8]]
                if b in sp.out:
                    key = "%s:modifies-outside-footprint" % fn
                else:
                    key = "%s:modifies-input-%s" % (fn, b)
                fails.append((key, "%s changed element(s) %s of %s that the operation does not address" % (fn, ix, b),
                              {"indices": ix}))
            if not mask.any():
                continue
            info["checks"] += 1
            wantb = exp["bufs"][b]
            if exp["exact"]:
                if not np.array_equal(after[b], words(wantb)):
                    fails.append(("%s:result" % fn, "%s: %s is not the exact copy" % (fn, b), {}))
                continue
            hd = exp["hermdiag"][b]
            g, w = got[mask], wantb[mask]
            sc = exp["scale"][b][mask]
            if hd.any():
                hm = hd[mask]
                err = np.where(hm, np.abs(g.real - w.real), np.abs(g - w))
                old = call["bufs"][b]["data"]
                gi, oi = got[hd].imag, old[hd].imag
                if not np.all((gi == 0.0) | (gi == oi)):
                    fails.append(("%s:hermitian-diagonal-imag" % fn,
                                  "imaginary part of the diagonal of %s is neither zero nor unchanged" % b, {}))
            else:
                err = np.abs(g - w)
            gam = 8 * (exp["K"] + 2) * U
            bound = TOLF * gam * sc
            bad = ~(err <= bound)
            pos_ = sc > 0
            if pos_.any():
                with np.errstate(invalid="ignore", over="ignore"):
                    rr = err[pos_] / (gam * sc[pos_])
                rr = rr[np.isfinite(rr)]
                if len(rr):
                    info["ratio"] = max(info["ratio"], float(rr.max()))
            if bad.any():
                t = int(np.nonzero(bad)[0][0])
                key = "%s:result" % fn
                if exp["betaonly"]:
                    same = np.array_equal(after[b], before[b])
                    key = "%s:empty-product-%s" % (fn, "not-scaled" if same else "result")
                    if any(op["kind"] == "vec" and op["buf"] == b and op["inc"] < 0 for op in res.ops):
                        key += "-negative-inc"
                fails.append((key, "%s: %s differs from the reference: got %r want %r (error %.3g, bound %.3g, "
                              "%d of %d addressed elements wrong)" % (fn, b, g[t], w[t], float(err[t]), float(bound[t]),
                                                                      int(bad.sum()), len(bad)),
                              {"got": g[:12], "want": w[:12]}))
        return fails, info

    WEIGHTS = [1, 1, 1, 1, 2, 2, 2, 3, 3, 3, 4, 4]     # strata 1:2:3:4 = 4:3:3:2

    def same_matrix_case(c, rng):
        """two vector operands addressed inside ONE matrix object (rows / interleaved elements of the same buffer):
        element-disjoint footprints, so the reference operation is well defined - the classic row interchange"""
        from cvxopt import matrix
        tc = rng.choice("dz")
        m, n = rng.randint(2, 5), rng.randint(1, 5)
        fn = rng.choice(["swap", "swap", "copy", "axpy"])
        vals = [(complex(rng.uniform(-3, 3), rng.uniform(-3, 3)) if tc == "z" else rng.uniform(-3, 3)) for _ in range(m * n)]
        A = matrix(vals, (m, n), tc)
        ref = np.array(vals, dtype=DT[tc])
        mode = rng.choice(["rows", "rows", "even-odd", "row-reversed"])
        if mode == "even-odd":
            k = (m * n) // 2
            ix = dict(n=k, incx=2, incy=2, offsetx=0, offsety=1)
        else:
            i, j = rng.sample(range(m), 2)
            ix = dict(n=n, incx=m, incy=(-m if mode == "row-reversed" else m), offsetx=i, offsety=j)
        nn = ix["n"]
        xi = [ix["offsetx"] + t * abs(ix["incx"]) for t in range(nn)]
        yi = [ix["offsety"] + t * abs(ix["incy"]) for t in range(nn)]
        if ix["incy"] < 0: yi = yi[::-1]
        want = ref.copy()
        alpha = (complex(rng.uniform(-2, 2), rng.uniform(-2, 2)) if tc == "z" and rng.random() < 0.5 else rng.choice([2.0, -1.0, 0.5]))
        if fn == "swap":
            want[xi], want[yi] = ref[yi], ref[xi]
        elif fn == "copy":
            want[yi] = ref[xi]
        else:
            want[yi] = ref[yi] + alpha * ref[xi]
        c.desc.update({"fn": fn, "class": "same-matrix-operands", "mode": mode, "tc": tc, "m": m, "n": n, "args": ix})
        ctx.count("same-matrix-operands." + fn)
        c.check()
        try:
            if fn == "axpy":
                blas.axpy(A, A, alpha=alpha, **ix)
            else:
                getattr(blas, fn)(A, A, **ix)
        except (TypeError, ValueError) as e:
            c.fail("%s:same-matrix-disjoint-vectors-rejected" % fn, "%s(A, A, %r) rejected: %s" % (fn, ix, e)); return
        got = np.array(list(A), dtype=DT[tc])
        tol = 1e-13 * (1 + float(np.max(np.abs(want), initial=0)))
        c.require(bool(np.all(np.abs(got - want) <= tol)), "%s:same-matrix-disjoint-vectors-result" % fn,
                  "%s(A, A, %r): result differs from the reference on the addressed elements or elsewhere" % (fn, ix), got=got, want=want)
        c.cls("same-matrix", fn, mode, tc)

    def same_matrix_rank2k_case(c, rng):
        """syr2k / her2k with A and B addressed inside ONE matrix object at the same offset but with different leading
        dimensions (A = leading columns of a workspace, B = every second column)"""
        from cvxopt import matrix
        tc = rng.choice("dz")
        fn = "syr2k" if tc == "d" or rng.random() < 0.5 else "her2k"
        n, k = rng.randint(1, 4), rng.randint(2, 3)
        ldw = n + rng.randint(0, 2)
        ncol = 2 * k
        mk = (lambda: complex(rng.uniform(-2, 2), rng.uniform(-2, 2))) if tc == "z" else (lambda: rng.uniform(-2, 2))
        wv = [mk() for _ in range(ldw * ncol)]
        W = matrix(wv, (ldw, ncol), tc)
        Wn = np.array(wv, dtype=DT[tc]).reshape((ldw, ncol), order="F")
        A = Wn[:n, :k]
        B = Wn[:n, 0:2 * k:2]
        cv = [mk() for _ in range(n * n)]
        C = matrix(cv, (n, n), tc)
        Cn = np.array(cv, dtype=DT[tc]).reshape((n, n), order="F")
        uplo = rng.choice("LU")
        alpha = mk() if (tc == "z" and fn == "syr2k") else (mk() if tc == "z" else rng.uniform(-2, 2))
        beta = rng.uniform(-2, 2)
        if fn == "syr2k":
            full = alpha * (A @ B.T + B @ A.T) + beta * Cn
        else:
            full = alpha * (A @ B.conj().T) + np.conj(alpha) * (B @ A.conj().T) + beta * Cn
        want = Cn.copy()
        for i in range(n):
            for j in range(n):
                if (uplo == "L" and i >= j) or (uplo == "U" and i <= j):
                    want[i, j] = full[i, j]
        c.desc.update({"fn": fn, "class": "same-matrix-operands-different-ld", "tc": tc, "n": n, "k": k, "ldW": ldw, "uplo": uplo})
        ctx.count("same-matrix-operands." + fn)
        c.check()
        try:
            getattr(blas, fn)(W, W, C, uplo=uplo, trans="N", alpha=alpha, beta=beta, n=n, k=k, ldA=ldw, ldB=2 * ldw)
        except (TypeError, ValueError) as e:
            c.fail("%s:same-matrix-different-ld-rejected" % fn, "%s(W, W, C, ldA=%d, ldB=%d) rejected: %s" % (fn, ldw, 2 * ldw, e)); return
        got = np.array(list(C), dtype=DT[tc]).reshape((n, n), order="F")
        if fn == "her2k":
            for i in range(n):       # imaginary parts of the diagonal: zero or unchanged
                got[i, i] = complex(got[i, i].real, want[i, i].imag); want[i, i] = complex(want[i, i].real, want[i, i].imag)
        tol = 1e-12 * (1 + float(np.max(np.abs(want), initial=0)) + float(np.max(np.abs(Wn))) ** 2 * k * 4)
        c.require(bool(np.all(np.abs(got - want) <= tol)), "%s:same-matrix-different-ld-result" % fn,
                  "%s(W, W, C, ldA=%d, ldB=%d): wrong rank-2k update (B read with A's leading dimension?)" % (fn, ldw, 2 * ldw), got=got, want=want)
        c.require(np.array_equal(np.array(list(W), dtype=DT[tc]), np.array(wv, dtype=DT[tc])), "%s:same-matrix-input-modified" % fn, "W changed")
        c.cls("same-matrix-2k", fn, tc, uplo)

    def extreme_scale_case(c, rng):
        """nrm2 / asum on vectors whose entries are far from 1 (the squares under- or overflow, the norm does not)"""
        import math
        from cvxopt import matrix
        tc = rng.choice("dz")
        n = rng.randint(1, 6)
        e = rng.choice([-1000, -540, -535, -530, -520, -400, 400, 500, 510])       # entries ~ 2^e
        sc = math.ldexp(1.0, e)
        vals = [(complex(rng.uniform(-4, 4), rng.uniform(-4, 4)) if tc == "z" else rng.uniform(-4, 4)) * sc for _ in range(n)]
        inc = rng.choice([1, 1, 2])
        buf = []
        for v in vals:
            buf += [v] + [(123.0 if tc == "d" else 123.0 + 1j)] * (inc - 1)
        x = matrix(buf, (len(buf), 1), tc)
        fn = rng.choice(["nrm2", "nrm2", "asum"])
        parts = [t for v in vals for t in ((v.real, v.imag) if tc == "z" else (v,))]
        scaled = [math.ldexp(t, -e) for t in parts]                 # exact
        if fn == "nrm2":
            want = math.ldexp(math.sqrt(math.fsum(t * t for t in scaled)), e)
        else:
            want = math.ldexp(math.fsum(abs(t) for t in scaled), e)
        c.desc.update({"fn": fn, "class": "extreme-scale", "tc": tc, "n": n, "exp2": e, "inc": inc})
        ctx.count("extreme-scale." + fn)
        c.check()
        got = getattr(blas, fn)(x, n=n, inc=inc)
        ok = (want == 0.0 and got == 0.0) or (want != 0.0 and abs(got - want) <= 1e-13 * abs(want) * (n + 2)) or \
             (abs(want) < 1e-300 and abs(got - want) <= 1e-320)
        c.require(ok, "%s:extreme-scale-result" % fn, "%s of entries ~2^%d: got %r, reference %r" % (fn, e, got, want))
        c.cls("extreme-scale", fn, tc, e)

    def one(c):
        rng = c.rng
        if rng.random() < 0.004:
            return extreme_scale_case(c, rng)
        if rng.random() < 0.01:
            return same_matrix_case(c, rng) if rng.random() < 0.6 else same_matrix_rank2k_case(c, rng)
        fn = FUNCS[(c.k + ctx.worker * 7) % len(FUNCS)] if rng.random() < 0.8 else rng.choice(FUNCS)
        stratum = rng.choice(WEIGHTS)
        call = B.gen_call(rng, fn, stratum)
        c.desc.update(B.describe(call))
        ctx.count("stratum.%d" % stratum)
        if call["meta"].get("bykw"):
            ctx.count("required-args-by-keyword")
        fails, info = evaluate(call)
        c.check(info["checks"])
        res = B.resolve(call)
        sp = B.SPECS[fn]
        om = B.omitted(call)
        tcs = "".join(call["bufs"][b]["tc"] for b in sp.mats)
        if info["accepted"]:
            ctx.count("accept." + fn)
        else:
            ctx.count("reject." + fn)
        if info["verdict"] == "either":
            ctx.count("either." + fn)
            ctx.count("either.%s.%s" % ("accepted" if info["accepted"] else "rejected", res.reason))
        omdim = any(sp.kinds[n] in ("dim", "bw") for n in om)
        neginc = any(op["kind"] == "vec" and op["inc"] < 0 for op in res.ops)
        zerodim = bool(res.quick) or any(not op["used"] for op in res.ops)
        if info["accepted"] and info["verdict"] == "accept":
            ctx.count("tc." + tcs[0])
            if omdim:
                ctx.count("omitted-dim")
                ctx.count("omitted-dim." + fn)
            if any(sp.kinds[n] == "ld" for n in om):
                ctx.count("omitted-ld")
            if neginc:
                ctx.count("negative-inc")
            if zerodim:
                ctx.count("zero-dim")
            if res.G.get("betaonly") and not res.quick:
                ctx.count("empty-product")
            if not fails:
                ctx.maxobs("ratio." + fn, info["ratio"])
                ctx.maxobs("ratio.max", info["ratio"])
                if fn in B.SOLVES:
                    ctx.maxobs("ratio.solves", info["ratio"])
        if fails and om:
            # mechanism: is it the handling of an omitted argument?  make one default explicit at a time
            culprit = None
            for n in om:
                c2 = B.with_explicit(call, [n])
                if c2 is None:
                    continue
                f2, _ = evaluate(c2)
                if not f2:
                    culprit = n
                    break
            if culprit is None:
                c2 = B.with_explicit(call, [n for n in om if res.eff.get(n) is not None])
                if c2 is not None:
                    f2, _ = evaluate(c2)
                    if not f2:
                        culprit = "args"
            if culprit is not None:
                fails = [("%s:default-%s" % (fn, culprit), m + " [holds when %s is passed explicitly]" % culprit, d)
                         for (_, m, d) in fails]
        for key, msg, detail in fails:
            c.fail(key, msg, call=B.describe(call), outcome=info.get("exc") or "accepted", **detail)
        flags = "".join(str(call["args"].get(f, "-"))[:2] for f in sp.flags)
        mut = str(call["meta"].get("mut", "")).split(":")[0].rstrip("+-01")
        c.cls(fn, stratum, tcs, info["verdict"], "acc" if info["accepted"] else "rej", mut, flags,
              "ni" if neginc else "", "od" if omdim else "", "z0" if zerodim else "")
        if c.k < 2:
            ctx.sample(B.describe(call))

    for k in ctx.cases():
        ctx.run_case(k, {}, one)
