"""O-blas / O-foot for cvxopt.blas (34 functions; DESIGN.md says "35", the list
there and the method table of blas.c both have 34 entries).

Table-driven spec written from doc/source/blas.rst and the docstrings of
cvxopt.blas -- NOT from the control flow of blas.c.  For every function:

  * SPECS[name]         signature (kwlist order), argument roles, legal flag
                        values, scalar type rules, typecodes, output buffers
  * resolve(call)       documented defaults, legality, quick return, operand
                        descriptors (vector / general / symmetric / triangular
                        / band) with pure Python-int geometry
  * required_len(call)  per buffer: the contract footprint of DESIGN.md
                        Appendix B (offset + (n-1)*ld + rows, offset +
                        (n-1)*|inc| + 1, ...), 0 when the operand has no elements
  * footprint(call)     per buffer: the index sets the reference routine reads
                        / writes (referenced triangle only, band only,
                        x[offset + i*|inc|])
  * fits(call)          geometry verdict only (inc, dims, ld, offsets, lengths);
                        this is what C19 reuses
  * expected(call)      full verdict + numpy reference on exactly the addressed
                        elements (+ componentwise |.| scale for the error bound)
  * gen_call(rng, name, stratum)   concrete call descriptions
  * invocation(call, objs), to_cvxopt(buf), omitted(call), with_explicit(call, names), describe(call)

Importable with numpy only (no cvxopt).

A *call* is a plain dict
  {"fn": name,
   "bufs": {argname: {"tc": 'd'|'z'|'i', "size": (rows, cols), "data": 1-D numpy
                      array of length rows*cols (column-major image),
                      "kind": "matrix" | "list" | "spmatrix" | "none"}},
   "args": {argname: value}      # only the non-matrix arguments that are PASSED
   "meta": {...}}                # generator notes (stratum, mutation, ...)
Optional arguments that are absent from "args" are omitted in the call.

Documented rules that are STRICTER than the reference BLAS footprint and are
therefore encoded here as requirements (not findings):
  - ld >= its documented minimum even when the operand has no elements and is
    never dereferenced (gemv: ldA >= max(1,m) although n = 0; gemm/syrk/...:
    ldA, ldB >= max(1, rows) although k = 0; docstrings state it unconditionally)
  - offsets must be nonnegative even for operands that are not referenced
  - buffer lengths are required up to the *contract* footprint
    (offset + (n-1)*ld + rows of the storage scheme), although the reference
    routine does not touch the unreferenced triangle / the unit diagonal /
    the corners of a band array
  - inc > 0 for scal, nrm2, asum, iamax ("positive integer"); inc != 0 elsewhere
  - if the default of n is used, swap/dot/dotu require equal default lengths,
    symv/hemv/trmv/trsv require a square A, gemm/symm/hemm/syr2k/her2k/trmm/trsm
    require matching shapes (docstrings)
  - gbmv: m >= 0, kl >= 0, ku >= 0; ldA >= kl+ku+1; band routines ldA >= k+1
  - syrk/syr2k: trans 'C' only for real matrices; herk/her2k: trans 'T' never
    for complex matrices; herk: alpha, beta real; her2k: beta real; syr/her:
    alpha real
What the manual leaves open is NOT demanded (verdict "either", i.e. rejecting
or accepting-without-effect are both fine):
  - validation of the remaining arguments when a zero dimension makes the
    routine return immediately (gemv/gbmv document "returns immediately";
    the others follow the BLAS quick-return convention)
  - syr/her/syr2/her2 with the default n and a non-square A (docstring gives
    n = A.size[0] and no squareness requirement; rst calls A "of order n")
  - gbmv with the default ldA and an A without rows (docstring signature says
    max(1,A.size[0]); the sibling band routines and the storage convention
    say A.size[0])
  - symm/hemm: the docstring's "ldB >= max(1,(side=='L') ? n : m)" contradicts
    the BLAS definition it refers to (ldB >= max(1,m)); the BLAS rule is used
  - imaginary parts of the diagonal of Hermitian outputs (zero or unchanged)
"""
import math
import numpy as np

U = 2.0 ** -53
REJECT = "REJECT"
PAT = 7.123456789e+77      # distinctive bit pattern for over-allocation / unreferenced storage
PATZ = complex(7.123456789e+77, -3.987654321e+66)
PATI = 0x5A5A5A5A5A5A

NAMES = ["asum", "axpy", "copy", "dot", "dotu", "nrm2", "iamax", "scal", "swap",
         "gemv", "gbmv", "symv", "hemv", "sbmv", "hbmv", "trmv", "tbmv", "trsv", "tbsv",
         "ger", "geru", "syr", "her", "syr2", "her2",
         "gemm", "symm", "hemm", "syrk", "herk", "syr2k", "her2k", "trmm", "trsm"]

SOLVES = ("trsv", "tbsv", "trsm")


# ---------------------------------------------------------------------------
# signatures (kwlist order of the extension = order of the ARGUMENTS sections)
# kinds: mat, flag, scalar, dim (n<0 -> default), rdim (required, >= 0), bw (band
# width, <0 -> default), inc (nonzero), pinc (positive), ld (0 -> default), off
# ---------------------------------------------------------------------------
def _sig(s):
    out = []
    for tok in s.split():
        n, k = tok.split(":")
        out.append((n, k))
    return out


_SIGS = {
    "swap": ("x:mat y:mat n:dim incx:inc incy:inc offsetx:off offsety:off", 2),
    "scal": ("alpha:scalar x:mat n:dim inc:pinc offset:off", 2),
    "copy": ("x:mat y:mat n:dim incx:inc incy:inc offsetx:off offsety:off", 2),
    "axpy": ("x:mat y:mat alpha:scalar n:dim incx:inc incy:inc offsetx:off offsety:off", 2),
    "dot": ("x:mat y:mat n:dim incx:inc incy:inc offsetx:off offsety:off", 2),
    "dotu": ("x:mat y:mat n:dim incx:inc incy:inc offsetx:off offsety:off", 2),
    "nrm2": ("x:mat n:dim inc:pinc offset:off", 1),
    "asum": ("x:mat n:dim inc:pinc offset:off", 1),
    "iamax": ("x:mat n:dim inc:pinc offset:off", 1),
    "gemv": ("A:mat x:mat y:mat trans:flag alpha:scalar beta:scalar m:dim n:dim ldA:ld incx:inc incy:inc "
             "offsetA:off offsetx:off offsety:off", 3),
    "gbmv": ("A:mat m:rdim kl:rdim x:mat y:mat trans:flag alpha:scalar beta:scalar n:dim ku:bw ldA:ld "
             "incx:inc incy:inc offsetA:off offsetx:off offsety:off", 5),
    "symv": ("A:mat x:mat y:mat uplo:flag alpha:scalar beta:scalar n:dim ldA:ld incx:inc incy:inc "
             "offsetA:off offsetx:off offsety:off", 3),
    "sbmv": ("A:mat x:mat y:mat uplo:flag alpha:scalar beta:scalar n:dim k:bw ldA:ld incx:inc incy:inc "
             "offsetA:off offsetx:off offsety:off", 3),
    "trmv": ("A:mat x:mat uplo:flag trans:flag diag:flag n:dim ldA:ld incx:inc offsetA:off offsetx:off", 2),
    "tbmv": ("A:mat x:mat uplo:flag trans:flag diag:flag n:dim k:bw ldA:ld incx:inc offsetA:off offsetx:off", 2),
    "ger": ("x:mat y:mat A:mat alpha:scalar m:dim n:dim incx:inc incy:inc ldA:ld offsetx:off offsety:off "
            "offsetA:off", 3),
    "syr": ("x:mat A:mat uplo:flag alpha:scalar n:dim incx:inc ldA:ld offsetx:off offsetA:off", 2),
    "syr2": ("x:mat y:mat A:mat uplo:flag alpha:scalar n:dim incx:inc incy:inc ldA:ld offsetx:off "
             "offsety:off offsetA:off", 3),
    "gemm": ("A:mat B:mat C:mat transA:flag transB:flag alpha:scalar beta:scalar m:dim n:dim k:dim "
             "ldA:ld ldB:ld ldC:ld offsetA:off offsetB:off offsetC:off", 3),
    "symm": ("A:mat B:mat C:mat side:flag uplo:flag alpha:scalar beta:scalar m:dim n:dim ldA:ld ldB:ld ldC:ld "
             "offsetA:off offsetB:off offsetC:off", 3),
    "syrk": ("A:mat C:mat uplo:flag trans:flag alpha:scalar beta:scalar n:dim k:dim ldA:ld ldC:ld "
             "offsetA:off offsetC:off", 2),
    "syr2k": ("A:mat B:mat C:mat uplo:flag trans:flag alpha:scalar beta:scalar n:dim k:dim ldA:ld ldB:ld ldC:ld "
              "offsetA:off offsetB:off offsetC:off", 3),
    "trmm": ("A:mat B:mat side:flag uplo:flag transA:flag diag:flag alpha:scalar m:dim n:dim ldA:ld ldB:ld "
             "offsetA:off offsetB:off", 2),
}
for _a, _b in (("hemv", "symv"), ("hbmv", "sbmv"), ("trsv", "trmv"), ("tbsv", "tbmv"), ("geru", "ger"),
               ("her", "syr"), ("her2", "syr2"), ("hemm", "symm"), ("herk", "syrk"), ("her2k", "syr2k"),
               ("trsm", "trmm")):
    _SIGS[_a] = _SIGS[_b]

_TYPES = {n: "dz" for n in NAMES}
for _n in ("symv", "sbmv", "syr", "syr2"):
    _TYPES[_n] = "d"                       # "must have type 'd'" (blas.rst)

_OUT = {"swap": ["x", "y"], "scal": ["x"], "copy": ["y"], "axpy": ["y"], "dot": [], "dotu": [], "nrm2": [],
        "asum": [], "iamax": [], "gemv": ["y"], "gbmv": ["y"], "symv": ["y"], "hemv": ["y"], "sbmv": ["y"],
        "hbmv": ["y"], "trmv": ["x"], "tbmv": ["x"], "trsv": ["x"], "tbsv": ["x"], "ger": ["A"], "geru": ["A"],
        "syr": ["A"], "her": ["A"], "syr2": ["A"], "her2": ["A"], "gemm": ["C"], "symm": ["C"], "hemm": ["C"],
        "syrk": ["C"], "herk": ["C"], "syr2k": ["C"], "her2k": ["C"], "trmm": ["B"], "trsm": ["B"]}

# scalar rules: "same" = int/float always, complex only if the matrices are complex; "real" = int/float only
_SCAL = {n: {"alpha": "same", "beta": "same"} for n in NAMES}
_SCAL["syr"] = {"alpha": "real"}
_SCAL["her"] = {"alpha": "real"}
_SCAL["herk"] = {"alpha": "real", "beta": "real"}       # blas.rst: "alpha and beta must be real"
_SCAL["her2k"] = {"alpha": "same", "beta": "real"}      # blas.rst: "beta must be real"

FLAG_DEFAULT = {"trans": "N", "transA": "N", "transB": "N", "uplo": "L", "diag": "N", "side": "L"}


def flag_legal(fn, flag, tc):
    if flag in ("uplo",):
        return "LU"
    if flag == "diag":
        return "NU"
    if flag == "side":
        return "LR"
    if flag in ("transA", "transB"):
        return "NTC"
    if fn in ("syrk", "syr2k"):
        return "NTC" if tc == "d" else "NT"     # 'C' only in the real case (= 'T')
    if fn in ("herk", "her2k"):
        return "NC" if tc == "z" else "NCT"     # real case: dsyrk; 'T' is not documented, never generated
    return "NTC"


class Spec(object):
    def __init__(self, name):
        self.name = name
        s, nreq = _SIGS[name]
        self.sig = _sig(s)
        self.nreq = nreq
        self.kinds = dict(self.sig)
        self.order = [n for n, _ in self.sig]
        self.mats = [n for n, k in self.sig if k == "mat"]
        self.flags = [n for n, k in self.sig if k == "flag"]
        self.scalars = [n for n, k in self.sig if k == "scalar"]
        self.types = _TYPES[name]
        self.out = _OUT[name]
        self.scalar_rule = {k: v for k, v in _SCAL[name].items() if k in self.kinds}
        self.required = self.order[:nreq]
        self.optional = self.order[nreq:]
        self.level = 1 if name in NAMES[:9] else (2 if name in NAMES[9:25] else 3)

    def __repr__(self):
        return "<Spec %s>" % self.name


SPECS = {n: Spec(n) for n in NAMES}


# ---------------------------------------------------------------------------
# operand descriptors and pure-int geometry
# ---------------------------------------------------------------------------
def _vec(buf, n, inc, off, incname, offname):
    return {"kind": "vec", "buf": buf, "n": n, "inc": inc, "off": off, "incname": incname, "offname": offname,
            "used": n > 0}


def _ge(buf, rows, cols, ld, off):
    return {"kind": "ge", "buf": buf, "rows": rows, "cols": cols, "ld": ld, "off": off, "ldmin": max(1, rows),
            "ldname": "ld" + buf, "offname": "offset" + buf, "used": rows > 0 and cols > 0}


def _sy(buf, n, uplo, ld, off, herm=False):
    return {"kind": "sy", "buf": buf, "n": n, "rows": n, "cols": n, "uplo": uplo, "ld": ld, "off": off,
            "ldmin": max(1, n), "ldname": "ld" + buf, "offname": "offset" + buf, "used": n > 0, "herm": herm}


def _tr(buf, n, uplo, diag, ld, off):
    return {"kind": "tr", "buf": buf, "n": n, "rows": n, "cols": n, "uplo": uplo, "diag": diag, "ld": ld,
            "off": off, "ldmin": max(1, n), "ldname": "ld" + buf, "offname": "offset" + buf, "used": n > 0}


def _gb(buf, m, n, kl, ku, ld, off):
    return {"kind": "gb", "buf": buf, "m": m, "n": n, "kl": kl, "ku": ku, "rows": kl + ku + 1, "cols": n,
            "ld": ld, "off": off, "ldmin": kl + ku + 1, "ldname": "ld" + buf, "offname": "offset" + buf,
            "used": m > 0 and n > 0}


def _sb(buf, n, k, uplo, ld, off, herm=False):
    return {"kind": "sb", "buf": buf, "n": n, "k": k, "rows": k + 1, "cols": n, "uplo": uplo, "ld": ld, "off": off,
            "ldmin": k + 1, "ldname": "ld" + buf, "offname": "offset" + buf, "used": n > 0, "herm": herm}


def _tb(buf, n, k, uplo, diag, ld, off):
    return {"kind": "tb", "buf": buf, "n": n, "k": k, "rows": k + 1, "cols": n, "uplo": uplo, "diag": diag,
            "ld": ld, "off": off, "ldmin": k + 1, "ldname": "ld" + buf, "offname": "offset" + buf, "used": n > 0}


def contract_len(op):
    """elements the array argument must have, counted from offset (Appendix B); 0 if no elements"""
    if not op["used"]:
        return 0
    if op["kind"] == "vec":
        return (op["n"] - 1) * abs(op["inc"]) + 1
    return (op["cols"] - 1) * op["ld"] + op["rows"]


def vec_index(op, i):
    """buffer index of logical element i (BLAS convention for negative increments)"""
    a = abs(op["inc"])
    return op["off"] + (i * a if op["inc"] > 0 else (op["n"] - 1 - i) * a)


def mat_entries(op):
    """list of (i, j, buffer index) of the entries of the *logical* matrix that are stored and referenced"""
    k = op["kind"]
    off, ld = op["off"], op.get("ld", 0)
    out = []
    if not op["used"]:
        return out
    if k == "ge":
        for j in range(op["cols"]):
            for i in range(op["rows"]):
                out.append((i, j, off + i + j * ld))
    elif k in ("sy", "tr"):
        n = op["n"]
        unit = k == "tr" and op["diag"] == "U"
        for j in range(n):
            rng_i = range(j, n) if op["uplo"] == "L" else range(0, j + 1)
            for i in rng_i:
                if unit and i == j:
                    continue
                out.append((i, j, off + i + j * ld))
    elif k == "gb":
        m, n, kl, ku = op["m"], op["n"], op["kl"], op["ku"]
        for j in range(n):
            for i in range(max(0, j - ku), min(m - 1, j + kl) + 1):
                out.append((i, j, off + (ku + i - j) + j * ld))
    elif k in ("sb", "tb"):
        n, kk = op["n"], op["k"]
        unit = k == "tb" and op["diag"] == "U"
        for j in range(n):
            if op["uplo"] == "U":
                for i in range(max(0, j - kk), j + 1):
                    if unit and i == j:
                        continue
                    out.append((i, j, off + (kk + i - j) + j * ld))
            else:
                for i in range(j, min(n - 1, j + kk) + 1):
                    if unit and i == j:
                        continue
                    out.append((i, j, off + (i - j) + j * ld))
    return out


def op_indices(op):
    if op["kind"] == "vec":
        return [vec_index(op, i) for i in range(op["n"])] if op["used"] else []
    return [e[2] for e in mat_entries(op)]


# ---------------------------------------------------------------------------
# resolution of a call: defaults, legality, quick return, operands
# ---------------------------------------------------------------------------
class _Ctx(object):
    def __init__(self, call, flags):
        self.call = call
        self.fn = call["fn"]
        self.sp = SPECS[self.fn]
        self.args = call["args"]
        self.F = flags
        self.hard = []     # reasons that make the call illegal
        self.soft = []     # reasons the manual leaves open
        self.eff = {}

    def given(self, name):
        return name in self.args

    def i(self, name, default):
        v = self.args.get(name, default)
        self.eff[name] = v
        return v

    def size(self, buf):
        return self.call["bufs"][buf]["size"]

    def len(self, buf):
        s = self.size(buf)
        return s[0] * s[1]

    def ld(self, buf, default_rows_raw=False):
        """ld argument: 0 (or omitted) -> documented default"""
        name = "ld" + buf
        v = self.args.get(name, 0)
        if v == 0:
            r = self.size(buf)[0]
            v = r if default_rows_raw else max(1, r)
        self.eff[name] = v
        return v

    def off(self, name):
        v = self.args.get(name, 0)
        self.eff[name] = v
        return v

    def dim(self, name, default):
        """'If negative, the default value is used'; default is a thunk"""
        v = self.args.get(name, -1)
        used_default = v < 0
        if used_default:
            v = default()
        self.eff[name] = v
        return v, used_default


def _isint(v):
    return isinstance(v, int) and not isinstance(v, bool)


def _geom_l1(c):
    fn = c.fn
    two = fn in ("swap", "copy", "axpy", "dot", "dotu")
    if two:
        incx, incy = c.i("incx", 1), c.i("incy", 1)
        ox, oy = c.off("offsetx"), c.off("offsety")
        bad_inc = incx == 0 or incy == 0
        inx, iny, onx, ony = "incx", "incy", "offsetx", "offsety"
    else:
        incx = c.i("inc", 1)
        ox = c.off("offset")
        bad_inc = incx <= 0
        inx, onx = "inc", "offset"
    if bad_inc:
        c.hard.append("inc")
    n = c.args.get("n", -1)
    if n < 0:
        if bad_inc:
            c.eff["n"] = None
            return {"quick": False, "ops": [], "unresolved": True}
        lx = c.len("x")
        n = 1 + (lx - ox - 1) // abs(incx) if lx >= ox + 1 else 0
        if fn in ("swap", "dot", "dotu"):
            ly = c.len("y")
            ny = 1 + (ly - oy - 1) // abs(incy) if ly >= oy + 1 else 0
            if n != ny:
                c.hard.append("default-dims")      # "it must be equal to ..." (docstring)
    c.eff["n"] = n
    if bad_inc:
        # n explicit; geometry with an illegal increment is meaningless
        return {"quick": n == 0, "ops": [], "unresolved": n != 0}
    ops = [_vec("x", n, incx, ox, inx, onx)]
    if two:
        ops.append(_vec("y", n, incy, oy, iny, ony))
    return {"quick": n == 0, "ops": ops, "K": n}


def _xy(c, lenx, leny):
    ops = []
    if lenx is not None:
        incx = c.i("incx", 1)
        ox = c.off("offsetx")
        if incx == 0:
            c.hard.append("inc")
        else:
            ops.append(_vec("x", lenx, incx, ox, "incx", "offsetx"))
    if leny is not None:
        incy = c.i("incy", 1)
        oy = c.off("offsety")
        if incy == 0:
            c.hard.append("inc")
        else:
            ops.append(_vec("y", leny, incy, oy, "incy", "offsety"))
    return ops


def _geom_gemv(c):
    t = c.F["trans"]
    band = c.fn == "gbmv"
    if band:
        m = c.i("m", None)
        kl = c.i("kl", None)
        if m < 0:
            c.hard.append("negative-m")          # "m nonnegative integer"
        if kl < 0:
            c.hard.append("negative-kl")
    else:
        m, _ = c.dim("m", lambda: c.size("A")[0])
    n, _ = c.dim("n", lambda: c.size("A")[1])
    if band:
        ku, _ = c.dim("ku", lambda: c.size("A")[0] - kl - 1)
        if ku < 0:
            c.hard.append("negative-ku")
        if c.args.get("ldA", 0) == 0 and c.size("A")[0] == 0:
            # docstring signature: ldA=max(1,A.size[0]); ARGUMENTS of the other band routines: ldA=A.size[0];
            # an A without rows cannot hold a band anyway (blas.rst: size (kl+ku+1, n)) -> left open
            c.soft.append("band-default-ld-of-empty-A")
        ld = c.ld("A")
    else:
        ld = c.ld("A")
    oA = c.off("offsetA")
    quick = (m == 0 and t == "N") or (n == 0 and t != "N")
    if m < 0 or (band and (kl < 0 or ku < 0)):
        xy = _xy(c, 0, 0)
        return {"quick": quick, "ops": [], "unresolved": True}
    lenx, leny = (n, m) if t == "N" else (m, n)
    A = _gb("A", m, n, kl, ku, ld, oA) if band else _ge("A", m, n, ld, oA)
    ops = [A] + _xy(c, lenx, leny)
    return {"quick": quick, "ops": ops, "K": lenx, "betaonly": lenx == 0}


def _square_default(c, what):
    r, cc = c.size("A")
    if r != cc:
        if what == "hard":
            c.hard.append("default-dims")       # "we require that A.size[0]=A.size[1]"
        else:
            c.soft.append("nonsquare-default")  # syr/her/syr2/her2: not stated in the docstring
    return r


def _geom_symv(c):
    fn = c.fn
    herm = fn in ("hemv", "hbmv")
    uplo = c.F["uplo"]
    if fn in ("symv", "hemv"):
        n, _ = c.dim("n", lambda: _square_default(c, "hard"))
        ld = c.ld("A")
        A = _sy("A", n, uplo, ld, c.off("offsetA"), herm)
    else:
        n, _ = c.dim("n", lambda: c.size("A")[1])
        k, _ = c.dim("k", lambda: max(0, c.size("A")[0] - 1))
        ld = c.ld("A", default_rows_raw=True)
        A = _sb("A", n, k, uplo, ld, c.off("offsetA"), herm)
    ops = [A] + _xy(c, n, n)
    return {"quick": n == 0, "ops": ops, "K": n}


def _geom_trmv(c):
    fn = c.fn
    uplo, diag = c.F["uplo"], c.F["diag"]
    if fn in ("trmv", "trsv"):
        n, _ = c.dim("n", lambda: _square_default(c, "hard"))
        ld = c.ld("A")
        A = _tr("A", n, uplo, diag, ld, c.off("offsetA"))
    else:
        n, _ = c.dim("n", lambda: c.size("A")[1])
        k, _ = c.dim("k", lambda: max(0, c.size("A")[0] - 1))
        ld = c.ld("A", default_rows_raw=True)
        A = _tb("A", n, k, uplo, diag, ld, c.off("offsetA"))
    ops = [A] + _xy(c, n, None)
    return {"quick": n == 0, "ops": ops, "K": n}


def _geom_ger(c):
    m, _ = c.dim("m", lambda: c.size("A")[0])
    n, _ = c.dim("n", lambda: c.size("A")[1])
    ld = c.ld("A")
    A = _ge("A", m, n, ld, c.off("offsetA"))
    ops = _xy(c, m, n) + [A]
    return {"quick": m == 0 or n == 0, "ops": ops, "K": 1}


def _geom_syr(c):
    fn = c.fn
    uplo = c.F["uplo"]
    n, _ = c.dim("n", lambda: _square_default(c, "soft"))
    ld = c.ld("A")
    A = _sy("A", n, uplo, ld, c.off("offsetA"), herm=fn in ("her", "her2"))
    ops = _xy(c, n, n if fn in ("syr2", "her2") else None) + [A]
    return {"quick": n == 0, "ops": ops, "K": 2 if fn in ("syr2", "her2") else 1}


def _geom_gemm(c):
    tA, tB = c.F["transA"], c.F["transB"]
    sA, sB = c.size("A"), c.size("B")
    m, _ = c.dim("m", lambda: sA[0] if tA == "N" else sA[1])
    n, _ = c.dim("n", lambda: sB[1] if tB == "N" else sB[0])

    def kdef():
        k = sA[1] if tA == "N" else sA[0]
        if k != (sB[0] if tB == "N" else sB[1]):
            c.hard.append("default-dims")
        return k
    k, _ = c.dim("k", kdef)
    ldA, ldB, ldC = c.ld("A"), c.ld("B"), c.ld("C")
    A = _ge("A", m, k, ldA, c.off("offsetA")) if tA == "N" else _ge("A", k, m, ldA, c.off("offsetA"))
    B = _ge("B", k, n, ldB, c.off("offsetB")) if tB == "N" else _ge("B", n, k, ldB, c.off("offsetB"))
    C = _ge("C", m, n, ldC, c.off("offsetC"))
    return {"quick": m == 0 or n == 0, "ops": [A, B, C], "K": k, "betaonly": k == 0}


def _geom_symm(c):
    side, uplo = c.F["side"], c.F["uplo"]
    sA, sB = c.size("A"), c.size("B")

    def mdef():
        m = sB[0]
        if side == "L" and (m != sA[0] or m != sA[1]):
            c.hard.append("default-dims")
        return m

    def ndef():
        n = sB[1]
        if side == "R" and (n != sA[0] or n != sA[1]):
            c.hard.append("default-dims")
        return n
    m, _ = c.dim("m", mdef)
    n, _ = c.dim("n", ndef)
    ldA, ldB, ldC = c.ld("A"), c.ld("B"), c.ld("C")
    na = m if side == "L" else n
    A = _sy("A", na, uplo, ldA, c.off("offsetA"), herm=c.fn == "hemm")
    B = _ge("B", m, n, ldB, c.off("offsetB"))
    C = _ge("C", m, n, ldC, c.off("offsetC"))
    return {"quick": m == 0 or n == 0, "ops": [A, B, C], "K": na}


def _geom_syrk(c):
    fn = c.fn
    two = fn in ("syr2k", "her2k")
    uplo, t = c.F["uplo"], c.F["trans"]
    sA = c.size("A")
    sB = c.size("B") if two else None

    def ndef():
        n = sA[0] if t == "N" else sA[1]
        if two and n != (sB[0] if t == "N" else sB[1]):
            c.hard.append("default-dims")
        return n

    def kdef():
        k = sA[1] if t == "N" else sA[0]
        if two and k != (sB[1] if t == "N" else sB[0]):
            c.hard.append("default-dims")
        return k
    n, _ = c.dim("n", ndef)
    k, _ = c.dim("k", kdef)
    ldA = c.ld("A")
    ops = [_ge("A", n, k, ldA, c.off("offsetA")) if t == "N" else _ge("A", k, n, ldA, c.off("offsetA"))]
    if two:
        ldB = c.ld("B")
        ops.append(_ge("B", n, k, ldB, c.off("offsetB")) if t == "N" else _ge("B", k, n, ldB, c.off("offsetB")))
    ldC = c.ld("C")
    ops.append(_sy("C", n, uplo, ldC, c.off("offsetC"), herm=fn in ("herk", "her2k")))
    return {"quick": n == 0, "ops": ops, "K": (2 * k if two else k), "betaonly": k == 0}


def _geom_trmm(c):
    side, uplo, diag = c.F["side"], c.F["uplo"], c.F["diag"]
    sA, sB = c.size("A"), c.size("B")

    def ndef():
        n = sB[1] if side == "L" else sA[0]
        if side != "L" and n != sA[1]:
            c.hard.append("default-dims")
        return n

    def mdef():
        m = sA[0] if side == "L" else sB[0]
        if side == "L" and m != sA[1]:
            c.hard.append("default-dims")
        return m
    m, _ = c.dim("m", mdef)
    n, _ = c.dim("n", ndef)
    ldA, ldB = c.ld("A"), c.ld("B")
    na = m if side == "L" else n
    A = _tr("A", na, uplo, diag, ldA, c.off("offsetA"))
    B = _ge("B", m, n, ldB, c.off("offsetB"))
    return {"quick": m == 0 or n == 0, "ops": [A, B], "K": na}


_GEOM = {}
for _n in NAMES[:9]:
    _GEOM[_n] = _geom_l1
for _n in ("gemv", "gbmv"):
    _GEOM[_n] = _geom_gemv
for _n in ("symv", "hemv", "sbmv", "hbmv"):
    _GEOM[_n] = _geom_symv
for _n in ("trmv", "tbmv", "trsv", "tbsv"):
    _GEOM[_n] = _geom_trmv
for _n in ("ger", "geru"):
    _GEOM[_n] = _geom_ger
for _n in ("syr", "her", "syr2", "her2"):
    _GEOM[_n] = _geom_syr
_GEOM["gemm"] = _geom_gemm
for _n in ("symm", "hemm"):
    _GEOM[_n] = _geom_symm
for _n in ("syrk", "herk", "syr2k", "her2k"):
    _GEOM[_n] = _geom_syrk
for _n in ("trmm", "trsm"):
    _GEOM[_n] = _geom_trmm


class Resolved(object):
    """verdict: 'accept' | 'reject' | 'either'.  reason: first reason of a reject / either"""
    pass


def _scalar_reason(name, v, rule, tc):
    if isinstance(v, int) and not isinstance(v, bool) and abs(v) > 2 ** 1023:
        return "unrepresentable-" + name          # a Python integer that is not a C double: no BLAS operation to perform
    if isinstance(v, bool) or isinstance(v, (int, float)):
        return None
    if isinstance(v, complex):
        if rule == "same" and tc == "z":
            return None
        return "complex-" + name
    return "nonnumeric-" + name


def _resolve_with_flags(call, flags, tc):
    c = _Ctx(call, flags)
    G = _GEOM[call["fn"]](c)
    geo = []        # geometric reasons (these define fits())
    geo.extend(c.hard)
    ops = G.get("ops", [])
    if not G.get("unresolved"):
        for op in ops:
            if op["kind"] != "vec" and op["ld"] < op["ldmin"]:
                # gemm/syrk/herk/syr2k/her2k test ldA/ldB only when k > 0 (A, B are not referenced for
                # k = 0): the wrapper is deliberately lenient there and must then still compute C := beta*C
                if G.get("betaonly") and call["fn"] in ("gemm", "syrk", "herk", "syr2k", "her2k") and not op["used"]:
                    continue
                geo.append("ld")
        for op in ops:
            if op["off"] < 0:
                geo.append("offset")
        if "ld" not in geo and "offset" not in geo:
            for op in ops:
                b = call["bufs"][op["buf"]]
                L = b["size"][0] * b["size"][1]
                if op["used"] and op["off"] + contract_len(op) > L:
                    geo.append("buflen")
                    break
    return c, G, geo


def resolve(call):
    fn = call["fn"]
    sp = SPECS[fn]
    r = Resolved()
    r.fn, r.spec = fn, sp
    r.soft, r.G, r.eff, r.ops = [], {}, {}, []
    bufs = call["bufs"]
    args = call["args"]
    reasons = []
    # matrices
    kinds_ok = all(bufs[b].get("kind", "matrix") == "matrix" for b in sp.mats)
    tcs = [bufs[b]["tc"] for b in sp.mats] if kinds_ok else []
    tc = None
    if not kinds_ok:
        reasons.append("not-a-matrix")
    elif len(set(tcs)) != 1:
        reasons.append("type-mix")
    elif tcs[0] not in sp.types:
        reasons.append("type")
    if kinds_ok:
        # typecode used for flag legality / scalar rules / reference: the common one, else that of the first
        tc = tcs[0] if tcs[0] in "dz" else "d"
    r.tc = tc
    # integer-typed arguments must be ints (the generator never violates this; C19 might)
    for n_, k_ in sp.sig:
        if k_ in ("dim", "rdim", "bw", "inc", "pinc", "ld", "off") and n_ in args and not _isint(args[n_]):
            reasons.append("not-an-int")
    # flags
    flags = {}
    bad_flags = []
    for f in sp.flags:
        v = args.get(f, FLAG_DEFAULT[f])
        if not (isinstance(v, str) and len(v) == 1 and v in flag_legal(fn, f, tc or "d")):
            bad_flags.append(f)
        flags[f] = v
    if bad_flags:
        reasons.append("flag-" + bad_flags[0])
    r.flags = flags
    if not kinds_ok or "not-an-int" in reasons:
        r.verdict, r.reason, r.reasons = "reject", reasons[0], reasons
        r.quick, r.ops, r.eff, r.geo, r.G = False, [], {}, ["unresolved"], {}
        r.geom_ok = False
        return r
    # geometry (for illegal flags: every legal substitution; 'quick' only if quick under all of them)
    if bad_flags:
        import itertools
        choices = [flag_legal(fn, f, tc or "d") for f in bad_flags]
        quick_all = True
        for combo in itertools.product(*choices):
            fl = dict(flags)
            fl.update(dict(zip(bad_flags, combo)))
            c, G, geo = _resolve_with_flags(call, fl, tc)
            quick_all = quick_all and bool(G["quick"])
        r.verdict = "either" if quick_all else "reject"
        r.reason, r.reasons = reasons[0], reasons
        r.quick, r.ops, r.eff, r.geo, r.G = quick_all, [], {}, ["flag"], {}
        r.geom_ok = quick_all
        return r
    c, G, geo = _resolve_with_flags(call, flags, tc)
    reasons.extend(geo)
    # scalars
    eff = dict(c.eff)
    for s in sp.scalars:
        if s in args:
            v = args[s]
            why = _scalar_reason(s, v, sp.scalar_rule.get(s, "same"), tc)
            if why:
                reasons.append(why)
            eff[s] = v
        else:
            eff[s] = 1.0 if s == "alpha" else 0.0
    for f in sp.flags:
        eff[f] = flags[f]
    r.eff = eff
    r.G = G
    r.ops = G.get("ops", [])
    r.quick = bool(G["quick"])
    r.geo = geo
    r.geom_ok = r.quick or not geo
    r.soft = list(c.soft)
    r.reasons = reasons
    if r.quick:
        r.verdict = "either" if (reasons or c.soft) else "accept"
        r.reason = (reasons + c.soft + [None])[0]
    elif reasons:
        r.verdict, r.reason = "reject", reasons[0]
    elif c.soft:
        r.verdict, r.reason = "either", c.soft[0]
    else:
        r.verdict, r.reason = "accept", None
    return r


def fits(call):
    """geometry only: increments legal, dimensions legal and consistent, ld >= minimum, offsets >= 0 and every
    operand with elements inside its buffer (contract footprint).  True for quick returns (nothing is touched)."""
    return resolve(call).geom_ok


def required_len(call):
    """dict buffer -> required number of elements (offset + contract footprint; 0 if the operand is empty or the
    call returns immediately); None if dimensions cannot be resolved"""
    r = resolve(call)
    if r.G.get("unresolved") or (not r.ops and not r.quick):
        return None
    out = {b: 0 for b in r.spec.mats}
    if r.quick:
        return out
    for op in r.ops:
        if op["used"]:
            out[op["buf"]] = op["off"] + contract_len(op)
    return out


def footprint(call):
    """dict buffer -> {"read": set(indices), "write": set(indices)} of the reference routine"""
    r = resolve(call)
    out = {b: {"read": set(), "write": set()} for b in r.spec.mats}
    if r.quick or r.G.get("unresolved"):
        return out
    fn = r.fn
    for op in r.ops:
        idx = set(op_indices(op))
        b = op["buf"]
        if b in r.spec.out:
            out[b]["write"] |= idx
            out[b]["read"] |= idx
        else:
            out[b]["read"] |= idx
    if fn == "copy":
        out["y"]["read"] = set()
    return out


# ---------------------------------------------------------------------------
# numpy reference
# ---------------------------------------------------------------------------
def _dtype(tc):
    return {"d": np.float64, "z": np.complex128, "i": np.int64}[tc]


def _gather(call, op, absmode):
    data = call["bufs"][op["buf"]]["data"]
    k = op["kind"]
    if k == "vec":
        v = np.array([data[vec_index(op, i)] for i in range(op["n"])], dtype=data.dtype)
        return np.abs(v) if absmode else v
    dt = data.dtype
    if k == "ge":
        M = np.zeros((op["rows"], op["cols"]), dtype=dt)
        for i, j, ix in mat_entries(op):
            M[i, j] = data[ix]
    elif k == "gb":
        M = np.zeros((op["m"], op["n"]), dtype=dt)
        for i, j, ix in mat_entries(op):
            M[i, j] = data[ix]
    elif k in ("sy", "sb"):
        n = op["n"]
        M = np.zeros((n, n), dtype=dt)
        herm = op.get("herm") and dt == np.complex128
        for i, j, ix in mat_entries(op):
            v = data[ix]
            if i == j:
                M[i, i] = v.real if herm else v
            else:
                M[i, j] = v
                M[j, i] = np.conj(v) if herm else v
    elif k in ("tr", "tb"):
        n = op["n"]
        M = np.zeros((n, n), dtype=dt)
        for i, j, ix in mat_entries(op):
            M[i, j] = data[ix]
        if op["diag"] == "U":
            for i in range(n):
                M[i, i] = 1.0
    else:
        raise ValueError(k)
    return np.abs(M) if absmode else M


def _opm(M, t):
    if t == "N":
        return M
    if t == "T":
        return M.T
    return M.conj().T


def _formula(call, r, absmode):
    """returns (outputs, ret) ; outputs = list of (op, values) ; vectors in logical order, matrices full"""
    fn, tc, e = r.fn, r.tc, r.eff
    ops = {op["buf"]: op for op in r.ops}
    g = lambda b: _gather(call, ops[b], absmode)
    dt = _dtype(tc)

    def sc(name):
        v = e.get(name)
        v = abs(v) if absmode else v
        return dt(v) if not absmode else float(v)
    conj = (lambda a: a) if (absmode or tc == "d") else np.conj
    cj = (lambda a: a) if (absmode or tc == "d") else (lambda a: a.conjugate())
    if fn == "scal":
        return [(ops["x"], sc("alpha") * g("x"))], None
    if fn == "axpy":
        return [(ops["y"], sc("alpha") * g("x") + g("y"))], None
    if fn == "dot":
        return [], np.sum(conj(g("x")) * g("y")) if ops["x"]["n"] else dt(0)
    if fn == "dotu":
        return [], np.sum(g("x") * g("y")) if ops["x"]["n"] else dt(0)
    if fn in ("gemv", "gbmv"):
        A = _opm(g("A"), e["trans"])
        y = g("y")
        x = g("x")
        return [(ops["y"], sc("alpha") * (A @ x) + sc("beta") * y)], None
    if fn in ("symv", "hemv", "sbmv", "hbmv"):
        return [(ops["y"], sc("alpha") * (g("A") @ g("x")) + sc("beta") * g("y"))], None
    if fn in ("trmv", "tbmv"):
        return [(ops["x"], _opm(g("A"), e["trans"]) @ g("x"))], None
    if fn == "ger":
        return [(ops["A"], g("A") + sc("alpha") * np.outer(g("x"), conj(g("y"))))], None
    if fn == "geru":
        return [(ops["A"], g("A") + sc("alpha") * np.outer(g("x"), g("y")))], None
    if fn == "syr":
        x = g("x")
        return [(ops["A"], g("A") + sc("alpha") * np.outer(x, x))], None
    if fn == "her":
        x = g("x")
        return [(ops["A"], g("A") + sc("alpha") * np.outer(x, conj(x)))], None
    if fn == "syr2":
        x, y = g("x"), g("y")
        return [(ops["A"], g("A") + sc("alpha") * (np.outer(x, y) + np.outer(y, x)))], None
    if fn == "her2":
        x, y = g("x"), g("y")
        a = sc("alpha")
        return [(ops["A"], g("A") + a * np.outer(x, conj(y)) + cj(a) * np.outer(y, conj(x)))], None
    if fn == "gemm":
        A, B = _opm(g("A"), e["transA"]), _opm(g("B"), e["transB"])
        return [(ops["C"], sc("alpha") * (A @ B) + sc("beta") * g("C"))], None
    if fn in ("symm", "hemm"):
        A, B = g("A"), g("B")
        P = A @ B if e["side"] == "L" else B @ A
        return [(ops["C"], sc("alpha") * P + sc("beta") * g("C"))], None
    if fn == "syrk":
        A = g("A")
        P = A @ A.T if e["trans"] == "N" else A.T @ A
        return [(ops["C"], sc("alpha") * P + sc("beta") * g("C"))], None
    if fn == "herk":
        A = g("A")
        P = A @ conj(A).T if e["trans"] == "N" else conj(A).T @ A
        return [(ops["C"], sc("alpha") * P + sc("beta") * g("C"))], None
    if fn == "syr2k":
        A, B = g("A"), g("B")
        P = (A @ B.T + B @ A.T) if e["trans"] == "N" else (A.T @ B + B.T @ A)
        return [(ops["C"], sc("alpha") * P + sc("beta") * g("C"))], None
    if fn == "her2k":
        A, B = g("A"), g("B")
        a = sc("alpha")
        if e["trans"] == "N":
            P = a * (A @ conj(B).T) + cj(a) * (B @ conj(A).T)
        else:
            P = a * (conj(A).T @ B) + cj(a) * (conj(B).T @ A)
        return [(ops["C"], P + sc("beta") * g("C"))], None
    if fn == "trmm":
        A, B = _opm(g("A"), e["transA"]), g("B")
        return [(ops["B"], sc("alpha") * (A @ B if e["side"] == "L" else B @ A))], None
    raise ValueError(fn)


def _solve_ref(call, r):
    """trsv / tbsv / trsm: reference by numpy.linalg.solve + normwise scale"""
    fn, e = r.fn, r.eff
    ops = {op["buf"]: op for op in r.ops}
    T = _gather(call, ops["A"], False)
    tname = "transA" if fn == "trsm" else "trans"
    opT = _opm(T, e[tname])
    n = T.shape[0]
    Ti = np.linalg.inv(opT)
    cond = float(np.linalg.norm(opT, np.inf) * np.linalg.norm(Ti, np.inf))
    if fn in ("trsv", "tbsv"):
        x = _gather(call, ops["x"], False)
        ref = np.linalg.solve(opT, x)
        scale = np.full(ref.shape, cond * max(float(np.max(np.abs(ref), initial=0.0)),
                                                float(np.max(np.abs(x), initial=0.0)) / max(1.0, float(np.linalg.norm(opT, np.inf)))))
        return [(ops["x"], ref)], [(ops["x"], scale)], cond
    B = _gather(call, ops["B"], False)
    a = _dtype(r.tc)(e["alpha"])
    if e["side"] == "L":
        ref = a * np.linalg.solve(opT, B)
    else:
        ref = a * np.linalg.solve(opT.T, B.T).T
    mx = float(np.max(np.abs(ref), initial=0.0))
    scale = np.full(ref.shape, cond * mx)
    return [(ops["B"], ref)], [(ops["B"], scale)], cond


def _scatter(buf, mask, op, vals, herm_mask=None):
    k = op["kind"]
    if k == "vec":
        for i in range(op["n"]):
            ix = vec_index(op, i)
            buf[ix] = vals[i]
            mask[ix] = True
    else:
        for i, j, ix in mat_entries(op):
            buf[ix] = vals[i, j]
            mask[ix] = True
            if herm_mask is not None and i == j:
                herm_mask[ix] = True


def expected(call):
    """REJECT, or a dict:
      verdict 'accept' | 'either', reason, quick
      ret        documented return value (None, float, complex, int)
      ret_scale  |.|-scale of the return value (for the error bound), K inner dimension
      bufs       name -> expected buffer image (all elements: unaddressed ones = input)
      mask       name -> bool array, True where the routine writes
      scale      name -> float array, componentwise |alpha||A||x| + |beta||y| (0 outside the mask)
      hermdiag   name -> bool array: diagonal of a complex Hermitian output (imaginary part zero or unchanged)
      exact      True: masked elements must be bit-identical to `bufs` (swap, copy)
      cond       condition number used for the solves (else None)
    """
    r = resolve(call)
    if r.verdict == "reject":
        return REJECT
    fn, sp = r.fn, r.spec
    out = {"verdict": r.verdict, "reason": r.reason, "quick": r.quick, "ret": None, "ret_scale": 0.0,
           "K": r.G.get("K", 0), "bufs": {}, "mask": {}, "scale": {}, "hermdiag": {}, "exact": False,
           "cond": None, "betaonly": bool(r.G.get("betaonly")), "resolved": r}
    for b in sp.mats:
        d = call["bufs"][b]["data"]
        out["bufs"][b] = d.copy()
        out["mask"][b] = np.zeros(len(d), dtype=bool)
        out["scale"][b] = np.zeros(len(d), dtype=float)
        out["hermdiag"][b] = np.zeros(len(d), dtype=bool)
    tc = r.tc
    zero_ret = {"dot": (0j if tc == "z" else 0.0), "dotu": (0j if tc == "z" else 0.0), "nrm2": 0.0,
                "asum": 0.0, "iamax": 0}
    if r.quick:
        out["ret"] = zero_ret.get(fn)
        return out
    if r.verdict == "either" and r.reasons:
        # cannot happen: 'either' with hard reasons only arises on quick returns
        return out
    ops = {op["buf"]: op for op in r.ops}
    if fn in ("swap", "copy"):
        x = _gather(call, ops["x"], False)
        y = _gather(call, ops["y"], False)
        out["exact"] = True
        _scatter(out["bufs"]["y"], out["mask"]["y"], ops["y"], x)
        if fn == "swap":
            _scatter(out["bufs"]["x"], out["mask"]["x"], ops["x"], y)
        return out
    if fn in ("nrm2", "asum", "iamax"):
        x = _gather(call, ops["x"], False)
        if fn == "nrm2":
            v = float(np.sqrt(np.sum(np.abs(x) ** 2)))
            out["ret"], out["ret_scale"] = v, v
        elif fn == "asum":
            v = float(np.sum(np.abs(x.real) + np.abs(x.imag)))
            out["ret"], out["ret_scale"] = v, v
        else:
            w = np.abs(x.real) + np.abs(x.imag)
            out["ret"] = int(np.argmax(w))      # first maximiser
        return out
    if fn in SOLVES:
        outs, scales, cond = _solve_ref(call, r)
        out["cond"] = cond
    else:
        outs, ret = _formula(call, r, False)
        scales, rets = _formula(call, r, True)
        if fn in ("dot", "dotu"):
            out["ret"] = complex(ret) if tc == "z" else float(ret)
            out["ret_scale"] = float(rets)
            return out
    for (op, vals), (_, sc) in zip(outs, scales):
        b = op["buf"]
        herm = op.get("herm") and tc == "z"
        _scatter(out["bufs"][b], out["mask"][b], op, vals, out["hermdiag"][b] if herm else None)
        m2 = np.zeros(len(out["mask"][b]), dtype=bool)
        _scatter(out["scale"][b], m2, op, np.asarray(sc, dtype=float))
    return out


# ---------------------------------------------------------------------------
# generators
# ---------------------------------------------------------------------------
_INC_ANY = [1, 1, 1, 2, -1, -1, -2, 3]
_INC_POS = [1, 1, 1, 2, 3]
_DIMS = [0, 1, 1, 2, 2, 3, 3, 4, 5]
_DIMS_NZ = [1, 2, 2, 3, 3, 4, 5]
_BW = [0, 0, 1, 1, 2, 3]
_LD_EXTRA = [0, 0, 1, 2, 4]
_OFFS = [0, 0, 1, 2, 5, 7]
_SLACK = [0, 0, 1, 3, 8]
_BIG_LD = 400


def _rand_scalar(rng, rule, tc, which):
    if which == "beta":
        base = [0.0, 0.0, 1.0, -0.5, 2, rng.uniform(-2, 2)]
    else:
        base = [1.0, 1.0, -1.0, 0.0, 2, 2.5, rng.uniform(-2, 2)]
    if rule == "same" and tc == "z" and rng.random() < 0.5:
        if rng.random() < 0.3:
            # complex scalars whose real part is one of the special values 0 / 1 (quick-return tests must look at both parts)
            return complex(rng.choice([0.0, 1.0]), rng.choice([1.0, -0.5, rng.uniform(-2, 2)]))
        return complex(rng.uniform(-2, 2), rng.uniform(-2, 2))
    return rng.choice(base)


def _rand_values(rng, n, tc, mode):
    if mode == "int":
        re = [float(rng.randint(-3, 3)) for _ in range(n)]
        im = [float(rng.randint(-3, 3)) for _ in range(n)]
    else:
        re = [rng.uniform(-2, 2) for _ in range(n)]
        im = [rng.uniform(-2, 2) for _ in range(n)]
    if tc == "z":
        return np.array(re) + 1j * np.array(im)
    if tc == "i":
        return np.array([int(v) for v in re], dtype=np.int64)
    return np.array(re)


def _pat(tc, n):
    if tc == "z":
        return np.full(n, PATZ, dtype=np.complex128)
    if tc == "i":
        return np.full(n, PATI, dtype=np.int64)
    return np.full(n, PAT, dtype=np.float64)


def _mkbuf(tc, size):
    return {"tc": tc, "size": (int(size[0]), int(size[1])), "data": _pat(tc, int(size[0]) * int(size[1])),
            "kind": "matrix"}


def _fill(rng, call, mode):
    """random data on every element the operation addresses; solves: well-conditioned triangle"""
    r = resolve(call)
    fn = call["fn"]
    for op in r.ops:
        b = call["bufs"][op["buf"]]
        data, tc = b["data"], b["tc"]
        L = len(data)
        if op["kind"] == "vec":
            idx = [ix for ix in op_indices(op) if 0 <= ix < L]
            if idx:
                data[idx] = _rand_values(rng, len(idx), tc, mode)
            continue
        ent = [(i, j, ix) for (i, j, ix) in mat_entries(op) if 0 <= ix < L]
        if not ent:
            continue
        vals = _rand_values(rng, len(ent), tc, mode)
        if fn in SOLVES and op["kind"] in ("tr", "tb"):
            for t, (i, j, ix) in enumerate(ent):
                if i == j:
                    mag = rng.uniform(1.0, 2.0)
                    if tc == "z":
                        ph = rng.uniform(0, 2 * math.pi)
                        vals[t] = mag * complex(math.cos(ph), math.sin(ph))
                    else:
                        vals[t] = mag * rng.choice([-1.0, 1.0])
                else:
                    vals[t] = vals[t] * 0.12
        data[[e[2] for e in ent]] = vals


def _copy_call(call):
    return {"fn": call["fn"],
            "bufs": {k: {"tc": v["tc"], "size": tuple(v["size"]), "data": v["data"].copy(),
                         "kind": v.get("kind", "matrix")} for k, v in call["bufs"].items()},
            "args": dict(call["args"]), "meta": dict(call.get("meta", {}))}


def _same_resolution(a, b):
    if a.verdict != b.verdict or a.quick != b.quick:
        return False
    if set(a.eff) != set(b.eff):
        return False
    for k in a.eff:
        va, vb = a.eff[k], b.eff[k]
        if type(va) != type(vb) and not (_isint(va) and _isint(vb)):
            # 1 vs 1.0 vs (1+0j) are different calls
            return False
        if va != vb:
            return False
    return True


def omit_defaults(rng, call, p):
    """drop optional arguments whose documented default reproduces the same effective call"""
    sp = SPECS[call["fn"]]
    base = resolve(call)
    names = [n for n in sp.optional if sp.kinds[n] != "mat" and n in call["args"]]
    rng.shuffle(names)
    for n in names:
        if rng.random() >= p:
            continue
        v = call["args"].pop(n)
        r2 = resolve(call)
        if not _same_resolution(base, r2):
            call["args"][n] = v
    return call


def _gen_base(rng, name, friendly, tight=False, nozero=False, tc=None):
    sp = SPECS[name]
    tc = tc or rng.choice(sp.types)
    args = {}
    for n, k in sp.sig:
        if k == "flag":
            legal = flag_legal(name, n, tc)
            if name in ("herk", "her2k") and n == "trans":
                legal = "NC"                    # 'T' in the real case is undocumented: never generated
            args[n] = rng.choice(legal)
        elif k in ("dim", "rdim"):
            args[n] = rng.choice(_DIMS_NZ if nozero else _DIMS)
        elif k == "bw":
            args[n] = rng.choice(_BW)
        elif k == "inc":
            args[n] = rng.choice(_INC_ANY)
        elif k == "pinc":
            args[n] = rng.choice(_INC_POS)
        elif k == "scalar":
            args[n] = _rand_scalar(rng, sp.scalar_rule.get(n, "same"), tc, n)
        elif k == "ld":
            args[n] = _BIG_LD
        elif k == "off":
            args[n] = 0
    if name == "gbmv":
        args["kl"] = rng.choice(_BW)
    call = {"fn": name, "bufs": {b: _mkbuf(tc, (0, 0)) for b in sp.mats}, "args": args,
            "meta": {"friendly": friendly, "tight": tight}}
    r = resolve(call)
    for op in r.ops:
        if op["kind"] == "vec":
            args[op["offname"]] = 0 if friendly else rng.choice([0, 0, 1] if tight else _OFFS)
        else:
            if friendly:
                args[op["ldname"]] = op["ldmin"] if op["kind"] in ("gb", "sb", "tb") else max(1, op["rows"])
                args[op["offname"]] = 0
            else:
                args[op["ldname"]] = op["ldmin"] + rng.choice([0, 0, 1] if tight else _LD_EXTRA)
                args[op["offname"]] = rng.choice([0, 0, 1] if tight else _OFFS)
    r = resolve(call)
    for op in r.ops:
        b = op["buf"]
        req = op["off"] + contract_len(op) if op["used"] else 0
        if friendly:
            if op["kind"] == "vec":
                if sp.level == 1:
                    # default n = 1 + (len - off - 1) / |inc|  must reproduce n
                    L = req + (rng.randrange(abs(op["inc"])) if op["n"] > 0 else 0)
                else:
                    L = req + (0 if tight else rng.choice([0, 0, 1, 3]))
                size = (L, 1) if rng.random() < 0.8 else (1, L)
            else:
                size = (op["rows"], op["cols"])
        else:
            if not op["used"] and rng.random() < 0.5:
                req = 0
            L = req + (0 if tight else rng.choice(_SLACK))
            if op["kind"] == "vec" or tight or rng.random() < 0.5:
                size = (L, 1) if rng.random() < 0.7 else (1, L)
            else:
                rows = op["ld"]
                cols = -(-L // rows)
                size = (rows, cols)
        call["bufs"][b] = _mkbuf(tc, size)
    _fill(rng, call, "int" if rng.random() < 0.2 else "float")
    return call


def _grow(rng, buf, newsize, mode="float"):
    """change the size of a buffer keeping the leading data; new elements get the pattern (the caller re-fills
    the addressed ones)"""
    old = buf["data"]
    L = int(newsize[0]) * int(newsize[1])
    new = _pat(buf["tc"], L)
    k = min(L, len(old))
    new[:k] = old[:k]
    buf["data"] = new
    buf["size"] = (int(newsize[0]), int(newsize[1]))


def _retype(buf, tc):
    d = buf["data"]
    if tc == "z":
        nd = d.astype(np.complex128)
    elif tc == "d":
        nd = np.array(d.real if np.iscomplexobj(d) else d, dtype=np.float64)
    else:
        src = d.real if np.iscomplexobj(d) else d
        nd = np.array([int(max(-1000, min(1000, round(float(v))))) if abs(float(v)) < 1e9 else 7 for v in src],
                      dtype=np.int64)
    buf["data"] = nd
    buf["tc"] = tc


def _mutate_boundary(rng, call):
    """stratum 2: one buffer length / offset / ld / dimension / increment / shape one below, at, one above"""
    sp = SPECS[call["fn"]]
    r = resolve(call)
    ops = r.ops
    kinds = ["len", "len", "off", "dim"]
    if any(op["kind"] != "vec" for op in ops):
        kinds += ["ld", "ld"]
    if any(k in ("inc", "pinc") for _, k in sp.sig):
        kinds.append("inc")
    if any(k == "bw" for _, k in sp.sig) or call["fn"] == "gbmv":
        kinds.append("bw")
    kind = rng.choice(kinds)
    delta = rng.choice([-1, -1, 0, 1, 1])
    what = kind
    if kind == "len" and ops:
        op = rng.choice(ops)
        b = call["bufs"][op["buf"]]
        req = (op["off"] + contract_len(op)) if op["used"] else 0
        L = max(0, req + delta)
        _grow(rng, b, (L, 1) if rng.random() < 0.7 else (1, L))
        what = "len:%s%+d" % (op["buf"], delta)
        if rng.random() < 0.5:
            # the other operands get slack: a wrapper that sizes one operand by the wrong rule (e.g. the 'N' rule for
            # trans = 'C') rejects every call with tight buffers for the *other* operand's sake, and the short one is
            # never seen to be accepted
            for nm, ob in call["bufs"].items():
                if ob is not b and isinstance(ob, dict) and "data" in ob:
                    Lo = int(ob["size"][0]) * int(ob["size"][1]) + rng.randint(1, 8)
                    _grow(rng, ob, (Lo, 1))
            what += "+slack"
    elif kind == "off" and ops:
        op = rng.choice(ops)
        call["args"][op["offname"]] = op["off"] + delta
        what = "off:%s%+d" % (op["buf"], delta)
    elif kind == "ld":
        op = rng.choice([o for o in ops if o["kind"] != "vec"])
        call["args"][op["ldname"]] = op["ldmin"] + delta
        if op["ldmin"] + delta == 0:
            call["args"][op["ldname"]] = -1 if rng.random() < 0.3 else 0     # 0 means "default"
        what = "ld:%s%+d" % (op["buf"], delta)
    elif kind == "dim":
        names = [n for n, k in sp.sig if k in ("dim", "rdim") and n in call["args"]]
        if names:
            n = rng.choice(names)
            call["args"][n] = call["args"][n] + delta
            what = "dim:%s%+d" % (n, delta)
    elif kind == "inc":
        names = [n for n, k in sp.sig if k in ("inc", "pinc") and n in call["args"]]
        n = rng.choice(names)
        v = call["args"][n]
        call["args"][n] = rng.choice([v + 1 if v > 0 else v - 1, -v, v])
        what = "inc:%s" % n
    elif kind == "bw":
        names = [n for n, k in sp.sig if k == "bw" and n in call["args"]] + (["kl"] if call["fn"] == "gbmv" else [])
        n = rng.choice(names)
        call["args"][n] = call["args"][n] + delta
        what = "bw:%s%+d" % (n, delta)
    call["meta"]["mut"] = what
    return call


def _mutate_shape(rng, call):
    """stratum 2 (default forms): alter rows or columns of one buffer of a call that relies on defaults"""
    sp = SPECS[call["fn"]]
    b = rng.choice(sp.mats)
    buf = call["bufs"][b]
    r, c = buf["size"]
    delta = rng.choice([-1, 1, 1])
    if rng.random() < 0.5:
        r = max(0, r + delta)
    else:
        c = max(0, c + delta)
    _grow(rng, buf, (r, c))
    call["meta"]["mut"] = "shape:%s" % b
    return call


def _mutate_illegal(rng, call):
    """stratum 3: type conflicts and illegal flag / inc / ld / offset / scalar values"""
    fn = call["fn"]
    sp = SPECS[fn]
    tc = call["bufs"][sp.mats[0]]["tc"]
    menu = ["tc-i", "bad-off", "non-matrix"]
    if len(sp.mats) >= 2:
        menu += ["tc-mix", "tc-mix"]
    if sp.types == "d":
        menu += ["tc-all-z"]
    if sp.scalars:
        menu += ["complex-scalar", "complex-scalar", "nonnumeric-scalar", "huge-int-scalar"]
    if sp.flags:
        menu += ["bad-flag", "bad-flag"]
    if any(k in ("inc", "pinc") for _, k in sp.sig):
        menu += ["bad-inc"]
    if any(k == "ld" for _, k in sp.sig):
        menu += ["bad-ld"]
    if fn == "gbmv":
        menu += ["neg-dim"]
    kind = rng.choice(menu)
    what = kind
    if kind == "tc-mix":
        b = rng.choice(sp.mats)
        _retype(call["bufs"][b], "z" if call["bufs"][b]["tc"] == "d" else "d")
        what = "tc-mix:" + b
    elif kind == "tc-i":
        bs = sp.mats if rng.random() < 0.4 else [rng.choice(sp.mats)]
        for b in bs:
            _retype(call["bufs"][b], "i")
        what = "tc-i:" + ("all" if len(bs) == len(sp.mats) else bs[0])
    elif kind == "tc-all-z":
        for b in sp.mats:
            _retype(call["bufs"][b], "z")
    elif kind == "complex-scalar":
        s = rng.choice(sp.scalars)
        rule = sp.scalar_rule.get(s, "same")
        if rule == "same" and tc == "z":
            for b in sp.mats:
                _retype(call["bufs"][b], "d")
        call["args"][s] = complex(rng.uniform(-2, 2), rng.choice([0.0, 1.0, rng.uniform(-2, 2)]))
        what = "complex-" + s
    elif kind == "huge-int-scalar":
        s = rng.choice(sp.scalars)
        call["args"][s] = rng.choice([10 ** 400, -10 ** 400, 2 ** 2000])
        what = "huge-int-" + s
    elif kind == "nonnumeric-scalar":
        s = rng.choice(sp.scalars)
        call["args"][s] = rng.choice(["1.0", None, [1.0], (2.0,)])
        what = "nonnumeric-" + s
    elif kind == "bad-flag":
        f = rng.choice(sp.flags)
        legal = flag_legal(fn, f, tc)
        cands = ["X", legal[0].lower(), legal[-1].lower(), legal[0] * 2, "", 1]
        if fn in ("syrk", "syr2k") and f == "trans" and tc == "z":
            cands += ["C", "C", "C"]
        if fn in ("herk", "her2k") and f == "trans" and tc == "z":
            cands += ["T", "T", "T"]
        if f == "uplo":
            cands += ["N", "T"]
        if f == "diag":
            cands += ["L"]
        if f == "side":
            cands += ["U"]
        call["args"][f] = rng.choice(cands)
        what = "bad-flag:" + f
    elif kind == "bad-inc":
        names = [(n, k) for n, k in sp.sig if k in ("inc", "pinc")]
        n, k = rng.choice(names)
        call["args"][n] = rng.choice([0, 0, -1, -2]) if k == "pinc" else 0
        what = "bad-inc:" + n
    elif kind == "bad-ld":
        n = rng.choice([n for n, k in sp.sig if k == "ld"])
        call["args"][n] = rng.choice([-1, -3, -7])
        what = "bad-ld:" + n
    elif kind == "bad-off":
        n = rng.choice([n for n, k in sp.sig if k == "off"])
        call["args"][n] = rng.choice([-1, -1, -2, -5])
        what = "bad-off:" + n
    elif kind == "non-matrix":
        b = rng.choice(sp.mats)
        call["bufs"][b]["kind"] = rng.choice(["list", "spmatrix", "none"])
        what = "non-matrix:" + b
    elif kind == "neg-dim":
        n = rng.choice(["m", "kl", "ku"])
        call["args"][n] = rng.choice([-1, -2])
        what = "neg-dim:" + n
    call["meta"]["mut"] = what
    return call


def gen_call(rng, name, stratum):
    """stratum 1: consistent; 2: boundary boxes; 3: type conflicts / illegal values; 4: one operand one element short.
    rng is a random.Random; all randomness comes from it."""
    call = _gen_call(rng, name, stratum)
    # drawn last, so that it does not influence the call itself: pass the required arguments by keyword too
    call["meta"]["bykw"] = rng.random() < 0.25
    return call


def _gen_call(rng, name, stratum):
    if stratum == 1:
        friendly = rng.random() < 0.45
        call = _gen_base(rng, name, friendly)
        omit_defaults(rng, call, 0.75 if friendly else 0.5)
        call["meta"]["stratum"] = 1
        return call
    if stratum == 2:
        if rng.random() < 0.25:
            call = _gen_base(rng, name, True, tight=True, nozero=rng.random() < 0.8)
            omit_defaults(rng, call, 0.9)
            _mutate_shape(rng, call)
        else:
            call = _gen_base(rng, name, False, tight=True, nozero=rng.random() < 0.85)
            _mutate_boundary(rng, call)
            if rng.random() < 0.3:
                omit_defaults(rng, call, 0.4)
        # the mutation moved the addressed elements: give them data again (solves: conditioned triangle)
        _fill(rng, call, "float")
        call["meta"]["stratum"] = 2
        return call
    if stratum == 4:
        # short sweep: an exactly consistent call, then ONE operand buffer one element too short while every other
        # operand gets slack.  Each wrapper has one hand-written length test per operand and per flag value; this
        # stratum visits (function, flags, operand) triples directly instead of waiting for stratum 2 to draw them.
        call = _gen_base(rng, name, False, tight=True, nozero=True)
        r = resolve(call)
        ops = [op for op in r.ops if op["used"] and op["off"] + contract_len(op) >= 1]
        if ops:
            op = rng.choice(ops)
            b = call["bufs"][op["buf"]]
            _grow(rng, b, (op["off"] + contract_len(op) - 1, 1))
            for nm, ob in call["bufs"].items():
                if ob is not b and isinstance(ob, dict) and "data" in ob:
                    Lo = int(ob["size"][0]) * int(ob["size"][1]) + rng.randint(1, 8)
                    _grow(rng, ob, (Lo, 1))
            call["meta"]["mut"] = "short:%s" % op["buf"]
        _fill(rng, call, "float")
        call["meta"]["stratum"] = 4
        return call
    friendly = rng.random() < 0.4
    call = _gen_base(rng, name, friendly, nozero=rng.random() < 0.9)
    omit_defaults(rng, call, 0.5)
    _mutate_illegal(rng, call)
    call["meta"]["stratum"] = 3
    return call


def invocation(call, objs):
    """(positional, keyword) arguments of the call; objs = {buffer name: object passed for it}.  Required
    arguments are positional (or keywords if meta.bykw), optional ones always keywords (the docstring signature
    lines of geru and her2k list them in another order than the ARGUMENTS sections)."""
    sp = SPECS[call["fn"]]
    val = lambda n: objs[n] if sp.kinds[n] == "mat" else call["args"][n]
    bykw = bool(call.get("meta", {}).get("bykw"))
    pos = [] if bykw else [val(n) for n in sp.required]
    kw = {n: val(n) for n in sp.required} if bykw else {}
    for n in sp.optional:
        if sp.kinds[n] == "mat" or n in call["args"]:
            kw[n] = val(n)
    return pos, kw


def to_cvxopt(buf):
    """the object passed for a buffer description (imports cvxopt lazily): dense matrix built from Python
    numbers, or a list / spmatrix / None for the 'not a matrix' conflicts"""
    from cvxopt import matrix, spmatrix
    conv = {"d": float, "z": complex, "i": int}
    kind, tc = buf.get("kind", "matrix"), buf["tc"]
    r, c = buf["size"]
    if kind == "none":
        return None
    lst = [conv[tc](v) for v in buf["data"]]
    if kind == "list":
        return lst
    if kind == "spmatrix":
        tcs = "z" if tc == "z" else "d"
        I = [t % r for t in range(r * c)] if r else []
        J = [t // r for t in range(r * c)] if r else []
        return spmatrix([conv[tcs](v) for v in lst], I, J, (r, c), tcs)
    if r * c == 0:
        return matrix(conv[tc](0), (r, c), tc)
    return matrix(lst, (r, c), tc)


def with_explicit(call, names):
    """copy of `call` with the omitted optional arguments `names` passed explicitly with their documented default"""
    r = resolve(call)
    c2 = _copy_call(call)
    for n in names:
        if n in c2["args"] or n not in r.eff or r.eff[n] is None:
            return None
        c2["args"][n] = r.eff[n]
    return c2


def omitted(call):
    sp = SPECS[call["fn"]]
    return [n for n in sp.optional if sp.kinds[n] != "mat" and n not in call["args"]]


def describe(call):
    """JSON-able short description (for journals / replays)"""
    return {"fn": call["fn"],
            "bufs": {b: {"tc": v["tc"], "size": list(v["size"]), "kind": v.get("kind", "matrix")}
                     for b, v in call["bufs"].items()},
            "args": {k: (repr(v) if isinstance(v, complex) or not isinstance(v, (int, float, str, type(None))) else v)
                     for k, v in call["args"].items()},
            "omitted": omitted(call), "meta": call.get("meta", {})}


# ---------------------------------------------------------------------------
# self-test fixtures (hand-computed); run by the check at start-up
# ---------------------------------------------------------------------------
def selftest():
    def mk(fn, bufs, args):
        return {"fn": fn, "bufs": {k: {"tc": tc, "size": sz, "data": np.array(d, dtype=_dtype(tc)), "kind": "matrix"}
                                    for k, (tc, sz, d) in bufs.items()}, "args": args, "meta": {}}
    # gbmv example of blas.rst
    c = mk("gbmv", {"A": ("d", (3, 4), [0., 1., 2., 6., -4., -3., 3., -1., 0., 1., 0., 0.]),
                    "x": ("d", (4, 1), [1., -1., 2., -2.]), "y": ("d", (3, 1), [0., 0., 0.])}, {"m": 3, "kl": 1})
    e = expected(c)
    assert e != REJECT and list(e["bufs"]["y"]) == [-5.0, 12.0, -1.0], e
    # tbsv example of blas.rst
    c = mk("tbsv", {"A": ("d", (1, 4), [-6., 5., -1., 2.]), "x": ("d", (4, 1), [1., 1., 1., 1.])}, {})
    e = expected(c)
    assert np.allclose(e["bufs"]["x"], [-1 / 6., 0.2, -1.0, 0.5])
    # axpy with negative incx: y[i] += 2*x[n-1-i]
    c = mk("axpy", {"x": ("d", (3, 1), [1., 2., 3.]), "y": ("d", (4, 1), [10., 20., 30., 40.])},
           {"alpha": 2.0, "n": 3, "incx": -1, "offsety": 1})
    e = expected(c)
    assert list(e["bufs"]["y"]) == [10., 26., 34., 42.], e["bufs"]["y"]
    assert required_len(c) == {"x": 3, "y": 4} and fits(c)
    c["args"]["offsety"] = 2
    assert expected(c) == REJECT and not fits(c)
    # default n of level 1: 1 + (len - off - 1) / |inc|
    c = mk("nrm2", {"x": ("d", (6, 1), [9., 3., 9., 4., 9., 9.])}, {"inc": 2, "offset": 1})
    e = expected(c)
    assert abs(e["ret"] - math.sqrt(9 + 16 + 81)) < 1e-14 and e["resolved"].eff["n"] == 3
    # hemv reads the lower triangle only, real part of the diagonal
    c = mk("hemv", {"A": ("z", (2, 2), [1 + 5j, 2 + 1j, 99., 3 - 7j]), "x": ("z", (2, 1), [1., 1j]),
                    "y": ("z", (2, 1), [0., 0.])}, {})
    e = expected(c)
    assert np.allclose(e["bufs"]["y"], [1 + (2 - 1j) * 1j, (2 + 1j) + 3j])
    # syrk writes the referenced triangle only
    c = mk("syrk", {"A": ("d", (2, 1), [1., 2.]), "C": ("d", (2, 2), [1., 1., 1., 1.])}, {"uplo": "U", "beta": 1.0})
    e = expected(c)
    assert list(e["bufs"]["C"]) == [2., 1., 3., 5.] and list(e["mask"]["C"]) == [True, False, True, True]
    # gemv: ldA >= max(1,m) is required although n = 0
    c = mk("gemv", {"A": ("d", (1, 1), [1.]), "x": ("d", (1, 1), [1.]), "y": ("d", (3, 1), [1., 2., 3.])},
           {"m": 3, "n": 0, "beta": 2.0})
    assert expected(c) == REJECT
    c["args"]["ldA"] = 3
    assert list(expected(c)["bufs"]["y"]) == [2., 4., 6.]
    # quick return with an otherwise illegal argument is left open
    c = mk("axpy", {"x": ("d", (0, 1), []), "y": ("d", (0, 1), [])}, {"alpha": 1j})
    assert expected(c)["verdict"] == "either"
    # type conflict
    c = mk("dot", {"x": ("d", (2, 1), [1., 2.]), "y": ("z", (2, 1), [1., 2.])}, {})
    assert expected(c) == REJECT and fits(c)
    # triangular band, upper, unit diagonal: x := A^T x
    c = mk("tbmv", {"A": ("d", (2, 3), [PAT, PAT, 2., PAT, 3., PAT]), "x": ("d", (3, 1), [1., 1., 1.])},
           {"uplo": "U", "trans": "T", "diag": "U"})
    e = expected(c)
    assert list(e["bufs"]["x"]) == [1., 3., 4.], e["bufs"]["x"]
    return True
