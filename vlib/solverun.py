"""Shared machinery to run cvxopt's cone solvers on generated Prob instances:
argument construction in every presentation, wrapper calls with capture of the
inner conelp result, numpy KKT call-back, result normalisation."""
import math, io, contextlib
import numpy as np
from vlib.oracle import cone
from vlib.oracle.cone import Dims
from vlib.gen import coneprob as gp
from vlib.conv import to_matrix, to_spmatrix, to_np, vec, bits

QUIET = {"show_progress": False}


def mk(a, sparse=False, rng=None):
    from cvxopt import matrix, spmatrix
    a = np.asarray(a, dtype=float)
    if a.ndim == 1:
        a = a.reshape(-1, 1)
    if a.size == 0:
        return spmatrix([], [], [], a.shape, "d") if sparse else matrix(0.0, a.shape, "d")
    return to_spmatrix(a, "d", keep_zero_prob=0.05 if rng is not None else 0.0, rng=rng) if sparse else to_matrix(a, "d")


def cvx_args(pr, rng, sparseG=False, sparseA=False, junk=False, sparseP=False):
    """cvxopt objects for conelp/coneqp in matrix form"""
    G = pr.G
    h = pr.h
    if junk:
        mag = rng.choice([50.0, 50.0, 0.0])          # unrelated numbers, or zeros (= lower triangle only)
        G = gp.add_junk(rng, G, pr.dims, mag)
        h = gp.add_junk(rng, h, pr.dims, mag)
    a = {"c": mk(pr.c), "G": mk(G, sparseG, rng if (sparseG and not getattr(pr, "pl", {}).get("structurally-sparse")) else None), "h": mk(h),
         "dims": pr.dims.asdict(), "A": mk(pr.A, sparseA), "b": mk(pr.b)}
    if pr.P is not None:
        P = np.array(pr.P)
        if junk:
            n = P.shape[0]
            P = np.tril(P) + (np.triu(np.array([[rng.uniform(-50, 50) for _ in range(n)] for _ in range(n)]), 1) if rng.random() < 0.6 else 0.0)
        a["P"] = mk(P, sparseP)
        a["q"] = mk(pr.q)
    return a


def split_blocks(v, dims):
    """numpy vector in unpacked storage -> (vl, [vq...], [vs... as m x m])"""
    v = np.asarray(v, dtype=float).ravel()
    vl = v[:dims.l]
    ind = dims.l
    vq, vs = [], []
    for m in dims.q:
        vq.append(v[ind:ind + m]); ind += m
    for m in dims.s:
        vs.append(v[ind:ind + m * m].reshape((m, m), order="F")); ind += m * m
    return vl, vq, vs


def wrapper_args(entry, pr, rng, sparse=False, junk=False, sparse_h=False):
    """arguments of lp / socp / sdp for a Prob whose dims fit the entry point"""
    d = pr.dims
    mag = rng.choice([50.0, 50.0, 0.0]) if junk else 0.0
    G = gp.add_junk(rng, pr.G, d, mag) if junk else pr.G
    h = gp.add_junk(rng, pr.h, d, mag) if junk else pr.h
    a = {"c": mk(pr.c), "A": mk(pr.A, sparse and rng.random() < 0.5), "b": mk(pr.b)}
    if entry == "lp":
        a["G"] = mk(G, sparse); a["h"] = mk(h)
        return a
    a["Gl"] = mk(G[:d.l], sparse); a["hl"] = mk(h[:d.l])
    ind = d.l
    if entry == "socp":
        a["Gq"], a["hq"] = [], []
        for m in d.q:
            a["Gq"].append(mk(G[ind:ind + m], sparse)); a["hq"].append(mk(h[ind:ind + m], sparse_h)); ind += m
    else:
        a["Gs"], a["hs"] = [], []
        for m in d.s:
            a["Gs"].append(mk(G[ind:ind + m * m], sparse))
            a["hs"].append(mk(h[ind:ind + m * m].reshape((m, m), order="F"), sparse_h)); ind += m * m
    return a


def start_dicts(entry, pr, which, rng):
    """valid start points built from the planted interior point / fresh interior
    points (documented requirement: s, z strictly inside the cone)"""
    d = pr.dims
    ps = ds = None
    pl = getattr(pr, "pl", {})
    if which in ("primal", "both"):
        x0 = pl["x"] if "x" in pl and pr.kind == "feasible" else np.array([rng.uniform(-1, 1) for _ in range(pr.n)])
        s0 = pl["s"] if "s" in pl and pr.kind == "feasible" else cone.symmetrize(cone.random_interior(rng, d), d)
        if rng.random() < 0.4:   # an interior point that is NOT feasible is still a valid start
            x0 = x0 + np.array([rng.uniform(-0.5, 0.5) for _ in range(pr.n)])
            s0 = cone.symmetrize(cone.random_interior(rng, d), d)
        ps = {"x": x0, "s": s0}
    if which in ("dual", "both"):
        y0 = pl["y"] if "y" in pl and pr.kind == "feasible" else np.array([rng.uniform(-1, 1) for _ in range(pr.p)])
        z0 = pl["z"] if "z" in pl and pr.kind == "feasible" else cone.symmetrize(cone.random_interior(rng, d), d)
        if rng.random() < 0.4:
            z0 = cone.symmetrize(cone.random_interior(rng, d), d)
        ds = {"y": y0, "z": z0}

    def conv(dct, keys):
        if dct is None:
            return None
        out = {keys[0]: mk(dct[keys[0]])}
        v = dct[keys[1]]
        if entry in ("conelp", "lp", "coneqp", "qp"):
            out[keys[1]] = mk(v)
        else:
            vl, vq, vs = split_blocks(v, d)
            out[keys[1] + "l"] = mk(vl)
            if entry == "socp":
                out[keys[1] + "q"] = [mk(t) for t in vq]
            else:
                out[keys[1] + "s"] = [mk(t) for t in vs]
        return out
    return conv(ps, ("x", "s")), conv(ds, ("y", "z")), ps, ds


# ---------------------------------------------------------------------------
# the oracle's own KKT solver (documented system, numpy) usable as kktsolver=
# ---------------------------------------------------------------------------

def pack_unpack_mats(dims):
    """Pk (Np x N, reads lower triangle, isometric) and Uk (N x Np, symmetric fill)"""
    N, Np = dims.N, dims.Np
    Uk = gp.unpack_iso(np.eye(Np), dims) if Np else np.zeros((N, 0))
    # Pk: apply pack_iso to identity columns restricted to the lower triangle
    Pk = np.zeros((Np, N))
    for j in range(N):
        e = np.zeros(N); e[j] = 1.0
        Pk[:, j] = gp.pack_iso(e, dims)[:, 0]
    # entries of strict upper triangles are never read by pack_iso: columns are zero there
    return Pk, Uk


class NumpyKKT:
    """kktsolver(W) -> f(x, y, z) for conelp / coneqp in matrix form.
    Solves  [P A' G'; A 0 0; G 0 -W'W] [ux;uy;uz] = [bx;by;bz]  in packed
    isometric coordinates and returns ux, uy, W*uz (unpacked, symmetric)."""
    def __init__(self, pr, on_call=None, fail_at=None):
        self.dims = pr.dims
        D = pr.dims
        self.Pk, self.Uk = pack_unpack_mats(D)
        self.Gp = gp.pack_iso(pr.G, D) if pr.G.shape[1] else np.zeros((D.Np, 0))
        self.A = np.asarray(pr.A, dtype=float).reshape(-1, pr.G.shape[1])
        self.P = None
        if pr.P is not None:
            self.P = np.tril(pr.P) + np.tril(pr.P, -1).T
        self.nfactor = 0
        self.nsolve = 0
        self.on_call = on_call
        self.Ws = []

    def __call__(self, W):
        from cvxopt import matrix
        self.nfactor += 1
        Wn = cone.npW(W)
        if self.on_call:
            self.on_call(W, Wn)
        D = self.dims
        n, p, Np = self.Gp.shape[1], self.A.shape[0], D.Np
        try:
            Wm = cone.W_matrix(Wn)                  # N x N on symmetric unpacked vectors
            Wmi = cone.W_matrix(Wn, inverse="I")
        except np.linalg.LinAlgError:
            raise ArithmeticError("singular scaling")
        Wp = self.Pk @ Wm @ self.Uk                 # packed isometric coordinates
        Wpi = self.Pk @ Wmi @ self.Uk
        Gs = Wpi.T @ self.Gp                        # W^{-T} G
        S = Gs.T @ Gs
        if self.P is not None:
            S = S + self.P
        K = np.zeros((n + p, n + p))
        K[:n, :n] = S; K[:n, n:] = self.A.T; K[n:, :n] = self.A
        if K.size:
            if not np.all(np.isfinite(K)):
                raise ArithmeticError("non-finite KKT matrix")
            try:
                Kinv = np.linalg.inv(K)
            except np.linalg.LinAlgError:
                raise ArithmeticError("singular KKT matrix")
            if not np.all(np.isfinite(Kinv)):
                raise ArithmeticError("singular KKT matrix")
        else:
            Kinv = K
        outer = self

        def f(x, y, z):
            outer.nsolve += 1
            bx, by = vec(x), vec(y)
            bz = (outer.Pk @ vec(z)) if Np else np.zeros(0)
            # uz = (W'W)^{-1} (G ux - bz);  (S) ux + A' uy = bx + G' (W'W)^{-1} bz
            wbz = Wpi.T @ bz                         # W^{-T} bz
            rhs = np.concatenate([bx + Gs.T @ wbz, by])
            u = Kinv @ rhs if K.size else rhs
            ux, uy = u[:n], u[n:]
            wuz = Gs @ ux - wbz                      # W uz = W^{-T}(G ux - bz)
            wz = outer.Uk @ wuz if Np else np.zeros(D.N)
            for i in range(n): x[i] = float(ux[i])
            for i in range(p): y[i] = float(uy[i])
            for i in range(D.N): z[i] = float(wz[i])
        return f


# ---------------------------------------------------------------------------
# calling the entry points
# ---------------------------------------------------------------------------

class ConelpSpy:
    """wraps coneprog.conelp / coneqp (module globals the wrappers call) and keeps
    a shallow copy of the inner result"""
    def __init__(self, name="conelp"):
        from cvxopt import coneprog
        self.mod, self.name = coneprog, name
        self.orig = getattr(coneprog, name)
        self.captured = []

    def __enter__(self):
        def spy(*a, **k):
            r = self.orig(*a, **k)
            self.captured.append(dict(r))
            return r
        setattr(self.mod, self.name, spy)
        return self

    def __exit__(self, *exc):
        setattr(self.mod, self.name, self.orig)


def normalise(entry, sol, dims):
    """result of lp/socp/sdp -> conelp-shaped dict with numpy-compatible 's','z'
    assembled from the wrapper pieces (column-major)"""
    if entry in ("conelp", "lp", "coneqp", "qp"):
        return sol
    out = dict(sol)
    for v in ("s", "z"):
        vl = sol.get(v + "l")
        vb = sol.get(v + ("q" if entry == "socp" else "s"))
        if vl is None and vb is None:
            out[v] = None
        else:
            parts = list(vl) if vl is not None else []
            for blk in (vb or []):
                parts += list(blk)
            out[v] = parts
    return out


class poisoned_globals_if_empty(object):
    """with poisoned_globals_if_empty(options): ...  - while a solver runs with an EMPTY per-call options dictionary
    the module-level solvers.options hold loose tolerances: a solver that falls back to the globals
    ('options = kwargs.get("options") or globals()["options"]') no longer meets the default tolerances"""
    def __init__(self, options):
        self.on = options is not None and len(options) == 0
    def __enter__(self):
        if self.on:
            from cvxopt import solvers
            self.saved = dict(solvers.options)
            solvers.options.clear()
            solvers.options.update({"show_progress": False, "feastol": 1e-2, "abstol": 1e-2, "reltol": 1e-1})
        return self
    def __exit__(self, *a):
        if self.on:
            from cvxopt import solvers
            solvers.options.clear(); solvers.options.update(self.saved)
        return False


def call_entry(entry, pr, args, kktsolver=None, ps=None, ds=None, options=None, solver=None):
    """returns (sol, inner, exc)"""
    from cvxopt import solvers
    kw = {}
    if options is not None:
        kw["options"] = options
    inner = None
    saved_globals = None
    if options is not None and len(options) == 0:
        saved_globals = dict(solvers.options)
        solvers.options.clear()
        solvers.options.update({"show_progress": False, "feastol": 1e-2, "abstol": 1e-2, "reltol": 1e-1})
    try:
        return _call_entry(entry, pr, args, kktsolver, ps, ds, solver, kw)
    finally:
        if saved_globals is not None:
            solvers.options.clear(); solvers.options.update(saved_globals)


def _call_entry(entry, pr, args, kktsolver, ps, ds, solver, kw):
    from cvxopt import solvers
    inner = None
    try:
        if entry == "conelp":
            sol = solvers.conelp(args["c"], args["G"], args["h"], args["dims"], args["A"], args["b"],
                                 primalstart=ps, dualstart=ds, kktsolver=kktsolver, **kw)
        elif entry == "lp":
            with ConelpSpy() as spy:
                sol = solvers.lp(args["c"], args["G"], args["h"], args["A"], args["b"], kktsolver=kktsolver,
                                 solver=solver, primalstart=ps, dualstart=ds, **kw)
            inner = spy.captured[-1] if spy.captured else None
        elif entry == "socp":
            with ConelpSpy() as spy:
                sol = solvers.socp(args["c"], args["Gl"], args["hl"], args["Gq"], args["hq"], args["A"], args["b"],
                                   kktsolver=kktsolver, solver=solver, primalstart=ps, dualstart=ds, **kw)
            inner = spy.captured[-1] if spy.captured else None
        elif entry == "sdp":
            with ConelpSpy() as spy:
                sol = solvers.sdp(args["c"], args["Gl"], args["hl"], args["Gs"], args["hs"], args["A"], args["b"],
                                  kktsolver=kktsolver, solver=solver, primalstart=ps, dualstart=ds, **kw)
            inner = spy.captured[-1] if spy.captured else None
        elif entry == "coneqp":
            iv = None
            if ps or ds:
                iv = {}
                iv.update(ps or {}); iv.update(ds or {})
            sol = solvers.coneqp(args["P"], args["q"], args["G"], args["h"], args["dims"], args["A"], args["b"],
                                 initvals=iv, kktsolver=kktsolver, **kw)
        elif entry == "qp":
            iv = None
            if ps or ds:
                iv = {}
                iv.update(ps or {}); iv.update(ds or {})
            with ConelpSpy("coneqp") as spy:
                sol = solvers.qp(args["P"], args["q"], args["G"], args["h"], args["A"], args["b"], solver=solver,
                                 kktsolver=kktsolver, initvals=iv, **kw)
            inner = spy.captured[-1] if spy.captured else None
        else:
            raise ValueError(entry)
        return sol, inner, None
    except Exception as e:      # judged by the caller
        return None, inner, e


def wrapper_blocks_exact(J, entry, sol, inner, dims):
    """sl/sq/ss, zl/zq/zs are exactly (bitwise) the blocks of the inner s and z"""
    if inner is None:
        return
    for v in ("s", "z"):
        full = inner.get(v)
        vl = sol.get(v + "l")
        key = "q" if entry == "socp" else "s"
        vb = sol.get(v + key)
        if full is None:
            J.req(vl is None and vb is None, "wrapper-%s-not-None" % v, "%sl/%s%s must be None when %s is None" % (v, v, key, v))
            continue
        fl = list(full)
        if not J.req(vl is not None and vb is not None, "wrapper-%s-missing" % v, "wrapper pieces missing"):
            continue
        J.req(list(vl) == fl[:dims.l] and vl.size == (dims.l, 1), "wrapper-%sl-block" % v, "%sl is not the 'l' block of %s" % (v, v))
        ind = dims.l
        sizes = dims.q if entry == "socp" else dims.s
        J.req(len(vb) == len(sizes), "wrapper-%s-count" % v, "number of %s%s blocks" % (v, key))
        for k, m in enumerate(sizes):
            ln = m if entry == "socp" else m * m
            want_size = (m, 1) if entry == "socp" else (m, m)
            if k < len(vb):
                J.req(list(vb[k]) == fl[ind:ind + ln] and vb[k].size == want_size, "wrapper-%s%s-block" % (v, key),
                      "%s%s[%d] is not block %d of %s (or has the wrong shape %r)" % (v, key, k, k, v, vb[k].size))
            ind += ln
