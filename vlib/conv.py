"""numpy <-> cvxopt conversions used by the harness.  The oracle's own data is
always generated in numpy first; cvxopt objects are built from Python lists so
that no cvxopt arithmetic is trusted for producing the reference."""
import numpy as np


def to_matrix(a, tc="d"):
    from cvxopt import matrix
    a = np.asarray(a)
    if a.ndim == 1:
        a = a.reshape((-1, 1))
    m, n = a.shape
    conv = {"d": float, "i": int, "z": complex}[tc]
    return matrix([conv(v) for v in a.reshape(-1, order="F")], (m, n), tc)


def to_spmatrix(a, tc="d", keep_zero_prob=0.0, rng=None):
    """sparse copy of a dense numpy array (zeros dropped; optionally a few
    explicit zeros stored)"""
    from cvxopt import spmatrix
    a = np.asarray(a)
    if a.ndim == 1:
        a = a.reshape((-1, 1))
    m, n = a.shape
    I, J, V = [], [], []
    conv = {"d": float, "z": complex}[tc]
    for j in range(n):
        for i in range(m):
            if a[i, j] != 0 or (rng is not None and keep_zero_prob and rng.random() < keep_zero_prob):
                I.append(i); J.append(j); V.append(conv(a[i, j]))
    return spmatrix(V, I, J, (m, n), tc)


def to_np(x):
    """dense numpy copy (2-D, same orientation) of a cvxopt matrix/spmatrix"""
    tn = type(x).__name__
    if tn == "spmatrix":
        m, n = x.size
        out = np.zeros((m, n), dtype=complex if x.typecode == "z" else float)
        I, J, V = list(x.I), list(x.J), list(x.V)
        for i, j, v in zip(I, J, V):
            out[i, j] += v
        return out
    m, n = x.size
    dt = {"d": float, "i": np.int64, "z": complex}[x.typecode]
    return np.array(list(x), dtype=dt).reshape((m, n), order="F")


def vec(x):
    """1-D numpy copy in column-major order"""
    return to_np(x).reshape(-1, order="F")


def bits(x):
    """byte image of a dense matrix / structural image of a sparse one"""
    tn = type(x).__name__
    if tn == "spmatrix":
        return ("sp", x.size, x.typecode, tuple(x.I), tuple(x.J), bytes(memoryview(x.V)))
    if tn == "matrix":
        return ("m", x.size, x.typecode, bytes(memoryview(x)))
    return repr(x)
