"""C20  Matrices survive serialisation, copying and buffer exchange unchanged.

Scenario classes (one per case, chosen round-robin + at random):
  pickle / copy / deepcopy round trips of dense ('i','d','z', all shapes incl. empty, special
      floats, full int64 range) and sparse matrices (explicit zeros, empty columns/rows, zero
      dimensions), every pickle protocol 0..5, also nested in containers;
  tofile / fromfile through real files in the scratch cwd and io.BytesIO, several matrices in
      one file (the manual's V, I, J example);
  import: matrix(obj[, size[, tc]]) and indexed assignment from array.array, bytes, bytearray,
      memoryview (cast to 2-D, strided slices), ctypes arrays, numpy arrays (int32/int64/float64/
      complex128 and unsupported dtypes, C/F order, negative and non-unit strides, 0-size, 0-d,
      1-D, 2-D, 3-D) against numpy.asarray semantics;
  export: memoryview(A) format/shape/strides, write-through in both directions, lifetime of the
      view after every other reference is dropped and memory is churned, release / re-export
      histories interleaved with mutations;
  aliasing: matrix(x), +x, slices are independent copies; B = A, in-place operators and
      memoryview alias the same storage (dense and sparse)."""
import math

LEVEL = "exploration"
TECHNIQUE = "round-trip and differential testing against numpy.asarray / struct packing, lifetime probing under ASan and guard pages"
LEVEL_TEXT = ("randomised round trips (pickle, copy, tofile/fromfile, buffer import/export) compared bit for bit "
              "with the source object or numpy's view of it; exported buffers probed after the exporter is dropped")
RULE = ("each case = one scenario (class x typecode x shape class x source kind / protocol / history); "
        "distinct = scenario class x sub-kind x typecode x shape class")
ASSUMPTIONS = [
    "buffer formats whose support the manual does not state (everything except C int / long / double / "
    "complex double items, e.g. float32, int16, uint8 bytes, ctypes' '<d') must either raise TypeError or be "
    "imported with numpy.asarray's values; both outcomes are accepted",
    "a 2-D buffer on the right-hand side of an indexed assignment whose shape differs from the addressed block "
    "but whose element count matches is not judged",
    "NaN payloads are not compared (a NaN must come back as a NaN); the sign of zero and every other bit is",
    "exported 'i' matrices may announce format 'l' or 'q' (both 8-byte signed on this platform)",
    "io.BytesIO is judged only when tofile/fromfile accept it",
    "lifetime violations are certain to be seen only in the asan and guard worker groups; the plain group "
    "detects them when the freed block is reused by the churn allocations",
]
REQUIRED_COUNTERS = [
    "c20.scenario.pickle-dense", "c20.scenario.pickle-sparse", "c20.scenario.copy", "c20.scenario.file",
    "c20.scenario.import-matrix", "c20.scenario.import-setitem", "c20.scenario.export", "c20.scenario.lifetime",
    "c20.scenario.history", "c20.scenario.alias-dense", "c20.scenario.alias-sparse",
    "c20.pickle.protocol.0", "c20.pickle.protocol.1", "c20.pickle.protocol.2", "c20.pickle.protocol.3",
    "c20.pickle.protocol.4", "c20.pickle.protocol.5",
    "c20.tc.i", "c20.tc.d", "c20.tc.z", "c20.shape.empty", "c20.sparse.explicit-zero", "c20.sparse.empty-column",
    "c20.import.source.array", "c20.import.source.memoryview-2d", "c20.import.source.memoryview-strided",
    "c20.import.source.numpy-C", "c20.import.source.numpy-F", "c20.import.source.numpy-negative-stride",
    "c20.import.source.numpy-nonunit-stride", "c20.import.source.ctypes", "c20.import.source.bytes",
    "c20.import.outcome.converted", "c20.import.outcome.TypeError", "c20.import.supported-format",
    "c20.import.unsupported-format", "c20.import.rejected-then-released", "c20.file.real", "c20.file.bytesio", "c20.export.write-through",
    "c20.lifetime.view-outlives-matrix",
]
WATCHDOG = {"quick": 600, "thorough": 3000}


def plan(tier):
    if tier == "thorough":
        return [{"variant": "plain", "workers": 10, "cases": 16000, "name": "plain"},
                {"variant": "asan", "workers": 3, "cases": 2000, "name": "asan"},
                {"variant": "guard", "workers": 3, "cases": 3000, "name": "guard"}]
    return [{"variant": "plain", "workers": 5, "cases": 800, "name": "plain"},
            {"variant": "asan", "workers": 1, "cases": 150, "name": "asan"},
            {"variant": "guard", "workers": 1, "cases": 300, "name": "guard"}]


SCENARIOS = ["pickle-dense", "pickle-sparse", "copy", "file", "import-matrix", "import-matrix", "import-setitem",
             "export", "lifetime", "history", "alias-dense", "alias-sparse"]


def run(ctx):
    import os, io, gc, copy, pickle, struct, array, ctypes
    import numpy as np
    from cvxopt import matrix, spmatrix, sparse
    from vlib.oracle import ccs as CCS
    from vlib.oracle import refmat as R

    assert CCS.selftest()
    np.seterr(all="ignore")
    FMT = {"i": "q", "d": "d", "z": "dd"}
    ITEM = {"i": 8, "d": 8, "z": 16}

    # ---------------------------------------------------------------- values
    SPECIAL_D = [0.0, -0.0, 1.0, -1.0, float("inf"), float("-inf"), float("nan"), 5e-324, 2.2250738585072014e-308,
                 1.7976931348623157e308, 1e-310, 0.1, 1 / 3.0, 2.0 ** 53 + 2]
    SPECIAL_I = [0, 1, -1, 2 ** 31 - 1, -2 ** 31, 2 ** 31, 2 ** 53, 2 ** 53 + 1, 2 ** 63 - 1, -2 ** 63, 2 ** 62, -2 ** 62 - 1]

    def rval(rng, tc, special=0.25):
        if tc == "i":
            return rng.choice(SPECIAL_I) if rng.random() < special else rng.randint(-1000, 1000)
        if tc == "d":
            return rng.choice(SPECIAL_D) if rng.random() < special else rng.choice([rng.uniform(-10, 10), rng.gauss(0, 1e6), rng.randint(-5, 5) / 4.0])
        return complex(rval(rng, "d", special), rval(rng, "d", special))

    def rshape(rng):
        k = rng.random()
        if k < 0.22:
            return rng.choice([(0, 0), (0, 1), (1, 0), (0, 3), (4, 0)])
        if k < 0.35:
            return (1, 1)
        if k < 0.5:
            return rng.choice([(1, rng.randint(2, 6)), (rng.randint(2, 6), 1)])
        return (rng.randint(1, 6), rng.randint(1, 6))

    def shape_class(s):
        if s[0] * s[1] == 0:
            return "empty"
        if s == (1, 1):
            return "1x1"
        if 1 in s:
            return "vector"
        return "matrix"

    def rdense(rng, tc=None, shape=None, special=0.25):
        tc = tc or rng.choice("idz")
        m, n = shape or rshape(rng)
        vals = [rval(rng, tc, special) for _ in range(m * n)]
        ctx.count("c20.tc." + tc)
        if m * n == 0:
            ctx.count("c20.shape.empty")
        return matrix(vals, (m, n), tc), vals

    def rsparse(rng, tc=None, shape=None):
        tc = tc or rng.choice("dz")
        m, n = shape or rshape(rng)
        ctx.count("c20.tc." + tc)
        if m * n == 0:
            ctx.count("c20.shape.empty")
            return spmatrix([], [], [], (m, n), tc), []
        style = rng.choice(["random", "random", "explicit-zero", "explicit-zero", "empty-column", "empty", "full"])
        cells = [(i, j) for j in range(n) for i in range(m)]
        if style == "empty":
            pick = []
        elif style == "full":
            pick = cells
        elif style == "empty-column":
            keepcols = [j for j in range(n) if rng.random() < 0.5]
            pick = [c_ for c_ in cells if c_[1] in keepcols and rng.random() < 0.7]
        else:
            pick = [c_ for c_ in cells if rng.random() < 0.4]
        trip = []
        for (i, j) in pick:
            v = rval(rng, tc, 0.2)
            if style == "explicit-zero" and rng.random() < 0.4:
                v = 0.0 if tc == "d" else 0j
            trip.append((i, j, v))
        cols = set(t[1] for t in trip)
        if len(cols) < n:
            ctx.count("c20.sparse.empty-column")
        order = list(trip)
        rng.shuffle(order)
        if any(t[2] == 0 for t in trip) and rng.random() < 0.5:
            # explicit zeros stored through the V attribute: the source object then has them whatever the
            # triplet constructor (which __reduce__ goes through) does with zero values
            A = spmatrix([1.0] * len(order), [t[0] for t in order], [t[1] for t in order], (m, n), tc)
            if len(A.V) == len(trip):
                A.V = matrix([t[2] for t in trip], (len(trip), 1), tc)
            ctx.count("c20.sparse.source-values-via-V")
        else:
            A = spmatrix([t[2] for t in order], [t[0] for t in order], [t[1] for t in order], (m, n), tc)
        # the source object itself must be what was asked for (otherwise the round trips below say nothing
        # about explicit zeros): counted from the object, not from the request
        got = list(zip(A.I, A.J, A.V))
        if [(i, j) for i, j, _ in got] != [(i, j) for i, j, _ in trip] or \
                not same_vals([v for _, _, v in got], [(float(v) if tc == "d" else complex(v)) for _, _, v in trip], tc):
            ctx.count("c20.sparse.source-differs-from-request")
            trip = got
        if any(v == 0 for _, _, v in got):
            ctx.count("c20.sparse.explicit-zero")
        return A, trip          # trip is in column-major order

    # ---------------------------------------------------------------- comparison
    def bits(x, tc):
        if tc == "i":
            return struct.pack("q", x)
        if tc == "d":
            return b"nan" if x != x else struct.pack("d", x)
        return bits(x.real, "d") + bits(x.imag, "d")

    def same_vals(a, b, tc):
        return len(a) == len(b) and all(type(x) is type(y) and bits(x, tc) == bits(y, tc) for x, y in zip(a, b))

    def kind(o):
        return R.kind_of(o)

    def dense_state(A):
        return ("dense", A.typecode, A.size, [bits(x, A.typecode) for x in A])

    def sparse_state(A):
        return ("sparse", A.typecode, A.size, list(A.I), list(A.J), [bits(x, A.typecode) for x in A.V])

    def state(A):
        return dense_state(A) if kind(A) == "dense" else sparse_state(A)

    def require_same(c, key, what, A, B):
        """B must reproduce A exactly"""
        c.check()
        if kind(B) != kind(A):
            c.fail(key + ":type", "%s: got %s for a %s matrix" % (what, type(B).__name__, kind(A)))
            return False
        if B.typecode != A.typecode:
            c.fail(key + ":typecode", "%s: typecode %s -> %s" % (what, A.typecode, B.typecode))
            return False
        if B.size != A.size:
            c.fail(key + ":size", "%s: size %s -> %s" % (what, A.size, B.size))
            return False
        if kind(A) == "dense":
            if not same_vals(list(A), list(B), A.typecode):
                c.fail(key + ":value", "%s: values differ" % what, before=A, after=B)
                return False
            return True
        sa, sb = sparse_state(A), sparse_state(B)
        if (sa[3], sa[4]) != (sb[3], sb[4]):
            za = set((i, j) for i, j, v in zip(A.I, A.J, A.V) if v == 0)
            lost = za - set(zip(B.I, B.J))
            c.fail(key + (":explicit-zero-dropped" if lost else ":pattern"),
                   "%s: triplet structure differs%s" % (what, " (explicit zeros %s lost)" % sorted(lost) if lost else ""),
                   before=A, after=B)
            return False
        if sa[5] != sb[5]:
            c.fail(key + ":value", "%s: stored values differ" % what, before=A, after=B)
            return False
        probs = CCS.check(B)
        if probs:
            c.fail(key + ":" + probs[0][0], "%s: result violates the CCS invariants: %s" % (what, probs[0][1]))
            return False
        return True

    def mutate(rng, A):
        """change one stored element of A (returns False if there is none)"""
        if kind(A) == "dense":
            if len(A) == 0:
                return False
            k = rng.randrange(len(A))
            old = A[k]
            new = {"i": 12345, "d": 0.015625, "z": 3 - 4j}[A.typecode]
            A[k] = new if bits(old, A.typecode) != bits(new, A.typecode) else new * 2
            return True
        if len(A) == 0:
            return False
        V = A.V
        k = rng.randrange(len(V))
        new = {"d": 0.015625, "z": 3 - 4j}[A.typecode]
        V[k] = new if bits(V[k], A.typecode) != bits(new, A.typecode) else new * 2
        A.V = V
        return True

    def independent(c, rng, key, what, A, B):
        """A and B must not share storage"""
        sa, sb = state(A), state(B)
        c.check()
        if B is A:
            c.fail(key + ":same-object", "%s returned the operand itself" % what)
            return
        if mutate(rng, B):
            if state(A) != sa:
                c.fail(key + ":shares-storage", "%s: writing into the copy changed the original" % what)
                return
            sb = state(B)
        if mutate(rng, A):
            if state(B) != sb:
                c.fail(key + ":shares-storage", "%s: writing into the original changed the copy" % what)

    # ---------------------------------------------------------------- scenarios
    def sc_pickle(c, rng, sparse_):
        if sparse_ and rng.random() < 0.12:
            return sc_tall_sparse(c, rng)
        if sparse_:
            A, _ = rsparse(rng)
        else:
            A, _ = rdense(rng)
        proto = rng.randrange(6)
        ctx.count("c20.pickle.protocol.%d" % proto)
        wrap = rng.choice(["bare", "bare", "list", "dict", "twice"])
        c.cls("pickle", "sparse" if sparse_ else "dense", A.typecode, shape_class(A.size), proto, wrap)
        c.desc.update({"what": "pickle", "protocol": proto, "wrap": wrap, "object": A})
        obj = {"bare": A, "list": [A, 1, A], "dict": {"a": A}, "twice": A}[wrap]
        key = "pickle:" + ("sparse" if sparse_ else "dense")
        try:
            data = pickle.dumps(obj, proto)
            back = pickle.loads(data)
            if wrap == "twice":
                back = pickle.loads(pickle.dumps(back, (proto + 1) % 6))
        except Exception as e:      # noqa
            c.check()
            c.fail(key + ":exception", "pickle protocol %d raised %s: %s" % (proto, type(e).__name__, e))
            return
        B = {"bare": lambda: back, "list": lambda: back[0], "dict": lambda: back["a"], "twice": lambda: back}[wrap]()
        if not require_same(c, key, "pickle protocol %d (%s)" % (proto, wrap), A, B):
            return
        if wrap == "list":
            c.require(back[0] is back[2], key + ":identity-in-container", "two references to one matrix unpickled as two objects")
        independent(c, rng, key, "unpickling", A, B)
        # via a file object, as the manual suggests (dump/load)
        f = io.BytesIO()
        pickle.dump(A, f, proto)
        f.seek(0)
        require_same(c, key + ":dump-load", "pickle.dump/load", A, pickle.load(f))

    def sc_tall_sparse(c, rng):
        """sparse dimensions are Py_ssize_t: a matrix with 2^31 .. 2^40 rows and a handful of entries is a valid, cheap object"""
        tc = rng.choice("dz")
        m = rng.choice([2**31 - 1, 2**31 + 5, 2**32 + 4, 2**33, 2**40])
        n = rng.randint(1, 3)
        k = rng.randint(0, 4)
        trip = {}
        for _ in range(k):
            trip[(rng.choice([0, 3, 17, m - 1, m // 2, rng.randrange(m)]), rng.randrange(n))] = rval(rng, tc, 0.2)
        keys = sorted(trip)
        tall_cols = rng.random() < 0.3
        size = (n, m) if tall_cols and not keys else (m, n)       # many columns only without entries (colptr has n+1 words)
        if size[1] > 2**20:
            size = (m, n)
        A = spmatrix([trip[t] for t in keys], [t[0] for t in keys], [t[1] for t in keys], size, tc)
        how = rng.choice(["pickle", "pickle", "copy", "deepcopy"])
        proto = rng.randrange(6)
        ctx.count("c20.tall-sparse." + how)
        c.cls("tall-sparse", how, tc, "2^%d" % (m.bit_length() - 1), len(keys))
        c.desc.update({"what": "tall sparse " + how, "size": size, "nnz": len(keys), "protocol": proto})
        try:
            B = pickle.loads(pickle.dumps(A, proto)) if how == "pickle" else copy.copy(A) if how == "copy" else copy.deepcopy(A)
        except Exception as e:      # noqa
            c.check()
            c.fail("%s:sparse:exception-beyond-int32-dimension" % how, "%s of a %s sparse matrix raised %s: %s" % (how, size, type(e).__name__, e))
            return
        require_same(c, "%s:sparse:beyond-int32-dimension" % how, how, A, B)

    def sc_copy(c, rng):
        if rng.random() < 0.12:
            return sc_tall_sparse(c, rng)
        A, _ = rsparse(rng) if rng.random() < 0.5 else rdense(rng)
        how = rng.choice(["copy", "deepcopy", "deepcopy-nested"])
        c.cls("copy", how, kind(A), A.typecode, shape_class(A.size))
        c.desc.update({"what": how, "object": A})
        try:
            if how == "copy":
                B = copy.copy(A)
            elif how == "deepcopy":
                B = copy.deepcopy(A)
            else:
                nest = copy.deepcopy({"k": [A, (A,)]})
                B = nest["k"][0]
                c.require(nest["k"][1][0] is B, "deepcopy:memo", "deepcopy did not keep two references to one matrix identical")
        except Exception as e:      # noqa
            c.check()
            c.fail("%s:exception" % how.split("-")[0], "%s raised %s: %s" % (how, type(e).__name__, e))
            return
        k = how.split("-")[0] + ":" + kind(A)
        if require_same(c, k, how, A, B):
            independent(c, rng, k, how, A, B)

    def sc_file(c, rng):
        """tofile / fromfile; several matrices in one file"""
        real = rng.random() < 0.5
        ctx.count("c20.file.real" if real else "c20.file.bytesio")
        n = rng.choice([1, 1, 2, 3])
        mats = [rdense(rng, special=0.3)[0] for _ in range(n)]
        sparse_case = rng.random() < 0.25
        if sparse_case:
            S, _ = rsparse(rng)
            mats = [S.V, S.I, S.J]
        c.cls("file", "real" if real else "bytesio", "sparse-VIJ" if sparse_case else "".join(m.typecode for m in mats),
              "+".join(sorted(set(shape_class(m.size) for m in mats))))
        c.desc.update({"what": "tofile/fromfile", "real_file": real, "objects": mats})
        name = "c20-%d-%d.bin" % (ctx.worker, c.k)
        key = "file:" + ("real" if real else "bytesio")
        try:
            f = open(name, "wb") if real else io.BytesIO()
            for M in mats:
                M.tofile(f)
            if real:
                f.close()
                raw = open(name, "rb").read()
            else:
                raw = f.getvalue()
        except TypeError as e:
            if not real:
                ctx.count("c20.file.bytesio-unsupported")
                return
            c.check(); c.fail(key + ":tofile-exception", "tofile raised %s: %s" % (type(e).__name__, e)); return
        except Exception as e:      # noqa
            c.check(); c.fail(key + ":tofile-exception", "tofile raised %s: %s" % (type(e).__name__, e)); return
        want = b"".join(b"".join(struct.pack(FMT[M.typecode], *((x.real, x.imag) if M.typecode == "z" else (x,))) for x in M)
                        for M in mats)
        # compare through NaN-insensitive route: bytes must be the column-major element images
        c.check()
        if len(raw) != len(want):
            c.fail(key + ":file-length", "file has %d bytes, the matrices have %d" % (len(raw), len(want)))
            return
        outs = []
        try:
            g = open(name, "rb") if real else io.BytesIO(raw)
            for M in mats:
                # "Reads the contents of a binary file f into the matrix object": any shape with as many elements
                m_, n_ = M.size
                if m_ * n_ and rng.random() < 0.4:
                    d = rng.choice([t for t in range(1, m_ * n_ + 1) if (m_ * n_) % t == 0])
                    shp = (d, m_ * n_ // d)
                else:
                    shp = (m_, n_)
                B = matrix({"i": 7, "d": 7.0, "z": 7j}[M.typecode], shp, M.typecode)
                B.fromfile(g)
                outs.append(B)
            rest = g.read()
            g.close()
        except Exception as e:      # noqa
            c.check(); c.fail(key + ":fromfile-exception", "fromfile raised %s: %s" % (type(e).__name__, e)); return
        finally:
            if real and os.path.exists(name):
                os.remove(name)
        c.require(rest == b"", key + ":fromfile-position", "fromfile left %d unread bytes" % len(rest))
        for M, B in zip(mats, outs):
            c.check()
            if not same_vals(list(M), list(B), M.typecode):
                c.fail(key + ":value", "tofile/fromfile changed the values", before=M, after=B)
                return
        if sparse_case:
            T = spmatrix(outs[0], outs[1], outs[2], S.size, S.typecode)
            require_same(c, "file:sparse-VIJ", "V/I/J through a file", S, T)
        # a file that is too short must not be accepted silently
        if mats and len(mats[0]) > 0 and rng.random() < 0.3:
            M = mats[0]
            B = matrix(M)
            before = dense_state(B)
            short = io.BytesIO(raw[:ITEM[M.typecode] * len(M) - 1]) if not real else None
            if short is not None:
                c.check()
                try:
                    B.fromfile(short)
                    c.fail(key + ":short-file-accepted", "fromfile accepted a file that is one byte short")
                except Exception:       # noqa: class not documented
                    ctx.count("c20.file.short-raises")

    # ---- buffer sources --------------------------------------------------------
    NP_SUPPORTED = {"int32": "i", "int64": "i", "float64": "d", "complex128": "z"}

    def make_source(rng):
        """-> (description, object exporting the buffer protocol, numpy view used as the expectation)"""
        k = rng.choice(["array", "array", "bytes", "bytearray", "memoryview-2d", "memoryview-strided", "ctypes", "ctypes-2d",
                        "numpy-C", "numpy-C", "numpy-F", "numpy-negative-stride", "numpy-nonunit-stride", "numpy-T",
                        "numpy-0size", "numpy-0d", "numpy-3d", "numpy-unsupported", "numpy-1d", "numpy-byteswapped"])
        ctx.count("c20.import.source." + k)
        n = rng.choice([0, 1, 2, 3, 4, 6])
        if k == "array":
            code = rng.choice(["i", "l", "d", "d", "i", "l", "q", "f", "h", "B", "I", "L", "b", "H", "Q"])
            if code in "fd":
                vals = [rng.choice([0.5, -1.25, 3.0, 1e10, -0.0]) for _ in range(n)]
            elif code in "BHILQ":
                vals = [rng.randint(0, 100) for _ in range(n)]
            elif code in "bh":
                vals = [rng.randint(-100, 100) for _ in range(n)]
            else:
                vals = [rng.choice([rng.randint(-1000, 1000), 2 ** 31 - 1, -2 ** 31]) for _ in range(n)]
            obj = array.array(code, vals)
            return "array('%s')" % code, obj, np.asarray(memoryview(obj)) if n else np.zeros(0, dtype=np.dtype(memoryview(obj).format))
        if k in ("bytes", "bytearray"):
            raw = bytes(rng.randrange(256) for _ in range(n))
            obj = raw if k == "bytes" else bytearray(raw)
            return k, obj, np.frombuffer(raw, dtype=np.uint8)
        if k == "memoryview-2d":
            code = rng.choice(["d", "d", "i", "l", "f"])
            r, cc = rng.randint(1, 3), rng.randint(1, 3)
            base = array.array(code, [rng.randint(-9, 9) for _ in range(r * cc)])
            obj = memoryview(base).cast("B").cast(code, (r, cc))
            return "memoryview.cast('%s',(%d,%d))" % (code, r, cc), obj, np.asarray(obj)
        if k == "memoryview-strided":
            code = rng.choice(["d", "d", "i", "l"])
            base = array.array(code, [rng.randint(-9, 9) for _ in range(rng.randint(1, 8))])
            sl = rng.choice([slice(None, None, 2), slice(None, None, -1), slice(1, None, 3), slice(None, None, -2), slice(2, 1)])
            obj = memoryview(base)[sl]
            return "memoryview(array('%s'))[%s]" % (code, sl), obj, np.asarray(base)[sl]
        if k == "ctypes":
            ct = rng.choice([ctypes.c_double, ctypes.c_int, ctypes.c_long, ctypes.c_float])
            vals = [rng.randint(-9, 9) for _ in range(max(n, 1))]
            obj = (ct * len(vals))(*vals)
            return "ctypes %s[%d]" % (ct.__name__, len(vals)), obj, np.ctypeslib.as_array(obj)
        if k == "ctypes-2d":
            ct = rng.choice([ctypes.c_double, ctypes.c_long])
            obj = ((ct * 3) * 2)((1, 2, 3), (4, 5, 6))
            return "ctypes %s[2][3]" % ct.__name__, obj, np.ctypeslib.as_array(obj)
        dt = rng.choice(["int32", "int64", "float64", "float64", "complex128"])
        if k == "numpy-unsupported":
            dt = rng.choice(["float32", "int16", "uint8", "bool", "uint64", "int8", "float16", "complex64", "uint32"])
        r, cc = rng.randint(1, 4), rng.randint(1, 4)

        def fill(shape):
            a = np.zeros(shape, dtype=dt)
            flat = a.reshape(-1)
            for i in range(flat.size):
                if dt.startswith("complex"):
                    flat[i] = complex(rng.randint(-9, 9), rng.randint(-9, 9))
                elif dt == "bool":
                    flat[i] = rng.random() < 0.5
                elif dt.startswith("uint"):
                    flat[i] = rng.randint(0, 200)
                elif dt.startswith("int"):
                    flat[i] = rng.randint(-100, 100)
                else:
                    flat[i] = rng.randint(-40, 40) / 4.0
            return a
        if k in ("numpy-C", "numpy-unsupported"):
            a = fill((r, cc)) if rng.random() < 0.7 else fill((r,))
        elif k == "numpy-F":
            a = np.asfortranarray(fill((r, cc)))
        elif k == "numpy-negative-stride":
            a = fill((r, cc))[::-1, ::-1] if rng.random() < 0.6 else fill((r + 1,))[::-1]
        elif k == "numpy-nonunit-stride":
            a = fill((2 * r, 3 * cc))[::2, 1::3] if rng.random() < 0.6 else fill((3 * r,))[::3]
        elif k == "numpy-T":
            a = fill((r, cc)).T
        elif k == "numpy-0size":
            a = fill(rng.choice([(0,), (0, 3), (2, 0), (0, 0)]))
        elif k == "numpy-0d":
            a = fill(())
        elif k == "numpy-3d":
            a = fill((2, r, cc))
        elif k == "numpy-byteswapped":
            a = fill((r,)).astype(np.dtype(dt).newbyteorder())
        else:
            a = fill((r,))
        return "%s %s %s" % (k, a.dtype, a.shape), a, a

    FMT_SUPPORTED = {"i": "i", "l": "i", "d": "d", "Zd": "z"}      # C int, C long, double, complex double

    def expectation(view, obj):
        """numpy.asarray semantics -> (supported typecode or None, size, column-major values) or 'no-answer'.
        A format counts as supported when the exporter announces one of the plain native codes the
        manual's examples use (array('i'), array of C long, NumPy float64 / complex128 / int32 / int64)."""
        if view.ndim not in (1, 2):
            return "no-answer"
        size = (view.shape[0], 1) if view.ndim == 1 else tuple(view.shape)
        name = view.dtype.name if view.dtype.isnative else "non-native"
        try:
            fmt = memoryview(obj).format
        except Exception:       # noqa
            fmt = None
        tc = FMT_SUPPORTED.get(fmt)
        if tc is not None and NP_SUPPORTED.get(name) != tc:
            tc = None
        vals = view.flatten(order="F").tolist()
        return tc, size, vals, name

    def natural_tc(view):
        k = view.dtype.kind
        return {"i": "i", "u": "i", "b": "i", "f": "d", "c": "z"}.get(k)

    def conv_vals(vals, tc):
        return [{"i": int, "d": float, "z": complex}[tc](v) for v in vals]

    def sc_import_rejected_releases(c, rng):
        """a rejected import must not keep the source exported: afterwards the exporter can be released / resized"""
        ba = bytearray(64)
        how = rng.choice(["3-D", "3-D", "float32", "int16", "4-D"])
        mv = {"3-D": lambda: memoryview(ba).cast("d", (2, 2, 2)), "4-D": lambda: memoryview(ba).cast("d", (2, 2, 2, 1)),
              "float32": lambda: memoryview(ba).cast("f"), "int16": lambda: memoryview(ba).cast("h", (8, 4))}[how]()
        via = rng.choice(["matrix", "setitem"])
        c.cls("import-rejected", how, via)
        c.desc.update({"what": "rejected import", "source": how, "via": via})
        ctx.count("c20.import.rejected-then-released")
        c.check()
        try:
            if via == "matrix":
                matrix(mv)
            else:
                A = matrix(0.0, (8, 4)); A[:, :] = mv
            c.fail("import:%s:unsupported-accepted" % how, "a %s buffer was accepted" % how); return
        except TypeError:
            pass
        except NotImplementedError as e:
            if via != "setitem":        # indexed assignment reports an unusable right-hand side this way (accepted there)
                c.fail("import:%s:exception-class" % how, "raised %s: %s" % (type(e).__name__, e)); return
        except Exception as e:      # noqa
            c.fail("import:%s:exception-class" % how, "raised %s: %s" % (type(e).__name__, e)); return
        try:
            mv.release()
            ba.extend(b"\0" * 8)
        except BufferError as e:
            c.fail("import:rejected-source-stays-exported", "after the rejected import of a %s buffer (%s) the source is still locked: %s" % (how, via, e))

    def sc_import_matrix(c, rng):
        if rng.random() < 0.12:
            return sc_import_rejected_releases(c, rng)
        desc, obj, view = make_source(rng)
        exp = expectation(view, obj)
        want_tc = rng.choice([None, None, None, "i", "d", "z"])
        want_size = None
        if exp != "no-answer" and rng.random() < 0.3:
            tot = exp[1][0] * exp[1][1]
            if tot and rng.random() < 0.8:
                d = rng.choice([t for t in range(1, tot + 1) if tot % t == 0])
                want_size = (d, tot // d)
            else:
                want_size = (exp[1][0] + 1, max(exp[1][1], 1))
        args = (obj,) + ((want_size,) if want_size is not None else ()) + ((want_tc,) if want_tc and want_size is not None else ())
        kwargs = {"tc": want_tc} if (want_tc and want_size is None) else {}
        c.desc.update({"what": "matrix(buffer)", "source": desc, "size": want_size, "tc": want_tc})
        key = "import:matrix:" + desc.split(" ")[0].split("(")[0]
        try:
            got, exc = matrix(*args, **kwargs), None
        except Exception as e:      # noqa: judged below
            got, exc = None, e
        c.check()
        if isinstance(exc, (SystemError, MemoryError)):
            c.fail(key + ":internal-error", "matrix(%s) raised %s: %s" % (desc, type(exc).__name__, exc)); return
        if exp == "no-answer":
            c.cls("import-matrix", desc.split(" ")[0], "bad-ndim")
            if exc is None:
                c.fail(key + ":bad-ndim-accepted", "matrix(%s) with %d dimensions returned %r" % (desc, view.ndim, got))
            else:
                ctx.count("c20.import.outcome." + type(exc).__name__)
                c.require(isinstance(exc, (TypeError, ValueError)), key + ":exception-class",
                          "matrix(%s) raised %s: %s" % (desc, type(exc).__name__, exc))
            return
        tc, size, vals, dname = exp
        supported = tc is not None
        ctx.count("c20.import.supported-format" if supported else "c20.import.unsupported-format")
        src_tc = tc or natural_tc(view)
        c.cls("import-matrix", desc.split(" ")[0], dname, want_tc, "resize" if want_size else "", shape_class(size))
        # is there an answer at all?
        final_tc = want_tc or src_tc
        bad = None
        if src_tc is None:
            bad = "no numeric interpretation"
        elif R.ORDER[src_tc] > R.ORDER[final_tc]:
            bad = "conversion %s -> %s is not defined" % (src_tc, final_tc)
        elif want_size is not None and want_size[0] * want_size[1] != size[0] * size[1]:
            bad = "size does not match the number of elements"
        if bad is not None:
            if exc is None:
                c.fail(key + ":should-raise", "matrix(%s, size=%s, tc=%s) returned %r although %s" % (desc, want_size, want_tc, got, bad),
                       got=got)
            else:
                ctx.count("c20.import.outcome." + type(exc).__name__)
                c.require(isinstance(exc, (TypeError, ValueError)), key + ":exception-class",
                          "matrix(%s) raised %s: %s" % (desc, type(exc).__name__, exc))
            return
        if exc is not None:
            ctx.count("c20.import.outcome." + type(exc).__name__)
            if supported:
                c.fail(key + ":supported-format-rejected", "matrix(%s, size=%s, tc=%s) raised %s: %s" %
                       (desc, want_size, want_tc, type(exc).__name__, exc))
            else:
                c.require(isinstance(exc, TypeError), key + ":exception-class",
                          "unsupported buffer format must raise TypeError; matrix(%s) raised %s: %s" % (desc, type(exc).__name__, exc))
            return
        ctx.count("c20.import.outcome.converted")
        if kind(got) != "dense":
            c.fail(key + ":type", "matrix(%s) returned %r" % (desc, got)); return
        wsize = want_size or size
        if got.typecode != final_tc:
            c.fail(key + ":typecode", "matrix(%s, tc=%s) has typecode %s, numpy dtype %s" % (desc, want_tc, got.typecode, dname), got=got); return
        if got.size != wsize:
            c.fail(key + ":size", "matrix(%s, size=%s) has size %s, numpy shape %s" % (desc, want_size, got.size, view.shape), got=got); return
        if not same_vals(list(got), conv_vals(vals, final_tc), final_tc):
            c.fail(key + ":value", "matrix(%s) differs from numpy.asarray(...) read in column-major order" % desc,
                   got=got, want=conv_vals(vals, final_tc)); return
        # the import is a copy
        if view.size and view.flags.writeable if isinstance(view, np.ndarray) else False:
            st = dense_state(got)
            try:
                view.reshape(-1)[0] = view.reshape(-1)[0] + 1
            except Exception:       # noqa
                return
            c.require(dense_state(got) == st, key + ":shares-storage", "matrix(%s) changes when the source buffer is written" % desc)

    def sc_import_setitem(c, rng):
        desc, obj, view = make_source(rng)
        exp = expectation(view, obj)
        A, _ = rdense(rng, tc=rng.choice("idz"), shape=(rng.randint(1, 5), rng.randint(1, 5)), special=0.0)
        m, n = A.size
        if exp == "no-answer":
            cnt, vshape = None, None
        else:
            cnt, vshape = exp[1][0] * exp[1][1], exp[1]
        form = rng.choice(["slice2", "slice2", "list2", "slice1", "list1", "whole"])
        # try to address a block with as many elements as the source has
        rows, cols = list(range(m)), list(range(n))
        if form in ("slice2", "list2", "whole"):
            if view.ndim == 2 and vshape and vshape[0] <= m and vshape[1] <= n and rng.random() < 0.8:
                br, bc = vshape
            elif cnt and cnt <= m and rng.random() < 0.7:
                br, bc = cnt, 1
            elif cnt and cnt <= n:
                br, bc = 1, cnt
            else:
                br, bc = rng.randint(1, m), rng.randint(1, n)
            if form == "whole":
                br, bc = m, n
            r0, c0 = rng.randint(0, m - br), rng.randint(0, n - bc)
            if form == "list2":
                I = rng.sample(rows, br); J = rng.sample(cols, bc)
                idx = (I, J)
            else:
                I = list(range(r0, r0 + br)); J = list(range(c0, c0 + bc))
                idx = (slice(r0, r0 + br), slice(c0, c0 + bc))
            pos = [i + j * m for j in J for i in I]
            block = (br, bc)
        else:
            k = cnt if (cnt and cnt <= m * n and rng.random() < 0.8) else rng.randint(1, m * n)
            if form == "list1":
                pos = rng.sample(range(m * n), k)
                idx = pos
            else:
                s0 = rng.randint(0, m * n - k)
                pos = list(range(s0, s0 + k))
                idx = slice(s0, s0 + k)
            block = (k, 1)
        c.desc.update({"what": "A[idx] = buffer", "source": desc, "index": repr(idx), "A": A})
        key = "import:setitem:" + desc.split(" ")[0].split("(")[0]
        before = list(A)
        try:
            A[idx] = obj
            exc = None
        except Exception as e:      # noqa
            exc = e
        c.check()
        if isinstance(exc, (SystemError, MemoryError)):
            c.fail(key + ":internal-error", "A[%r] = %s raised %s: %s" % (idx, desc, type(exc).__name__, exc)); return
        after = list(A)
        if exp == "no-answer":
            c.cls("import-setitem", desc.split(" ")[0], "bad-ndim")
            if exc is None:
                c.fail(key + ":bad-ndim-accepted", "A[%r] = %s with %d dimensions was accepted" % (idx, desc, view.ndim))
            else:
                c.require(same_vals(after, before, A.typecode), key + ":modified-on-error", "A changed although the assignment raised")
            return
        tc, size, vals, dname = exp
        src_tc = tc or natural_tc(view)
        supported = tc is not None
        ctx.count("c20.import.supported-format" if supported else "c20.import.unsupported-format")
        c.cls("import-setitem", desc.split(" ")[0], dname, A.typecode, form)
        bad = None
        if src_tc is None:
            bad = "no numeric interpretation"
        elif R.ORDER[src_tc] > R.ORDER[A.typecode]:
            bad = "assignment would change the type (%s into %s)" % (src_tc, A.typecode)
        elif cnt != block[0] * block[1] and cnt != 1:
            bad = "%d elements for a block of %d" % (cnt, block[0] * block[1])
        elif cnt == 1 and block[0] * block[1] != 1:
            ctx.count("c20.unspec.one-element-buffer-broadcast")
            return
        elif view.ndim == 2 and tuple(size) != tuple(block):
            ctx.count("c20.unspec.2d-buffer-of-another-shape")
            return
        if bad is not None:
            if exc is None:
                c.fail(key + ":should-raise", "A[%r] = %s was accepted although %s" % (idx, desc, bad), before=before, after=after)
            else:
                ctx.count("c20.import.outcome." + type(exc).__name__)
                c.require(isinstance(exc, (TypeError, ValueError, NotImplementedError, IndexError)), key + ":exception-class",
                          "A[%r] = %s raised %s: %s" % (idx, desc, type(exc).__name__, exc))
                c.require(same_vals(after, before, A.typecode), key + ":modified-on-error", "A changed although the assignment raised")
            return
        if exc is not None:
            ctx.count("c20.import.outcome." + type(exc).__name__)
            if supported:
                c.fail(key + ":supported-format-rejected", "A[%r] = %s raised %s: %s" % (idx, desc, type(exc).__name__, exc))
            else:
                c.require(isinstance(exc, (TypeError, NotImplementedError)), key + ":exception-class",
                          "unsupported buffer format must raise TypeError; A[%r] = %s raised %s: %s" % (idx, desc, type(exc).__name__, exc))
            c.require(same_vals(after, before, A.typecode), key + ":modified-on-error", "A changed although the assignment raised")
            return
        ctx.count("c20.import.outcome.converted")
        want = list(before)
        for p, v in zip(pos, conv_vals(vals, A.typecode)):
            want[p] = v
        if not same_vals(after, want, A.typecode):
            c.fail(key + ":value", "A[%r] = %s: result differs from numpy.asarray semantics" % (idx, desc), got=after, want=want)

    def check_view(c, key, A, mv):
        """format / shape / strides of an exported buffer"""
        tc = A.typecode
        m, n = A.size
        okfmt = {"i": ("l", "q"), "d": ("d",), "z": ("Zd",)}[tc]
        c.require(mv.format in okfmt, key + ":format", "memoryview format %r for typecode %s" % (mv.format, tc))
        c.require(mv.itemsize == ITEM[tc], key + ":itemsize", "itemsize %d for typecode %s" % (mv.itemsize, tc))
        c.require(mv.ndim == 2 and tuple(mv.shape) == (m, n), key + ":shape", "shape %s ndim %d for size %s" % (mv.shape, mv.ndim, A.size))
        if m * n:
            c.require(tuple(mv.strides) == (ITEM[tc], ITEM[tc] * m), key + ":strides",
                      "strides %s are not column-major for size %s itemsize %d" % (mv.strides, A.size, ITEM[tc]))
        c.require(not mv.readonly, key + ":readonly", "exported buffer is read-only")
        c.require(mv.nbytes == m * n * ITEM[tc], key + ":nbytes", "nbytes %d" % mv.nbytes)

    def view_vals(mv, tc):
        """column-major values read through the buffer (no help from cvxopt)"""
        raw = mv.tobytes(order="A") if (mv.shape[0] * mv.shape[1]) else b""
        a = np.frombuffer(raw, dtype={"i": np.int64, "d": np.float64, "z": np.complex128}[tc])
        return a.tolist()

    def col_major_read(mv, tc):
        a = np.asarray(mv)
        return a.flatten(order="F").tolist()

    def sc_export(c, rng):
        A, vals = rdense(rng, special=0.1)
        tc = A.typecode
        c.cls("export", tc, shape_class(A.size))
        c.desc.update({"what": "memoryview(A)", "A": A})
        try:
            mv = memoryview(A)
        except Exception as e:      # noqa
            c.check(); c.fail("export:exception", "memoryview(A) raised %s: %s" % (type(e).__name__, e)); return
        check_view(c, "export", A, mv)
        if c.failed:
            return
        c.require(same_vals(col_major_read(mv, tc), list(A), tc), "export:content", "buffer content differs from the matrix",
                  got=col_major_read(mv, tc), want=list(A))
        m, n = A.size
        if m * n:
            a = np.asarray(mv)
            ctx.count("c20.export.write-through")
            i, j = rng.randrange(m), rng.randrange(n)
            new = {"i": -77, "d": 0.0625, "z": 1.5 - 2.5j}[tc]
            a[i, j] = new
            c.require(bits(A[i, j], tc) == bits(new, tc), "export:write-through-view",
                      "a write through the exported buffer is not visible in the matrix (A[%d,%d]=%r)" % (i, j, A[i, j]))
            c.require(bits(A[i + j * m], tc) == bits(new, tc), "export:write-through-view-position",
                      "element written at [%d,%d] through the buffer is not A[%d]" % (i, j, i + j * m))
            i, j = rng.randrange(m), rng.randrange(n)
            new2 = {"i": 2 ** 40 + 3, "d": -1e-7, "z": -0.25j}[tc]
            A[i, j] = new2
            got = a[i, j].item()
            c.require(bits({"i": int, "d": float, "z": complex}[tc](got), tc) == bits(new2, tc), "export:write-through-matrix",
                      "a write into the matrix is not visible through the exported buffer")
            # numpy.asarray(A) shares, numpy.array(A) copies
            b = np.asarray(A)
            c.require(np.shares_memory(a, b), "export:asarray-shares", "two exports of one matrix do not share memory")
            cp = np.array(A)
            st = dense_state(A)
            cp.reshape(-1)[0] = cp.reshape(-1)[0] + 1
            c.require(dense_state(A) == st, "export:array-copy-shares", "numpy.array(A) aliases the matrix")
        mv.release()

    def churn(rng, nbytes):
        """allocate and free many matrices around the size of the dropped one"""
        junk = []
        for k in range(60):
            cnt = max(1, nbytes // 8 + rng.choice([0, 0, 0, 1, -1, 2]))
            junk.append(matrix(float(k) + 0.123, (max(cnt, 1), 1), "d"))
            if k % 3 == 0:
                junk.pop(rng.randrange(len(junk)))
        junk2 = [matrix(-5.5, (max(1, nbytes // 8), 1), "d") for _ in range(30)]
        del junk, junk2
        gc.collect()
        [bytearray(max(nbytes, 8)) for _ in range(20)]

    def sc_lifetime(c, rng):
        A, _ = rdense(rng, shape=(rng.randint(1, 6), rng.randint(1, 6)), special=0.1)
        tc = A.typecode
        how = rng.choice(["memoryview", "numpy", "both"])
        c.cls("lifetime", tc, how)
        c.desc.update({"what": "view outlives matrix", "how": how, "A": A})
        ctx.count("c20.lifetime.view-outlives-matrix")
        m, n = A.size
        mv = memoryview(A) if how in ("memoryview", "both") else None
        arr = np.asarray(A) if how in ("numpy", "both") else None
        i, j = rng.randrange(m), rng.randrange(n)
        new = {"i": 424242, "d": 42.4242, "z": 4.2 + 2.4j}[tc]
        A[i, j] = new
        last = list(A)
        nbytes = m * n * ITEM[tc]
        B = A
        del A
        del B
        gc.collect()
        churn(rng, nbytes)
        for name, v in (("memoryview", mv), ("numpy", arr)):
            if v is None:
                continue
            got = col_major_read(v, tc) if name == "memoryview" else v.flatten(order="F").tolist()
            got = conv_vals(got, tc)
            c.require(same_vals(got, last, tc), "lifetime:%s:content-after-drop" % name,
                      "content read through the %s after the matrix was dropped and memory churned differs from what was last written" % name,
                      got=got, want=last)
        # writes through the surviving view stick, and a new matrix made from it sees them
        v = arr if arr is not None else np.asarray(mv)
        v[i, j] = {"i": 17, "d": 1.75, "z": 1.75j}[tc]
        churn(rng, nbytes)
        again = matrix(v)
        want = list(last)
        want[i + j * m] = {"i": 17, "d": 1.75, "z": 1.75j}[tc]
        c.require(same_vals(list(again), want, tc), "lifetime:write-after-drop", "value written through the surviving view was lost",
                  got=again, want=want)
        if mv is not None:
            mv.release()

    def sc_history(c, rng):
        """export / mutate / release / re-export sequences on one matrix"""
        A, _ = rdense(rng, shape=(rng.randint(1, 5), rng.randint(1, 5)), special=0.0)
        tc = A.typecode
        m, n = A.size
        views = []
        hist = []
        c.desc.update({"what": "export history", "A": A})
        steps = rng.randint(4, 12)
        for s in range(steps):
            op = rng.choice(["export", "export-np", "mutate", "mutate-view", "release", "inplace", "resize", "setslice", "fromfile", "check"])
            if op == "export":
                views.append(("mv", memoryview(A)))
            elif op == "export-np":
                views.append(("np", np.asarray(A)))
            elif op == "mutate":
                A[rng.randrange(m * n)] = rval(rng, tc, 0.0)
            elif op == "mutate-view" and views:
                k_, v = rng.choice(views)
                a = np.asarray(v)
                if a.shape == (m, n):
                    a[rng.randrange(m), rng.randrange(n)] = {"i": 5, "d": 0.5, "z": 0.5j}[tc]
                else:
                    a.reshape(-1, order="A")[rng.randrange(m * n)] = {"i": 6, "d": 0.75, "z": 0.75j}[tc]
            elif op == "release" and views:
                k_, v = views.pop(rng.randrange(len(views)))
                if k_ == "mv":
                    v.release()
            elif op == "inplace":
                B = A
                ident = id(A)
                if tc == "i":
                    A += 1
                else:
                    A *= 2
                c.require(A is B and id(A) == ident, "history:inplace-new-object", "an in-place operator rebound the name to a new object")
            elif op == "resize":
                d = rng.choice([t for t in range(1, m * n + 1) if (m * n) % t == 0])
                A.size = (d, m * n // d)
                m, n = A.size
            elif op == "setslice":
                A[::2] = {"i": 9, "d": 9.5, "z": 9.5j}[tc]
            elif op == "fromfile":
                f = io.BytesIO(struct.pack("%d%s" % (m * n * (2 if tc == "z" else 1), "q" if tc == "i" else "d"),
                                           *([3] * (m * n) if tc == "i" else [1.5] * (m * n * (2 if tc == "z" else 1)))))
                try:
                    A.fromfile(f)
                except TypeError:
                    pass
            hist.append(op)
            # every live view shows exactly the matrix's storage (column-major element order)
            cur = list(A)
            for k_, v in views:
                c.check()
                raw = (v.tobytes(order="A") if k_ == "mv" else v.tobytes(order="A"))
                got = np.frombuffer(raw, dtype={"i": np.int64, "d": np.float64, "z": np.complex128}[tc]).tolist()
                got = conv_vals(got, tc)
                if k_ == "np" or True:
                    # both kinds were taken when the matrix possibly had another shape: compare storage order
                    a = np.asarray(v)
                    got = conv_vals(a.flatten(order="F").tolist(), tc)
                if not same_vals(got, cur, tc):
                    c.fail("history:view-out-of-sync", "after %s a live view no longer shows the matrix's storage" % hist,
                           got=got, want=cur)
                    return
        c.cls("history", tc, ",".join(sorted(set(hist))))
        for k_, v in views:
            if k_ == "mv":
                v.release()
        # after all releases a new export works and shows the current shape
        mv = memoryview(A)
        check_view(c, "history:re-export", A, mv)
        mv.release()

    def sc_alias_dense(c, rng):
        A, _ = rdense(rng, special=0.1)
        if A.typecode == "i":
            # in-place arithmetic on integers near 2^63 would overflow; that is not what this check is about
            A = matrix([x % 1000 for x in A], A.size, "i")
        tc = A.typecode
        m, n = A.size
        how = rng.choice(["matrix(x)", "+x", "x[:]", "x[:, :]", "x[I]", "x[I, J]", "assignment", "inplace", "matrix(x, size)",
                          "matrix(x, tc)", "matrix(x,tc=tc)-no-size", "x.T.T", "x * 1", "x + 0"])
        c.cls("alias-dense", how, tc, shape_class(A.size))
        c.desc.update({"what": "aliasing", "how": how, "A": A})
        if how == "assignment":
            B = A
            c.require(B is A, "alias:assignment", "B = A is not the same object")
            st = mutate(rng, A)
            c.require(state(B) == state(A), "alias:assignment", "B = A does not alias")
            return
        if how == "inplace":
            B = A
            ident = id(A)
            op = rng.choice(["+=", "-=", "*=", "/=" if tc != "i" else "+=", "%=" if tc != "z" else "*="])
            val = {"i": 3, "d": 1.5, "z": 1.5}[tc]
            kind_ = rng.choice(["number", "number", "1x1", "matrix", "sparse"]) if op in ("+=", "-=") else "number"
            if kind_ == "1x1":
                val = matrix(val, (1, 1), tc)
            elif kind_ == "matrix":
                val = matrix(val, (m, n), tc)
            elif kind_ == "sparse" and tc != "i" and m * n:
                # a full sparse operand of the same size keeps the result dense: an allowed in-place operation
                val = spmatrix([1.5] * (m * n), [i for j in range(n) for i in range(m)], [j for j in range(n) for i in range(m)], (m, n), "d")
            ctx.count("alias.inplace-operand." + (kind_ if not (kind_ == "sparse" and (tc == "i" or not m * n)) else "number"))
            view = memoryview(A) if rng.random() < 0.5 else None       # a held export must see the update too
            before = list(A)
            if op == "+=":
                A += val
            elif op == "-=":
                A -= val
            elif op == "*=":
                A *= val
            elif op == "/=":
                A /= val
            else:
                A %= val
            c.require(A is B and id(A) == ident, "alias:inplace-new-object", "%s created a new object" % op)
            if m * n and op in ("+=", "-="):
                # adding a nonzero number changes every finite element that is not huge
                changed = [bits(x, tc) != bits(y, tc) for x, y in zip(before, list(B))
                           if x == x and abs(x) < 1e15]
                c.require(all(changed), "alias:inplace-not-visible", "%s is not visible through the other name" % op,
                          before=before, after=B)
                if view is not None:
                    import numpy as _np
                    seen = _np.asarray(view).reshape(-1, order="F").tolist() if view.ndim > 1 else _np.asarray(view).tolist()
                    c.require(same_vals([{"i": int, "d": float, "z": complex}[tc](x) for x in seen], list(A), tc),
                              "alias:inplace-not-visible-through-held-export",
                              "%s is not visible through a memoryview exported before the operation" % op)
            if view is not None:
                view.release()
            return
        if how == "matrix(x)":
            B = matrix(A)
        elif how == "+x":
            B = +A
        elif how == "x[:]":
            B = A[:]
        elif how == "x[:, :]":
            B = A[:, :]
        elif how == "x[I]":
            B = A[list(range(m * n))]
        elif how == "x[I, J]":
            B = A[list(range(m)), matrix(list(range(n)), (n, 1), "i")] if n else A[list(range(m)), []]
        elif how == "matrix(x, size)":
            B = matrix(A, (n, m))
        elif how == "matrix(x, tc)":
            B = matrix(A, A.size, tc)
        elif how == "matrix(x,tc=tc)-no-size":
            B = matrix(A, tc=tc)
        elif how == "x.T.T":
            B = A.T.T
        elif how == "x * 1":
            B = A * 1
        else:
            B = A + 0
        c.check()
        if not same_vals(list(B), list(A), tc) and how not in ("x * 1", "x + 0"):
            c.fail("alias:copy-value", "%s does not reproduce the values" % how, got=B, want=A)
            return
        independent(c, rng, "alias:" + how, how, A, B)

    def sc_alias_sparse(c, rng):
        A, trip = rsparse(rng)
        tc = A.typecode
        how = rng.choice(["+x", "x[:, :]", "spmatrix(V,I,J)", "assignment", "inplace", "x.T.T", "copy", "x * 1", "V-copy", "sparse(x)"])
        c.cls("alias-sparse", how, tc, shape_class(A.size))
        c.desc.update({"what": "aliasing", "how": how, "A": A})
        if how == "assignment":
            B = A
            mutate(rng, A)
            c.require(B is A and state(B) == state(A), "alias:sparse:assignment", "B = A does not alias")
            return
        if how == "inplace":
            B = A
            ident = id(A)
            op = rng.choice(["*=", "/=", "+=", "-="])
            if op == "*=":
                # special factors included: 0, 0.0 and 1 are where a "nothing to do" shortcut would sit
                f_ = rng.choice([2, 2, 0, 0.0, 1, -1.0, matrix(0.0), matrix(3.0)])
                nnz0 = len(A.V)
                A *= f_
                c.require(len(A.V) == nnz0, "alias:sparse:inplace-pattern", "A *= %r changed the number of stored entries %d -> %d" % (f_, nnz0, len(A.V)))
            elif op == "/=":
                A /= rng.choice([2, 0.5, -4.0])
            elif op == "+=":
                A += spmatrix(1.0, [0] if A.size[0] else [], [0] if A.size[0] and A.size[1] else [], A.size) if A.size[0] * A.size[1] else A
            else:
                A -= spmatrix(1.0, [0] if A.size[0] else [], [0] if A.size[0] and A.size[1] else [], A.size) if A.size[0] * A.size[1] else A
            c.require(A is B and id(A) == ident, "alias:sparse:inplace-new-object", "%s created a new object" % op)
            c.require(CCS.check(A) == [], "alias:sparse:inplace-ccs", "invalid CCS after %s: %s" % (op, CCS.check(A)[:1]))
            return
        if how == "V-copy":
            V = A.V
            st = state(A)
            if len(V):
                V[0] = {"d": 123.5, "z": 123.5j}[tc]
            c.require(state(A) == st, "alias:sparse:V-is-a-view", "writing into A.V changed A (the manual: a copy is returned)")
            return
        if how == "+x":
            B = +A
        elif how == "x[:, :]":
            B = A[:, :]
        elif how == "spmatrix(V,I,J)":
            B = spmatrix(A.V, A.I, A.J, A.size, tc)
        elif how == "x.T.T":
            B = A.T.T
        elif how == "copy":
            B = copy.copy(A)
        elif how == "x * 1":
            B = A * 1
        else:
            B = sparse(A)
        if how in ("spmatrix(V,I,J)", "copy", "+x"):
            if not require_same(c, "alias:sparse:" + how, how, A, B):
                return
        independent(c, rng, "alias:sparse:" + how, how, A, B)

    TABLE = {
        "pickle-dense": lambda c, rng: sc_pickle(c, rng, False),
        "pickle-sparse": lambda c, rng: sc_pickle(c, rng, True),
        "copy": sc_copy, "file": sc_file, "import-matrix": sc_import_matrix, "import-setitem": sc_import_setitem,
        "export": sc_export, "lifetime": sc_lifetime, "history": sc_history, "alias-dense": sc_alias_dense,
        "alias-sparse": sc_alias_sparse,
    }

    def one(c):
        rng = c.rng
        name = SCENARIOS[(c.k + ctx.worker) % len(SCENARIOS)] if rng.random() < 0.7 else rng.choice(SCENARIOS)
        ctx.count("c20.scenario." + name)
        c.desc["scenario"] = name
        if getattr(c, "progress", None) is not None:
            c.progress((name, name))
        TABLE[name](c, rng)
        if c.k < 3:
            ctx.sample({"scenario": name, "desc": {k: v for k, v in c.desc.items() if k in ("what", "source", "how", "protocol")}})

    runner = R.ForkRunner(ctx, one)
    try:
        for k in ctx.cases():
            ctx.run_case(k, {}, runner.run)
    finally:
        runner.close()
