"""O-ccs: validity of the compressed-column representation of a cvxopt spmatrix.

check(A) returns a list of (key, message) problems (empty = valid):

  * A.CCS is a triple (colptr, rowind, values) of single-column dense matrices,
    colptr/rowind of typecode 'i', values of A's typecode;
  * len(colptr) == ncols + 1, colptr[0] == 0, colptr nondecreasing,
    colptr[-1] == len(rowind) == len(values);
  * inside every column the row indices are strictly increasing and in [0, nrows);
  * A.I, A.J, A.V, len(A), A.size agree with that representation
    (A.I == rowind, A.J == the column of every stored entry, A.V == values,
     len(A) == number of stored entries).

Everything is read through the public attributes only; stdlib only.
"""


def _is_dense(x, tc=None):
    return type(x).__name__ == "matrix" and hasattr(x, "typecode") and (tc is None or x.typecode == tc)


def check(A):
    probs = []

    def bad(key, msg):
        probs.append((key, msg))

    try:
        size = A.size
        tc = A.typecode
        ccs = A.CCS
    except Exception as e:      # noqa
        return [("ccs-attribute-error", "reading size/typecode/CCS raised %s: %s" % (type(e).__name__, e))]
    if not (isinstance(size, tuple) and len(size) == 2 and all(isinstance(t, int) and t >= 0 for t in size)):
        return [("ccs-size", "size is %r" % (size,))]
    m, n = size
    if tc not in ("d", "z"):
        bad("ccs-typecode", "typecode %r" % (tc,))
    if not (isinstance(ccs, tuple) and len(ccs) == 3):
        return probs + [("ccs-shape", "CCS is not a triple: %r" % (ccs,))]
    cp, ri, va = ccs
    if not (_is_dense(cp, "i") and _is_dense(ri, "i") and _is_dense(va, tc)):
        return probs + [("ccs-types", "CCS members: %s" % ", ".join(
            "%s/%s" % (type(t).__name__, getattr(t, "typecode", "?")) for t in ccs))]
    for name, t in (("colptr", cp), ("rowind", ri), ("values", va)):
        if t.size[1] != 1 and len(t) != 0:
            bad("ccs-not-single-column", "%s has size %s" % (name, t.size))
    colptr, rowind, values = list(cp), list(ri), list(va)
    if len(colptr) != n + 1:
        bad("ccs-colptr-length", "len(colptr) = %d, ncols + 1 = %d" % (len(colptr), n + 1))
        return probs
    if colptr[0] != 0:
        bad("ccs-colptr-start", "colptr[0] = %d" % colptr[0])
    for j in range(n):
        if colptr[j + 1] < colptr[j]:
            bad("ccs-colptr-decreasing", "colptr[%d] = %d > colptr[%d] = %d" % (j, colptr[j], j + 1, colptr[j + 1]))
            return probs
    nnz = colptr[-1]
    if not (nnz == len(rowind) == len(values)):
        bad("ccs-lengths", "colptr[-1] = %d, len(rowind) = %d, len(values) = %d" % (nnz, len(rowind), len(values)))
        return probs
    cols = []
    for j in range(n):
        prev = -1
        for k in range(colptr[j], colptr[j + 1]):
            r = rowind[k]
            if r < 0 or r >= m:
                bad("ccs-row-out-of-range", "rowind[%d] = %d in column %d, nrows = %d" % (k, r, j, m))
            if r <= prev:
                bad("ccs-unsorted" if r < prev else "ccs-duplicate-row",
                    "column %d: row %d after row %d" % (j, r, prev))
            prev = r
            cols.append(j)
    # agreement of the triplet view
    try:
        I, J, V, ln = list(A.I), list(A.J), list(A.V), len(A)
        tI, tJ, tV = A.I, A.J, A.V
    except Exception as e:      # noqa
        bad("ccs-attribute-error", "reading I/J/V/len raised %s: %s" % (type(e).__name__, e))
        return probs
    if not (_is_dense(tI, "i") and _is_dense(tJ, "i") and _is_dense(tV, tc)):
        bad("ccs-ijv-types", "I/J/V typecodes %s%s%s" % (getattr(tI, "typecode", "?"), getattr(tJ, "typecode", "?"),
                                                         getattr(tV, "typecode", "?")))
    if ln != nnz:
        bad("ccs-len", "len(A) = %d, stored entries = %d" % (ln, nnz))
    if I != rowind:
        bad("ccs-I-differs", "A.I = %s, rowind = %s" % (I[:20], rowind[:20]))
    if J != cols:
        bad("ccs-J-differs", "A.J = %s, columns from colptr = %s" % (J[:20], cols[:20]))
    if len(V) != len(values) or any(not (a == b or (a != a and b != b)) for a, b in zip(V, values)):
        bad("ccs-V-differs", "A.V = %s, values = %s" % (V[:20], values[:20]))
    return probs


def pattern(A):
    """[(i, j)] of the stored entries in storage order"""
    colptr, rowind, _ = A.CCS
    colptr, rowind = list(colptr), list(rowind)
    return [(rowind[k], j) for j in range(len(colptr) - 1) for k in range(colptr[j], colptr[j + 1])]


def selftest():
    from cvxopt import spmatrix
    A = spmatrix([2, -1, 2, -2, 1, 4, 3], [1, 2, 0, 2, 3, 2, 0], [0, 0, 1, 1, 2, 3, 4])
    assert check(A) == [], check(A)
    assert pattern(A) == [(1, 0), (2, 0), (0, 1), (2, 1), (3, 2), (2, 3), (0, 4)]
    assert check(spmatrix([], [], [], (0, 0))) == []
    assert check(spmatrix([], [], [], (3, 0))) == []
    assert check(spmatrix(0.0, [1, 1], [0, 0], (2, 4))) == []

    class Fake(object):     # an invalid representation must be reported
        size, typecode = (3, 2), "d"
        from cvxopt import matrix as _m
        CCS = (_m([0, 2, 3]), _m([2, 0, 1]), _m([1., 2., 3.]))
        I, J, V = CCS[1], _m([0, 0, 1]), CCS[2]

        def __len__(self):
            return 3
    keys = [k for k, _ in check(Fake())]
    assert "ccs-unsorted" in keys, keys
    return True
