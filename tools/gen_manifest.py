#!/usr/bin/env python3
"""Regenerate MANIFEST.json from the metadata of props/*.py (single source of truth)."""
import os, sys, json, importlib
HERE = os.path.dirname(os.path.dirname(os.path.abspath(__file__)))
sys.path.insert(0, HERE)
props = [json.loads(l) for l in open(os.path.join(HERE, "properties.jsonl")) if l.strip()]
checks, na = [], []
CLAIMED = set(open(os.path.join(HERE, "CLAIMED")).read().split())
for p in props:
    pid = p["id"]
    path = os.path.join(HERE, "props", pid.lower() + ".py")
    if not os.path.exists(path) or pid not in CLAIMED:
        na.append({"property_id": pid, "reason": "not claimed yet: monitor designed in DESIGN.md section 5 but not built/validated in this round"})
        continue
    mod = importlib.import_module("props." + pid.lower())
    if getattr(mod, "NOT_CLAIMED", None):
        na.append({"property_id": pid, "reason": mod.NOT_CLAIMED})
        continue
    checks.append({
        "property_id": pid,
        "quick_cmd": "./check %s --tier quick" % pid,
        "thorough_cmd": "./check %s --tier thorough" % pid,
        "evidence_file": "evidence/%s.json" % pid,
        "replay_cmd_template": "./check %s --replay {path}" % pid,
        "engine": "runtime-monitor",
        "level_claimed": {"category": getattr(mod, "LEVEL", "exploration"),
                          "text": getattr(mod, "LEVEL_TEXT", "held on the executions explored; oracle independent of the code under test"),
                          "design_ref": "DESIGN.md section 5, %s" % pid},
        "level_note": getattr(mod, "LEVEL_NOTE", "; ".join(getattr(mod, "ASSUMPTIONS", [])) or "numpy reference"),
        "technique": getattr(mod, "TECHNIQUE", "runtime monitoring: generated workload on the real build + independent oracle"),
    })
man = {
    "version": 1,
    "setup_cmd": "python3 tools/setup.py",
    "hooks": {"guard": "CVXOPT_VERIF", "enable": "no source hooks are needed: checks rebuild base/blas/lapack/misc_solvers and all Python files from /repo's working tree into a scratch package (vlib/build.py) and observe through public call-backs, wrappers, compile flags (ASan/UBSan) and a forced-include guard allocator",
              "baseline_off_cmd": "cd /repo && /venv/bin/python -m pytest -ra -q -p no:cacheprovider --timeout=900 --continue-on-collection-errors tests",
              "source_commits": [], "add_only": True},
    "engines": [{"name": "runtime-monitor", "path": "check", "serves_properties": [c["property_id"] for c in checks],
                 "kind_free_text": "driver (vlib/driver.py) builds cvxopt from /repo (plain / ASan+UBSan / page-guard allocator), runs generated workloads in worker processes with journals, judges every execution with oracles written from the documentation (vlib/oracle), writes evidence and replay files"}],
    "checks": checks,
    "not_applicable": na,
    "notes": "Exit 0 held / 1 VIOLATION / 2 inconclusive. VERIF_SEED selects the case stream; known_findings.json lists recorded genuine defects by mechanism.",
}
json.dump(man, open(os.path.join(HERE, "MANIFEST.json"), "w"), indent=1)
print("claimed:", [c["property_id"] for c in checks], "unclaimed:", [n["property_id"] for n in na])
