"""C14  Writing an LP to MPS and reading it back preserves the problem.

writer : op.tofile -> O-mps (vlib/oracle/mps.py) -> must equal the shadow LP
reader : op.fromfile on the same file -> constraints probed through value()
         -> must equal O-mps's reading; solve agrees with HiGHS
files  : generated fixed-format files over the supported sections -> fromfile
         must build what O-mps reads
non-LP : tofile on a piecewise-linear problem must raise TypeError"""

LEVEL = "exploration"
TECHNIQUE = "round-trip differential test of tofile/fromfile against an independent fixed-column MPS reader and the shadow LP"
LEVEL_TEXT = ("random LPs from the affine expression grammar (1..4 variables of length 1..4, named/unnamed, dense/sparse, "
              "scalar/row/matrix coefficients) and random fixed-format MPS files (N/L/G/E, RHS incl. objective, RANGES of "
              "both signs on every row type, LO/UP/FX/FR/MI/PL, comments, blank lines, two-entry lines)")
RULE = ("each case = one LP (writer + reader + solve) or one generated file (reader alone) or one PWL problem (refusal). "
        "distinct = case kind x row types x range signs x bound types x naming class")
ASSUMPTIONS = [
    "coefficients are compared to 6 significant digits (relative 1e-5 plus 1e-9 of the row's largest coefficient)",
    "generator restrictions: coefficient magnitudes in [1e-6, 1e6]; names distinct after the 8-character label mangling; "
    "no negative UP bound without LO; one RHS/RANGES/BOUNDS vector; every generated row and column has an entry; a RHS section is always present",
    "coefficients below 1e-9 in magnitude (cancellation residue such as x - x) count as zero",
    "rows are compared up to a renaming of the variables (assignment on column vectors); constraints without variables that hold trivially are dropped on both sides",
    "constraints built by fromfile are read back through the public value() of their functions at unit points",
    "solve agreement is judged only when both solves return a status other than 'unknown', the file's LP meets the rank conditions of solvers.lp, its optimal value is insensitive to the 6-digit rounding (HiGHS on exact vs rounded data within 1e-5) and the original op itself agrees with HiGHS (op.solve itself is C12's business)",
]
REQUIRED_COUNTERS = ["kind.numeric-names", "lp.earlier-export-of-a-subproblem", "kind.roundtrip", "kind.file", "kind.nonlp", "check.writer.rows", "check.writer.columns",
                     "check.writer.free-bounds", "check.reader.rows", "check.reader.objective", "check.roundtrip.solve",
                     "check.file.rows", "check.file.objective-constant", "check.nonlp.refused",
                     "row.N", "row.L", "row.G", "row.E", "range.L+", "range.L-", "range.G+", "range.G-", "range.E+", "range.E-",
                     "bound.LO", "bound.UP", "bound.FX", "bound.FR", "bound.MI", "bound.PL", "bound.default",
                     "file.two-entry-line", "file.comment", "file.blank", "file.objective-rhs",
                     "lp.named", "lp.unnamed", "lp.sparse", "lp.equality", "lp.scalar-coefficient", "lp.matrix-coefficient"]


def plan(tier):
    if tier == "thorough":
        return [{"variant": "plain", "workers": 16, "cases": 6000}]
    return [{"variant": "plain", "workers": 8, "cases": 150}]


def run(ctx):
    import os, tempfile, math
    import numpy as np
    import cvxopt.modeling as M
    from cvxopt import matrix, spmatrix, solvers
    from scipy.optimize import linear_sum_assignment
    from vlib.oracle import shadow as S, lpref, mps
    solvers.options["show_progress"] = False
    try:
        solvers.options["glpk"] = {"msg_lev": "GLP_MSG_OFF"}
    except Exception:
        pass
    mps.selftest(); lpref.selftest()
    INF = math.inf
    VNAMES = ["x", "y", "zz", "alpha", "beta_1", "w", "flowrate", "capacity", "q", "temperatureK", "u",
              "alpha1", "alpha2", "gamma7", "gamma8"]        # six characters, distinct only in the sixth
    CNAMES = ["c", "lim", "bal", "demand", "capacityrow", "r", "eq", "budget_total", "k", "limit1", "limit2", "limit3"]

    TINY = 1e-9      # declared: coefficients are in [1e-6, 1e6]; anything below 1e-9 is rounding residue (x - x)

    def close(u, v, floor):
        return abs(u - v) <= 1e-5 * max(abs(u), abs(v)) + floor + TINY

    # ------------------------------------------------------------------ canonical LPs
    # an LP here: cols (list of labels), obj {label: v}, rows [(kind, {label: v}, b)]  kind '<' (a'x <= b) or '='
    def norm_rows(rows):
        out = []
        for kind, a, b in rows:
            a = {k: v for k, v in a.items() if abs(v) >= TINY}
            if not a:
                if (kind == "<" and 0.0 <= b + 1e-12) or (kind == "=" and abs(b) <= 1e-12):
                    continue           # holds trivially
            out.append((kind, a, b))
        return out

    def rows_match(ra, rb, colmap):
        """ra, rb multisets of rows; colmap: label in rb -> label in ra.  returns None or a message"""
        if len(ra) != len(rb):
            return "%d rows vs %d rows" % (len(ra), len(rb))
        if not ra:
            return None
        cost = np.ones((len(ra), len(rb)))
        for i, (ka, aa, ba) in enumerate(ra):
            fl = 1e-9 * max([abs(v) for v in aa.values()] + [abs(ba), 1e-300])
            for j, (kb, ab, bb) in enumerate(rb):
                if ka != kb:
                    continue
                for sgn in ((1.0, -1.0) if ka == "=" else (1.0,)):
                    am = {colmap.get(k, k): sgn * v for k, v in ab.items()}
                    keys = set(aa) | set(am)
                    if all(close(aa.get(k, 0.0), am.get(k, 0.0), fl) for k in keys) and close(ba, sgn * bb, fl):
                        cost[i, j] = 0.0
                        break
        r, cidx = linear_sum_assignment(cost)
        if cost[r, cidx].sum() > 0:
            bad = [i for i, j in zip(r, cidx) if cost[i, j] > 0]
            return "row %r has no counterpart" % (ra[bad[0]],)
        return None

    def columns_by_assignment(cols_a, obj_a, rows_a, cols_b, obj_b, rows_b):
        """rows aligned by position; returns (colmap b->a, None) or (None, message)"""
        if len(rows_a) != len(rows_b):
            return None, "%d rows vs %d rows" % (len(rows_a), len(rows_b))
        for (ka, _, ba), (kb, _, bb) in zip(rows_a, rows_b):
            if ka != kb:
                return None, "row kinds differ in order"
        if len(cols_a) != len(cols_b):
            return None, "%d columns vs %d columns" % (len(cols_a), len(cols_b))
        floors = [1e-9 * max([abs(v) for v in list(a.values()) + list(b.values())] + [1e-300]) for (_, a, _), (_, b, _) in zip(rows_a, rows_b)]
        ofl = 1e-9 * max([abs(v) for v in list(obj_a.values()) + list(obj_b.values())] + [1e-300])
        cost = np.ones((len(cols_a), len(cols_b)))
        for i, ca in enumerate(cols_a):
            for j, cb in enumerate(cols_b):
                ok = close(obj_a.get(ca, 0.0), obj_b.get(cb, 0.0), ofl)
                if ok:
                    for (_, a, _), (_, b, _), fl in zip(rows_a, rows_b, floors):
                        if not close(a.get(ca, 0.0), b.get(cb, 0.0), fl):
                            ok = False
                            break
                if ok:
                    cost[i, j] = 0.0
        r, cidx = linear_sum_assignment(cost)
        if cost[r, cidx].sum() > 0:
            bad = [cols_a[i] for i, j in zip(r, cidx) if cost[i, j] > 0]
            return None, "column %r has no counterpart" % bad[0]
        for n, ((_, a, ba), (_, b, bb), fl) in enumerate(zip(rows_a, rows_b, floors)):
            if not close(ba, bb, fl):
                return None, "right-hand side of row %d: %r vs %r" % (n, ba, bb)
        return {cols_b[j]: cols_a[i] for i, j in zip(r, cidx)}, None

    def probe(q):
        """read an op back through public methods: variables(), objective.value(), c.value().
        -> cols, obj, const, rows"""
        vs = q.variables()
        labels = []
        for k, v in enumerate(vs):
            for i in range(len(v)):
                labels.append((v, i, (v.name if len(v) == 1 else "%s[%d]" % (v.name, i))))
        if len(set(l for _, _, l in labels)) != len(labels):
            labels = [(v, i, "%s#%d" % (l, n)) for n, (v, i, l) in enumerate(labels)]
        saved = [v.value for v in vs]
        cons = [(c_, "<") for c_ in q.inequalities()] + [(c_, "=") for c_ in q.equalities()]

        def evaluate():
            o = q.objective.value()
            return [float(o[0])] + [np.array(list(c_.value()), dtype=float) for c_, _ in cons]
        for v in vs:
            v.value = matrix(0.0, (len(v), 1))
        base = evaluate()
        obj, rows = {}, [[(t, {}, -b) for b in base[1 + n]] for n, (c_, t) in enumerate(cons)]
        for v, i, lab in labels:
            v.value[i] = 1.0
            cur = evaluate()
            v.value[i] = 0.0
            d = cur[0] - base[0]
            if d != 0.0:
                obj[lab] = d
            for n in range(len(cons)):
                dv = cur[1 + n] - base[1 + n]
                for r in range(len(dv)):
                    if dv[r] != 0.0:
                        rows[n][r][1][lab] = float(dv[r])
        for v, val in zip(vs, saved):
            v.value = val
        flat = [r for rr in rows for r in rr]
        return [l for _, _, l in labels], obj, base[0], flat, [len(rr) for rr in rows], [t for _, t in cons]

    def tmpfile():
        fd, path = tempfile.mkstemp(suffix=".mps", dir=os.environ.get("VERIF_SCRATCH") or None)
        os.close(fd)
        return path

    # ------------------------------------------------------------------ round trip
    def gen_lp(rng):
        nv = rng.randint(1, 4)
        names = rng.sample(VNAMES, nv)
        naming = rng.choice(["named", "named", "unnamed", "mixed"])
        vars_ = []
        for i in range(nv):
            nm = names[i] if naming == "named" or (naming == "mixed" and rng.random() < 0.5) else ""
            v = S.Var(i, rng.randint(1, 4), "x%d" % i)
            v.mpsname = nm
            vars_.append(v)
        wide = rng.random() < 0.25
        g = S.TreeGen(rng, vars_, maxdepth=3 if wide else 4, p_sparse=0.3, wide=wide)
        x0 = {v.idx: np.array([round(rng.uniform(-4, 4), 1) for _ in range(v.n)]) for v in vars_}
        obj = g.tree(S.AFF, 1, rng.randint(1, 3))
        if rng.random() < 0.4:
            obj = S.n_add(obj, S.K("float", round(rng.uniform(-5, 5), 2)))
        cons = []
        cn = rng.sample(CNAMES, len(CNAMES))

        def add(lhs, rhs, rel, tag):
            tree = S.n_add(rhs, lhs, -1) if rel == ">=" else S.n_add(lhs, rhs, -1)
            nm = cn.pop() if cn and rng.random() < 0.5 else ""          # distinct names
            cons.append({"lhs": lhs, "rhs": rhs, "rel": rel, "tree": tree, "typ": "=" if rel == "==" else "<", "tag": tag, "name": nm})
        neq = 0
        ntot = sum(v.n for v in vars_)
        for _ in range(rng.randint(1, 4)):
            rel = rng.choice(["<=", "<=", ">=", "=="])
            L = rng.choice([1, 1, 2, 3, 4])
            a = g.tree(S.AFF, L, rng.randint(1, 3))
            b = g.tree(S.AFF, rng.choice([L, 1]), 1) if rng.random() < 0.3 else None
            ha = a.fn(x0) - (S._bc(b.fn(x0), L) if b is not None else 0.0)
            sh = ha if rel == "==" else (ha + (1 if rel == "<=" else -1) * np.array([round(rng.uniform(0.5, 3), 1) for _ in range(L)]))
            sh = np.array([float("%.5e" % t) for t in sh])
            k = S.K("float", float(sh[0])) if L == 1 else S.K("col", sh)
            rhs = k if b is None else S.n_add(b, k, 1)
            before = len(cons)
            add(a, rhs, rel, "planted")
            if rel == "==":
                rows = cons[-1]["tree"].L
                if neq + rows >= ntot or not lpref.rank_ok(vars_, [(c_["tree"], c_["typ"]) for c_ in cons]):
                    del cons[before:]
                else:
                    neq += rows
        for v in vars_:
            if rng.random() < 0.8:
                add(S.n_var(v), S.K("float", 10.0), "<=", "box")
                add(S.n_var(v), S.K("float", -10.0), ">=", "box")
        rng.shuffle(cons)
        if not cons:
            add(S.n_var(vars_[0]), S.K("float", 10.0), "<=", "box")
        return {"vars": vars_, "obj": obj, "cons": cons, "naming": naming, "opname": rng.choice(["", "prob", "a_long_problem_name"])}

    def lp_script(P):
        lines, counter = [], [0]
        oname = S.script(P["obj"], lines, counter)[0]
        cl = []
        for i, c_ in enumerate(P["cons"]):
            a = S.script(c_["lhs"], lines, counter)[0] if isinstance(c_["lhs"], S.Node) else c_["lhs"].src()
            b = S.script(c_["rhs"], lines, counter)[0] if isinstance(c_["rhs"], S.Node) else c_["rhs"].src()
            lines.append("c%d = (%s %s %s); c%d.name = %r" % (i, a, c_["rel"], b, i, c_["name"]))
            cl.append("c%d" % i)
        lines.append("p = op(%s, [%s], %r); p.tofile('f.mps'); q = op(); q.fromfile('f.mps')" % (oname, ", ".join(cl), P["opname"]))
        hdr = ["from cvxopt import matrix, sparse", "from cvxopt.modeling import variable, op, max, min, sum, dot"] + \
              ["%s = variable(%d,%r)" % (v.name, v.n, getattr(v, "mpsname", v.name)) for v in P["vars"]]
        return hdr + lines

    def build(c, P, rng):
        vars_ = P["vars"]
        rv = {v.idx: M.variable(v.n, getattr(v, "mpsname", v.name)) for v in vars_}

        def hook(node, kids, r, e):
            if e is not None:
                c.check(); c.fail("expression-defect:%s:%s" % (node.op, type(e).__name__), "%s raised %s: %s" % (node.op, type(e).__name__, e))
                return
            vals = S.rand_values(rng, vars_)
            for v in vars_:
                rv[v.idx].value = matrix([float(t) for t in vals[v.idx]], (v.n, 1), "d")
            got, want = np.array(list(r.value()), dtype=float), node.fn(vals)
            if not (len(r) == node.L and got.shape == want.shape and
                    float(np.max(np.abs(got - want))) <= 1e-9 * max(1.0, float(np.max(node.mg(vals))))):
                c.check(); c.fail("expression-defect:%s:value" % node.op, "%s evaluates differently from its formula" % node.op)
                raise S.Abort()
        real = lambda o: S.realize(o, rv, M, hook) if isinstance(o, S.Node) else o.real()
        obj = real(P["obj"])
        rcons = []
        for c_ in P["cons"]:
            a, b = real(c_["lhs"]), real(c_["rhs"])
            try:
                rc = (a <= b) if c_["rel"] == "<=" else ((a >= b) if c_["rel"] == ">=" else (a == b))
            except Exception as e:
                c.check(); c.fail("expression-defect:compare:%s" % type(e).__name__, str(e)); raise S.Abort()
            rc.name = c_["name"]
            rcons.append(rc)
            vals = S.rand_values(rng, vars_)
            for v in vars_:
                rv[v.idx].value = matrix([float(t) for t in vals[v.idx]], (v.n, 1), "d")
            got, want = np.array(list(rc.value()), dtype=float), c_["tree"].fn(vals)
            if not (got.shape == want.shape and float(np.max(np.abs(got - want))) <= 1e-9 * max(1.0, float(np.max(c_["tree"].mg(vals))))):
                c.check(); c.fail("expression-defect:compare:value", "constraint function of %s differs from f1 - f2" % c_["rel"])
                raise S.Abort()
        for v in vars_:
            rv[v.idx].value = None
        return rv, obj, rcons

    def shadow_lp(P, order):
        """the LP in the oracle's own numbering: cols, obj, const, rows (constraints in `order`)"""
        lp = lpref.EpiLP(P["vars"])
        cols = ["s%d" % j for j in range(lp.nx)]
        fo = lp.form(P["obj"], 0)
        obj = {cols[j]: float(v[0]) for j, v in fo.cols.items() if v[0] != 0.0}
        rows, sizes = [], []
        for c_ in order:
            f = lp.form(c_["tree"], 0).bc(c_["tree"].L)
            sizes.append(f.L)
            for i in range(f.L):
                rows.append((c_["typ"], {cols[j]: float(v[i]) for j, v in f.cols.items() if v[i] != 0.0}, -float(f.c[i])))
        return cols, obj, float(fo.c[0]), rows, sizes

    def roundtrip(c, rng, P):
        ctx.count("kind.roundtrip")
        ctx.count("lp." + ("named" if P["naming"] == "named" else "unnamed"))
        nodes = [n for t in [P["obj"]] + [c_["tree"] for c_ in P["cons"]] for n in t.nodes()]
        if any(isinstance(k, S.K) and k.is_sparse for n in nodes for k in n.kids):
            ctx.count("lp.sparse")
        if any(n.op in ("smul", "smulr") for n in nodes):
            ctx.count("lp.scalar-coefficient")
        if any(n.op == "mmul" for n in nodes):
            ctx.count("lp.matrix-coefficient")
        if any(c_["typ"] == "=" for c_ in P["cons"]):
            ctx.count("lp.equality")
        try:
            rv, obj, rcons = build(c, P, rng)
        except S.Abort:
            ctx.count("skipped.expression-defect")
            return
        if len(rcons) >= 2 and rng.random() < 0.3:
            # an earlier export of a smaller problem over the same constraint and variable objects (first constraint left
            # out): writing a file must not change what a later export of the full problem writes
            ctx.count("lp.earlier-export-of-a-subproblem")
            path0 = tmpfile()
            try:
                M.op(obj, rcons[1:]).tofile(path0)
            except Exception:
                ctx.count("lp.earlier-export-raised")
            finally:
                try: os.unlink(path0)
                except OSError: pass
        p = M.op(obj, rcons, P["opname"])
        path = tmpfile()
        try:
            try:
                p.tofile(path)
            except Exception as e:
                import traceback
                c.check(); c.fail("tofile:undocumented-%s" % type(e).__name__, "tofile raised %s: %s" % (type(e).__name__, e)); return
            c.desc["file"] = open(path).read()[:6000]
            # ---- writer: the file, read by O-mps, against the shadow LP
            try:
                mf = mps.read(path, strict=False)
            except Exception as e:
                c.check(); c.fail("tofile:file-not-readable-as-fixed-MPS", "%s: %s" % (type(e).__name__, e)); return
            order = [c_ for c_, rc in zip(P["cons"], rcons) if c_["typ"] == "<"] + [c_ for c_ in P["cons"] if c_["typ"] == "="]
            scols, sobj, sconst, srows, sizes = shadow_lp(P, order)
            frows = mps.halfspaces(mf, with_bounds=False)
            ctx.count("check.writer.free-bounds")
            c.require(all(mf["bounds"][cn] == (-INF, INF) for cn in mf["cols"]), "tofile:variable-not-declared-free",
                      "bounds in the file: %r" % mf["bounds"])
            ctx.count("check.writer.rows")
            # the columns of the problem = the components of p.variables() (what the library lists; C11 judges that)
            lpx = lpref.EpiLP(P["vars"])
            listed = set(id(v) for v in p.variables())
            scols_used = []
            for v in P["vars"]:
                if id(rv[v.idx]) in listed:
                    scols_used += ["s%d" % (lpx.off[v.idx] + i) for i in range(v.n)]
            colmap, msg = columns_by_assignment(scols_used, sobj, srows, mf["cols"], mf["objective"]["coef"], frows)
            ctx.count("check.writer.columns")
            c.check()
            if colmap is None:
                key = "tofile:file-differs-from-the-problem"
                if msg.startswith("right-hand side"):
                    key = "tofile:right-hand-side-differs"
                elif mf["undeclared"]:
                    key = "tofile:bound-line-for-column-without-entries"
                elif len(mf["cols"]) != len(scols_used):
                    key = "tofile:number-of-columns"
                c.fail(key, "file (read by O-mps) vs shadow LP: %s" % msg, shadow_rows=srows[:8], file_rows=frows[:8],
                       shadow_cols=len(scols_used), file_cols=mf["cols"])
                return
            if mf["undeclared"]:
                c.fail("tofile:bound-line-for-column-without-entries",
                       "BOUNDS names column(s) %r that have no COLUMNS entry (fromfile rejects such a file)" % mf["undeclared"])
                return
            # ---- reader: fromfile on a fresh op against O-mps's reading of the same file
            q = M.op()
            try:
                q.fromfile(path)
            except Exception as e:
                c.check()
                key = "fromfile:rejects-file-written-by-tofile-%s" % type(e).__name__
                c.fail(key, "fromfile raised %s: %s" % (type(e).__name__, e))
                return
            got_rows = judge_reader(c, q, mf, "roundtrip")
            if got_rows is None:
                return
            # ---- same numbers of variables / rows as the original problem
            c.require(sum(len(v) for v in q.variables()) == sum(len(v) for v in p.variables()), "roundtrip:number-of-variables",
                      "original %d, after round trip %d" % (sum(len(v) for v in p.variables()), sum(len(v) for v in q.variables())))
            nz = lambda rows: len(norm_rows(rows))
            qi = sum(1 for r in got_rows if r[0] == "<"); qe = sum(1 for r in got_rows if r[0] == "=")
            pi = nz([r for r in srows if r[0] == "<"]); pe = nz([r for r in srows if r[0] == "="])
            c.require((qi, qe) == (pi, pe), "roundtrip:number-of-rows", "original (ineq, eq) = %r, after round trip %r" % ((pi, pe), (qi, qe)))
            # ---- solve before / after; HiGHS on the shadow LP (exact data) and on the file's LP (6-digit data) arbitrates
            ref = lpref.solve(P["vars"], P["obj"], [(c_["tree"], c_["typ"]) for c_ in P["cons"]])
            fst, fval, rank_ok = highs_file(mf)
            wellcond = fval is None or abs(fval - (ref["p"] - sconst)) <= 1e-5 * max(1.0, abs(fval)) if ref["p"] is not None else True
            if not rank_ok:
                ctx.count("solve.rank-conditions-of-solvers.lp-not-met")      # outside the documented domain of op.solve
            elif not wellcond:
                ctx.count("solve.optimal-value-sensitive-to-6-digit-rounding")
            elif ref["status"] in ("optimal", "infeasible", "unbounded") and fst == ref["status"]:
                want = {"optimal": "optimal", "infeasible": "primal infeasible", "unbounded": "dual infeasible"}[ref["status"]]
                if fval is not None:
                    # the two references themselves: same optimal value up to the conditioning of the problem
                    ctx.maxobs("reference.file-vs-exact", abs(fval - (ref["p"] - sconst)) / max(1.0, abs(fval)))
                res = []
                for prob in (p, q):
                    try:
                        prob.solve()
                        res.append((prob.status, float(prob.objective.value()[0]) if prob.status == "optimal" else None))
                    except Exception as e:
                        res.append(("exc:" + type(e).__name__, None))
                if all(not r[0].startswith("exc") and r[0] != "unknown" for r in res) and \
                        (res[0][0] != want or (want == "optimal" and abs(res[0][1] - ref["p"]) > 1e-4 * max(1.0, abs(ref["p"])))):
                    ctx.count("solve.original-disagrees-with-reference")       # accuracy of op.solve itself: C12's business
                elif all(not r[0].startswith("exc") and r[0] != "unknown" for r in res):
                    ctx.count("check.roundtrip.solve")
                    c.require(res[1][0] == want, "roundtrip:status-after-differs",
                              "after the round trip: %r, HiGHS: %s (original op: %r)" % (res[1][0], ref["status"], res[0][0]))
                    if res[1][0] == "optimal" == want:
                        qconst = probe_const(q)
                        err = abs((res[1][1] - qconst) - fval) / max(1.0, abs(fval))
                        if err > 2e-3:
                            # the interior-point solver loses digits on badly scaled data (C12's business): the
                            # simplex back-end decides whether the round-tripped problem has the right optimum
                            try:
                                q.solve("dense", "glpk")
                                if q.status == "optimal":
                                    e2 = abs((float(q.objective.value()[0]) - qconst) - fval) / max(1.0, abs(fval))
                                    if e2 <= 2e-3:
                                        ctx.count("solve.default-solver-inaccurate-glpk-agrees")
                                        err = e2
                            except Exception:
                                pass
                        ctx.maxobs("roundtrip.value", err)
                        c.require(err <= 2e-3, "roundtrip:optimal-value-of-linear-part",
                                  "after: %r (constant %r), HiGHS on the file's LP %r" % (res[1][1], qconst, fval))
                else:
                    ctx.count("solve.not-judged." + "/".join(r[0].split(":")[0] for r in res))
            else:
                ctx.count("solve.references-undecided")
        finally:
            try:
                os.unlink(path)
            except OSError:
                pass

    def highs_file(mf):
        """HiGHS on the LP that O-mps read from the file (linear part of the objective)"""
        from scipy.optimize import linprog
        cols = mf["cols"]
        ix = {cn: j for j, cn in enumerate(cols)}
        cvec = np.zeros(len(cols))
        for k, v in mf["objective"]["coef"].items():
            cvec[ix[k]] = v
        ub, eq = [], []
        for kind, a, b in mps.halfspaces(mf, with_bounds=True):
            row = np.zeros(len(cols))
            for k, v in a.items():
                row[ix[k]] = v
            (ub if kind == "<" else eq).append((row, b))
        kw = {}
        if ub:
            kw["A_ub"] = np.array([r for r, _ in ub]); kw["b_ub"] = np.array([b for _, b in ub])
        if eq:
            kw["A_eq"] = np.array([r for r, _ in eq]); kw["b_eq"] = np.array([b for _, b in eq])
        r = linprog(cvec, bounds=[(None, None)] * len(cols), method="highs", **kw)
        stack = np.array([row for row, _ in ub + eq]).reshape(len(ub) + len(eq), len(cols))
        rank_ok = bool(len(cols)) and np.linalg.matrix_rank(stack, tol=1e-9) == len(cols) and \
            (not eq or np.linalg.matrix_rank(np.array([row for row, _ in eq]), tol=1e-9) == len(eq))
        return {0: "optimal", 2: "infeasible", 3: "unbounded"}.get(r.status, "other"), (float(r.fun) if r.status == 0 else None), rank_ok

    def probe_const(q):
        vs = q.variables()
        saved = [v.value for v in vs]
        for v in vs:
            v.value = matrix(0.0, (len(v), 1))
        o = float(q.objective.value()[0])
        for v, s in zip(vs, saved):
            v.value = s
        return o

    def judge_reader(c, q, mf, what, const=None):
        """the op built by fromfile against O-mps's reading mf"""
        try:
            qcols, qobj, qconst, qrows, _, _ = probe(q)
        except Exception as e:
            c.check(); c.fail("fromfile:problem-cannot-be-evaluated-%s" % type(e).__name__, str(e)); return None
        want_rows = norm_rows(mps.halfspaces(mf, with_bounds=True))
        got_rows = norm_rows(qrows)
        ctx.count("check.reader.rows" if what == "roundtrip" else "check.file.rows")
        c.check()
        # columns by name; a column that occurs in no constraint and not in the objective is not a variable of the op
        used = set()
        for _, a, _ in want_rows:
            used |= set(a)
        used |= set(k for k, v in mf["objective"]["coef"].items() if v != 0.0)
        if set(qcols) == used or set(qcols) <= set(mf["cols"]):
            colmap = {}
        else:
            colmap = None
        msg = None
        if colmap is None:
            msg = "variable names %r are not the column labels %r" % (sorted(qcols), sorted(mf["cols"]))
        else:
            msg = rows_match(want_rows, got_rows, colmap)
            if msg is not None:
                # "builds exactly the constraints the format defines": an equality and the pair of opposite inequalities
                # (what fromfile writes for a zero RANGES entry on an L or G row) define the same set
                def split(rows):
                    out = []
                    for k_, a_, b_ in rows:
                        if k_ == "=":
                            out.append(("<", dict(a_), b_)); out.append(("<", {kk: -vv for kk, vv in a_.items()}, -b_))
                        else:
                            out.append((k_, a_, b_))
                    return out
                if rows_match(split(want_rows), split(got_rows), colmap) is None:
                    ctx.count("reader.equality-as-two-inequalities")
                    msg = None
        if msg is not None:
            c.fail(diag_reader(mf, want_rows, got_rows, what), "%s: constraints built by fromfile differ from the file: %s" % (what, msg),
                   file_rows=want_rows[:12], op_rows=got_rows[:12])
            return None
        ctx.count("check.reader.objective" if what == "roundtrip" else "check.file.objective")
        fo = {k: v for k, v in mf["objective"]["coef"].items() if v != 0.0}
        fl = 1e-9 * max([abs(v) for v in fo.values()] + [1e-300])
        c.require(set(fo) | set(qobj) == set(k for k in set(fo) | set(qobj) if close(fo.get(k, 0.0), qobj.get(k, 0.0), fl)),
                  "fromfile:objective-coefficients", "file %r, op %r" % (fo, qobj))
        if what == "file":
            ctx.count("check.file.objective-constant")
            c.require(close(qconst, mf["objective"]["const"], 1e-12), "fromfile:objective-constant",
                      "RHS of the objective row gives constant %r, op has %r" % (mf["objective"]["const"], qconst))
        return got_rows

    def diag_reader(mf, want_rows, got_rows, what):
        """name the row type / bound type whose halfspaces are missing (diagnostic)"""
        def sig(r):
            return (r[0], tuple(sorted((k, round(v, 9)) for k, v in r[1].items())), round(r[2], 9))
        gs = {}
        for r in got_rows:
            gs[sig(r)] = gs.get(sig(r), 0) + 1
            if r[0] == "=":
                s2 = sig(("=", {k: -v for k, v in r[1].items()}, -r[2]))
                gs[s2] = gs.get(s2, 0) + 1
        for r in mf["rows"]:
            one = dict(mf, rows=[r], cols=[])
            hs = norm_rows(mps.halfspaces(one, with_bounds=False))
            if any(sig(h) not in gs for h in hs):
                rng_ = (r["lo"], r["hi"]) != {"L": (-INF, r["rhs"]), "G": (r["rhs"], INF), "E": (r["rhs"], r["rhs"])}[r["type"]]
                if rng_:
                    return "fromfile:RANGES-sign-on-%s-row" % r["type"]
                return "fromfile:%s-row" % r["type"]
        for cn in mf["cols"]:
            one = dict(mf, rows=[], cols=[cn])
            if any(sig(h) not in gs for h in norm_rows(mps.halfspaces(one))):
                lo, hi = mf["bounds"][cn]
                kind = "FX" if lo == hi else ("default" if (lo, hi) == (0.0, INF) else
                                              ("lower" if hi == INF else ("upper" if lo in (0.0, -INF) else "lower+upper")))
                return "fromfile:bound-%s" % kind
        return "fromfile:extra-constraints" if len(got_rows) > len(want_rows) else "fromfile:constraints-differ"

    # ------------------------------------------------------------------ generated files
    def numfmt(rng, v):
        """v as text of at most 12 characters that keeps 6 significant digits, placed somewhere in the field"""
        cands = ["%12.5E" % v, "% 7.5E" % v, "%.6g" % v, "%.5e" % v]
        if abs(v) >= 0.01 and abs(v) < 1e5:
            cands.append(("%.4f" % v) if float("%.4f" % v) == v else "%.6g" % v)
        cands = [t.strip() for t in cands if len(t.strip()) <= 12 and abs(float(t) - v) <= 5e-6 * abs(v)]
        t = rng.choice(cands)
        pad = rng.choice(["r", "r", "l", "m"])
        if pad == "l":
            return t.ljust(12)
        if pad == "m":
            return (" " * ((12 - len(t)) // 2) + t).ljust(12)
        return t.rjust(12)

    def val(rng, nz=True):
        u = rng.random()
        if u < 0.4:
            v = float(rng.choice([1, 2, 3, 5, -1, -2, -4]))
        elif u < 0.85:
            v = round(rng.uniform(-9, 9), 2)
        else:
            v = float("%.5e" % (rng.choice([-1, 1]) * 10 ** rng.uniform(-4, 5)))
        if v == 0.0 and nz:
            v = 1.0
        return v

    def gen_file(rng):
        nc, nr = rng.randint(1, 5), rng.randint(1, 6)
        cols = rng.sample(["X", "Y1", "COL_3", "zed", "W.4", "QQQQQQQQ", "a", "B2"], nc)
        rnames = rng.sample(["R1", "LIM", "row_3", "DEMAND", "C.5", "RRRRRRRR", "e7"], nr)
        rows = [{"name": n, "type": rng.choice("LGE"), "coef": {}} for n in rnames]
        objname = rng.choice(["COST", "obj", "Z"])
        obj = {}
        for cn in cols:
            if rng.random() < 0.7:
                obj[cn] = val(rng)
            for r in rows:
                if rng.random() < 0.5:
                    r["coef"][cn] = val(rng)
        for r in rows:                      # every row and every column has an entry
            if not r["coef"]:
                r["coef"][rng.choice(cols)] = val(rng)
        for cn in cols:
            if cn not in obj and not any(cn in r["coef"] for r in rows):
                rng.choice(rows)["coef"][cn] = val(rng)
        rhs = {r["name"]: val(rng, nz=False) for r in rows if rng.random() < 0.7}
        objrhs = val(rng) if rng.random() < 0.4 else None
        ranges = {}
        for r in rows:
            if rng.random() < 0.45:
                ranges[r["name"]] = abs(val(rng)) * rng.choice([1, -1])
                if rng.random() < 0.2:
                    ranges[r["name"]] = 0.0        # a zero range pins an L or G row to its right-hand side
                    ctx.count("range.zero")
        bounds = []          # (type, col, value or None) in file order
        for cn in cols:
            k = rng.choice(["none", "none", "LO", "UP", "LOUP", "FX", "FR", "MI", "MIUP", "PL", "LOPL", "UPLO"])
            lo = val(rng, nz=False)
            if k == "LO":
                bounds.append(("LO", cn, lo))
            elif k == "UP":
                bounds.append(("UP", cn, abs(val(rng))))
            elif k in ("LOUP", "UPLO"):
                lo = lo if lo != 0.0 else -1.5
                pair = [("LO", cn, lo), ("UP", cn, lo + abs(val(rng)))]
                bounds += pair if k == "LOUP" else pair[::-1]
            elif k == "FX":
                bounds.append(("FX", cn, val(rng, nz=False)))
            elif k == "FR":
                bounds.append(("FR", cn, None))
            elif k == "MI":
                bounds.append(("MI", cn, None))
            elif k == "MIUP":
                bounds += [("MI", cn, None), ("UP", cn, val(rng))]
            elif k == "PL":
                bounds.append(("PL", cn, None))
            elif k == "LOPL":
                bounds += [("LO", cn, lo), ("PL", cn, None)]
        # ---- text
        L = mps.fmt_line
        out, feats = [], set()

        def noise():
            u = rng.random()
            if u < 0.12:
                out.append("* " + rng.choice(["comment", "RHS", "a b c", "-1.0"])); feats.add("comment")
            elif u < 0.2:
                out.append(rng.choice(["", "   "])); feats.add("blank")
        noise()
        out.append("NAME          " + rng.choice(["TESTPROB", "p1", ""]))
        out.append("ROWS")
        rr = [("N", objname)] + [(r["type"], r["name"]) for r in rows]
        if rng.random() < 0.5:
            first = rr.pop(0); rr.insert(rng.randint(0, len(rr)), first)
        for t, n in rr:
            noise()
            out.append(" " + (t + " " if rng.random() < 0.6 else " " + t) + " " + n)     # type in column 2 or 3
        out.append("COLUMNS")
        for cn in cols:
            ents = ([(objname, obj[cn])] if cn in obj else []) + [(r["name"], r["coef"][cn]) for r in rows if cn in r["coef"]]
            rng.shuffle(ents)
            while ents:
                noise()
                if len(ents) >= 2 and rng.random() < 0.5:
                    (a, va), (b, vb) = ents.pop(), ents.pop()
                    out.append(L("", cn, a, numfmt(rng, va), b, numfmt(rng, vb))); feats.add("two-entry-line")
                else:
                    a, va = ents.pop()
                    out.append(L("", cn, a, numfmt(rng, va)))
        out.append("RHS")
        ents = list(rhs.items()) + ([(objname, objrhs)] if objrhs is not None else [])
        rng.shuffle(ents)
        rset = rng.choice(["RHS", "B", "rhs1"])
        while ents:
            noise()
            if len(ents) >= 2 and rng.random() < 0.5:
                (a, va), (b, vb) = ents.pop(), ents.pop()
                out.append(L("", rset, a, numfmt(rng, va), b, numfmt(rng, vb))); feats.add("two-entry-line")
            else:
                a, va = ents.pop()
                out.append(L("", rset, a, numfmt(rng, va)))
        if ranges or rng.random() < 0.3:
            out.append("RANGES")
            ents = list(ranges.items())
            rng.shuffle(ents)
            while ents:
                noise()
                if len(ents) >= 2 and rng.random() < 0.5:
                    (a, va), (b, vb) = ents.pop(), ents.pop()
                    out.append(L("", "RNG", a, numfmt(rng, va), b, numfmt(rng, vb))); feats.add("two-entry-line")
                else:
                    a, va = ents.pop()
                    out.append(L("", "RNG", a, numfmt(rng, va)))
        if bounds or rng.random() < 0.3:
            out.append("BOUNDS")
            for t, cn, v in bounds:
                noise()
                out.append(L(t, "BND", cn, numfmt(rng, v) if v is not None else ""))
        out.append("ENDATA")
        if rng.random() < 0.3:
            out.append("")
        model = {"rows": rows, "obj": obj, "rhs": rhs, "objrhs": objrhs, "ranges": ranges, "bounds": bounds, "cols": cols,
                 "objname": objname}
        return "\n".join(out) + "\n", model, feats

    def file_case(c, rng):
        ctx.count("kind.file")
        text, model, feats = gen_file(rng)
        c.desc["file"] = text
        for f in feats:
            ctx.count("file." + f)
        if model["objrhs"] is not None:
            ctx.count("file.objective-rhs")
        ctx.count("row.N")
        for r in model["rows"]:
            ctx.count("row." + r["type"])
            if r["name"] in model["ranges"]:
                ctx.count("range.%s%s" % (r["type"], "+" if model["ranges"][r["name"]] > 0 else ("0" if model["ranges"][r["name"]] == 0 else "-")))
        bt = set()
        for t, cn, v in model["bounds"]:
            ctx.count("bound." + t); bt.add(t)
        if len(set(cn for _, cn, _ in model["bounds"])) < len(model["cols"]):
            ctx.count("bound.default")
        path = tmpfile()
        try:
            with open(path, "w") as f:
                f.write(text)
            mf = mps.read(path)
            # the oracle reader must reproduce the generating model (6 digits): otherwise the monitor is broken
            for r, g in zip(mf["rows"], model["rows"]):
                assert r["name"] == g["name"] and r["type"] == g["type"] and set(r["coef"]) == set(g["coef"]), (r, g)
                assert all(close(r["coef"][k], g["coef"][k], 0.0) for k in g["coef"]), (r, g)
                assert close(r["rhs"], model["rhs"].get(g["name"], 0.0), 0.0), (r, g)
            q = M.op()
            try:
                q.fromfile(path)
            except Exception as e:
                c.check()
                c.fail("fromfile:rejects-well-formed-file-%s" % type(e).__name__, "fromfile raised %s: %s" % (type(e).__name__, e))
                return
            judge_reader(c, q, mf, "file")
        finally:
            try:
                os.unlink(path)
            except OSError:
                pass
        c.cls("file", "".join(sorted(set(r["type"] for r in model["rows"]))),
              "".join(sorted(set(("+" if v > 0 else "-") for v in model["ranges"].values()))), ",".join(sorted(bt)))

    # ------------------------------------------------------------------ tofile must refuse non-LPs
    def nonlp_case(c, rng):
        ctx.count("kind.nonlp")
        vars_ = S.gen_vars(rng)
        g = S.TreeGen(rng, vars_, maxdepth=3, p_sparse=0.1, p_const_first=0.0, inplace=False)
        where = rng.choice(["objective", "constraint"])
        if where == "objective":
            to, tc = g.pwl(1, 2, 1), None
        else:
            to, tc = g.tree(S.AFF, 1, 1), g.pwl(rng.randint(1, 3), 2, 1)
        c.cls("nonlp", where)
        if S.risky(to) or (tc is not None and S.risky(tc)):
            # `sparse constant - function` can kill the interpreter on the unchanged tree: run in a forked child
            sig = S.isolated(ctx, c, lambda: nonlp_body(c, vars_, to, tc, where))
            if sig is not None:
                c.check(); c.fail("expression-defect:sparse-constant-minus-function-crashes-interpreter", "signal %d" % sig)
        else:
            nonlp_body(c, vars_, to, tc, where)

    def nonlp_body(c, vars_, to, tc, where):
        rv = {v.idx: M.variable(v.n, v.name) for v in vars_}
        try:
            obj = S.realize(to, rv, M)
            cons = [rv[vars_[0].idx] <= 10.0] if tc is None else [S.realize(tc, rv, M) <= 5.0]
            p = M.op(obj, cons)
        except Exception:
            ctx.count("skipped.expression-defect")
            return
        path = tmpfile()
        try:
            ctx.count("check.nonlp.refused")
            c.check()
            try:
                p.tofile(path)
                c.fail("tofile:non-LP-not-refused", "tofile wrote a problem with a piecewise-linear %s" % where)
            except TypeError:
                pass
            except Exception as e:
                c.fail("tofile:non-LP-refused-with-%s" % type(e).__name__, "expected TypeError, got %s: %s" % (type(e).__name__, e))
        finally:
            try:
                os.unlink(path)
            except OSError:
                pass

    def numeric_names_case(c, rng):
        """distinct-or-empty names where a given name looks like an integer: unnamed objects are labelled by their position,
        so the labels of a named and of an unnamed object can coincide although the names are distinct"""
        from cvxopt import matrix
        ctx.count("kind.numeric-names")
        nv = rng.randint(2, 4)
        digits = rng.sample(["0", "1", "2", "3"], nv)
        named = [rng.random() < 0.5 for _ in range(nv)]
        if all(named): named[rng.randrange(nv)] = False
        if not any(named): named[rng.randrange(nv)] = True
        vs = [M.variable(rng.randint(1, 2), digits[i] if named[i] else "") for i in range(nv)]
        coef = [round(rng.uniform(1, 3), 1) for _ in range(nv)]
        obj = sum((coef[i] * M.sum(vs[i]) for i in range(1, nv)), coef[0] * M.sum(vs[0]))
        cons = []
        for v in vs:
            cons += [v <= 10.0, v >= -10.0 + rng.randint(0, 3)]
        rng.shuffle(cons)
        p = M.op(obj, cons)
        want = sum(len(v) for v in vs)
        c.cls("numeric-names", nv, "".join("n" if t else "u" for t in named))
        c.desc.update({"variables": [(v.name, len(v)) for v in vs]})
        path = tmpfile()
        c.check()
        try:
            try:
                p.tofile(path)
                q = M.op(); q.fromfile(path)
            except Exception as e:
                c.fail("tofile:numeric-name-collides-with-positional-label", "round trip of a problem with variables named %r raised %s: %s" %
                       ([v.name for v in vs], type(e).__name__, e)); return
            got = sum(len(v) for v in q.variables())
            c.require(got == want, "tofile:numeric-name-collides-with-positional-label",
                      "variables named %r: %d scalar variables written, %d read back" % ([v.name for v in vs], want, got))
        finally:
            try: os.unlink(path)
            except OSError: pass

    def one(c):
        rng = c.rng
        if rng.random() < 0.04:
            c.desc["kind"] = "numeric-names"
            return numeric_names_case(c, rng)
        kind = rng.choice(["roundtrip"] * 5 + ["file"] * 4 + ["nonlp"])
        c.desc["kind"] = kind
        if kind == "file":
            return file_case(c, rng)
        if kind == "nonlp":
            return nonlp_case(c, rng)
        P = gen_lp(rng)
        c.desc["script"] = lp_script(P)
        risky = S.risky(P["obj"]) or any(S.risky(o) for c_ in P["cons"] for o in (c_["lhs"], c_["rhs"]) if isinstance(o, S.Node))
        c.cls("roundtrip", P["naming"], len(P["vars"]), "".join(sorted(set(c_["typ"] for c_ in P["cons"]))))
        if risky:
            sig = S.isolated(ctx, c, lambda: roundtrip(c, rng, P))
            if sig is not None:
                c.check(); c.fail("expression-defect:sparse-constant-minus-function-crashes-interpreter", "signal %d" % sig)
        else:
            roundtrip(c, rng, P)

    for k in ctx.cases():
        ctx.run_case(k, {}, one)
