#!/usr/bin/env python3
"""Regenerate section 13 of DESIGN.md (which checks catch which seeded changes) from
seeded/descriptions.json, seeded/misses.json and seeded/eval-latest.json (output of tools/seedeval.py)."""
import json, os, re
HERE = os.path.dirname(os.path.dirname(os.path.abspath(__file__)))
desc = json.load(open(os.path.join(HERE, "seeded", "descriptions.json")))
miss = json.load(open(os.path.join(HERE, "seeded", "misses.json")))
ev = {os.path.basename(k.rstrip("/")): v for k, v in json.load(open(os.path.join(HERE, "seeded", "eval-latest.json"))).items()}
names = sorted(desc, key=lambda n: (n.split("-")[0], "self" in n, int(n.split("-")[-1])))
missed_first = {}
for rnd in ("round1", "round2", "round3", "round4", "round5", "round6", "round7", "round8"):
    for n, (why, what) in miss[rnd].items():
        missed_first[n] = (rnd, why, what)
nself = sum(1 for n in names if "self" in n)
caught = [n for n in names if isinstance(ev.get(n), dict) and all(any(e == 1 for e in o["exit"]) for o in ev[n].values())]
notc = sorted(miss["not_claimed"])
out = []
out.append("## 13  Seeded changes: which checks catch which changes\n")
out.append("`seeded/<ID>-k/` holds %d changes to cvxopt/cvxopt, each of which builds, passes the repository's 36 tests and breaks\n"
           "the named property for a class of inputs.  %d were written by fresh sub-agents that saw only the property text and a\n"
           "scratch worktree (`<ID>-1` .. `<ID>-16`, eight rounds; from the second round on the agents were also told which changes\n"
           "already existed, and in rounds 4 to 6 which *kinds* of change to prefer: shortcuts and caches valid for a subset of\n"
           "inputs, merged branches, aliasing, error paths, argument-type handling, feature interplay, extreme but valid inputs,\n"
           "and finally changes with a deliberately narrow trigger; round 7 asked for changes that need a multi-step sequence, a failure at a\n"
           "particular point, a particular interleaving, an unusual but valid input or two cooperating sites);\n"
           "%d are mine (`<ID>-self-k`).  Every one was confirmed by `tools/seedverify.py` in a scratch worktree (demo passes on HEAD,\n"
           "fails on the changed tree, suite 36/36) before it was kept; none was ever committed to /repo.  `tools/seedeval.py` applies\n"
           "a patch in a scratch worktree and runs the named checks with `VERIF_REPO` pointing at it; `seeded/eval-latest.json` is its\n"
           "output for all changes on the final tree (quick tier, seed 0); 226 of the rows come from a re-evaluation of\n"
           "the whole collection on the final tree (stopped for lack of time), the others from evaluations made earlier in the last session\n"
           "(`seeded/eval-latest-source.json` says which).\n" % (len(names), len(names) - nself, nself))
out.append("**%d of the %d changes are reported by the quick tier of the check of their property** (exit 1 with a VIOLATION line).\n"
           "The other %d (%s) are discussed at the end of this section.  %d changes (marked `*`)\n"
           "were *missed* when first evaluated.  That was the point of the exercise: each miss named an input class or an observation\n"
           "that the check did not have, the check was extended (never loosened), re-run on the unchanged tree with four seeds\n"
           "(silent) and on all earlier changes (still caught).\n" % (len(caught), len(names), len(names) - len(caught), ", ".join(n for n in names if n not in caught), len(missed_first)))
out.append("| round | changes | missed at first |\n|---|---|---|")
per = {"round1": "C01-C10, C17-C19: -1, -2 (26)", "round2": "C11-C16, C20: -1..-4; C01-C10, C17-C19: -3, -4 (54)",
       "round3": "all properties: -5, -6 (40)", "round4": "all properties: -7, -8 (40)", "round5": "all properties: -9, -10 (40)",
       "round6": "all properties: -11, -12, narrow triggers (40)",
       "round7": "all properties: -13, -14, multi-step / fault / interleaving / unusual-input triggers (40)",
       "round8": "all properties: -15, -16, same brief, code regions not touched before (40)"}
for rnd in ("round1", "round2", "round3", "round4", "round5", "round6", "round7", "round8"):
    out.append("| %s | %s | %s |" % (rnd[-1], per[rnd], ", ".join(sorted(miss[rnd]))))
out.append("")
out.append("What each miss showed and what was changed:\n")
for rnd in ("round1", "round2", "round3", "round4", "round5", "round6", "round7", "round8"):
    for n in sorted(miss[rnd]):
        why, what = miss[rnd][n]
        out.append("* **%s** (%s).  Missing: %s.  Now: %s." % (n, desc.get(n, "?"), why, what))
for n, why in sorted(miss.get("caught_by_another_check", {}).items()):
    out.append("* **%s** (%s): %s." % (n, desc.get(n, "?"), why))
for n, why in sorted(miss.get("regressed_at_seed_0", {}).items()):
    out.append("* **%s** (%s): %s." % (n, desc.get(n, "?"), why))
for n, why in sorted(miss.get("round8_caught_by_another_check", {}).items()):
    out.append("* **%s** (%s): %s." % (n, desc.get(n, "?"), why))
for n, why in sorted(miss.get("round8_still_missed", {}).items()):
    out.append("* **%s** (%s): NOT reported by any check at the end of the session - %s." % (n, desc.get(n, "?"), why))
for n, why in sorted(miss.get("round7_still_missed", {}).items()):
    out.append("* **%s** (%s): NOT reported by any check at the end of the session - %s." % (n, desc.get(n, "?"), why))
for n, why in sorted(miss.get("quick_misses_thorough_catches", {}).items()):
    out.append("* **%s** (%s): not reported by the quick tier - %s." % (n, desc.get(n, "?"), why))
out.append("")
out.append("Extending the generators produced false alarms of my own three times; each was traced before the change was kept and is\n"
           "not a finding: (1) the C06 problem with structural zeros in G lost its planted dual point and became an unbounded QP,\n"
           "which coneqp is documented not to handle (c is now recomputed so that the planted primal and dual points stay feasible);\n"
           "(2) a zero RANGES entry makes fromfile deliver an equality as two opposite inequalities, which the C14 comparison counted\n"
           "as a different constraint set (it now compares the sets); (3) GLPK writes its log to the C-level stdout of the C09 child\n"
           "interpreter and the first import of cvxopt.glpk adds a name to the package namespace (result line marked; back-ends\n"
           "imported before the module state is recorded).\n")
out.append("Genuine defects of the unchanged tree that surfaced while the generators were extended (fixed, section 12): `A *= sparse`\n"
           "rebinding (C16 dense-lhs class), the zero function indexed with several indices (C11 thorough), coneqp's unguarded solve in\n"
           "the no-inequality branch (C10 class added after a sub-agent's remark), op.solve with a scalar right-hand side next to a\n"
           "full coefficient matrix (C12 class added after a sub-agent's remark), the coneqp gap cycle as a presentation dependence\n"
           "(C06 thorough, recorded as a finding).\n")
out.append("| change | what it does | check | first keys that fire (quick tier, seed 0) |\n|---|---|---|---|")
for n in names:
    v = ev.get(n)
    if not isinstance(v, dict):
        out.append("| %s | %s | ? | not evaluated |" % (n, desc[n])); continue
    for chk, o in v.items():
        ok = any(e == 1 for e in o["exit"])
        keys = [k for k in o["keys"] if not k.startswith("inconclusive")][:2]
        if n in miss["not_claimed"]:
            res = "not reported: " + "see 'Not claimed' below"
        elif n in miss.get("quick_misses_thorough_catches", {}) and not ok:
            res = "quick tier: not reported; thorough tier: reported"
        else:
            res = ("`" + "`, `".join(keys) + "`") if ok else "MISSED"
        out.append("| %s%s | %s | %s | %s |" % (n, "*" if n in missed_first else "", desc[n], chk, res))
out.append("")
out.append("Not claimed:\n")
for n in notc:
    out.append("* **%s** (%s): %s." % (n, desc[n], miss["not_claimed"][n]))
out.append("")
text = "\n".join(out) + "\n"
p = os.path.join(HERE, "DESIGN.md")
s = open(p).read()
i = s.index("## 13  Seeded changes")
j = s.find("\n## 14", i)
s = s[:i] + text + (s[j + 1:] if j >= 0 else "")
open(p, "w").write(s)
print("section 13 rewritten: %d changes, %d caught, %d missed at first" % (len(names), len(caught), len(missed_first)))
