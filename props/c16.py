"""C16  Sparse matrices are a faithful, structurally valid image of the dense semantics.

Random operation programs over a pool of spmatrix (and a few dense) objects are executed line by
line on cvxopt and on the reference model of vlib/oracle/refmat.py, where a sparse matrix is
represented by its dense image.  After every line:
  * the dense image of every live object -- built by our own expansion of A.CCS, never by
    cvxopt.matrix(A) -- equals the model's (exact for data movement, 1e-14 x magnitude for
    arithmetic), same typecode and size, sparse/dense kind as the manual documents;
  * equal raise / no-raise outcome;
  * O-ccs (vlib/oracle/ccs.py) holds for every live sparse object;
  * documented pattern facts: spmatrix() keeps exactly the distinct (i, j) pairs (explicit zeros
    included), sparse() drops numerical zeros, `A.V = ...` and partial=True keep the pattern."""

LEVEL = "exploration"
TECHNIQUE = "model-based lock-step testing of sparse operations against dense images + CCS invariant checker"
LEVEL_TEXT = ("random programs of documented sparse-matrix operations executed in lock step on cvxopt and on a "
              "dense-image model; CCS invariants checked on every live sparse object after every line")
RULE = ("each case = one program of <= 30 lines over a pool of <= 6 names; each line is one operation class of the "
        "property (spmatrix/sparse/spdiag construction, reads/writes with every index kind, + - * / with "
        "sparse/sparse, sparse/dense, scalar operands, in-place forms, unary, transposes, real/imag/abs, V "
        "assignment, size change, built-ins, mul/div/max/min, base.axpy/gemv/gemm/syrk/symv with partial/trans/"
        "offset arguments); distinct = set of operation classes executed by the program")
ASSUMPTIONS = [
    "the sparse/dense kind of a result is judged only where the manual states it (binary + - * /, scalar "
    "operations, mul, max/min with all-sparse or some-dense arguments, indexing by the printed examples); for "
    "unary operators, transposes, real/imag, abs and div() any kind is accepted and only the image compared",
    "the sparsity pattern of results is judged only where documented (spmatrix, sparse, V assignment, partial=True)",
    "base.gemm/gemv/syrk/symv/axpy are called with consistent dimensions and equal typecodes only; inconsistent "
    "buffer sizes belong to C17/C19",
    "syrk: only the `uplo` triangle of C is compared; symv/syrk read only the `uplo` triangle of A resp. define it",
    "complex base.syrk with a sparse operand is not judged (no such kernel exists; a repaired library rejects it)",
    "V assigned a matrix of a lower typecode / a scalar / a list, 1x1 sparse operands used as scalars, duplicate "
    "indices on the left-hand side, x or C aliasing an operand: not documented, executed but not judged",
]
REQUIRED_COUNTERS = [
    "c16.outcome.value", "c16.outcome.raised.IndexError", "c16.outcome.raised.TypeError",
    "c16.class.spmatrix", "c16.class.sparse", "c16.class.spdiag", "c16.class.alias", "c16.class.getitem1",
    "c16.class.getitem2", "c16.class.setitem1", "c16.class.setitem2", "c16.class.binop", "c16.class.inplace", "c16.inplace-dense-lhs-sparse-rhs",
    "c16.class.unary", "c16.class.V-assign", "c16.class.attr-read", "c16.class.size", "c16.class.query",
    "c16.class.elementwise", "c16.class.base.axpy", "c16.class.base.gemv", "c16.class.base.gemm",
    "c16.class.base.syrk", "c16.class.base.symv", "c16.base.symv.sub-block",
    "c16.spmatrix.duplicates", "c16.spmatrix.explicit-zeros", "c16.spmatrix.empty-pattern", "c16.spmatrix.size-argument",
    "c16.index.list-neg", "c16.index.imat-neg", "c16.index.slice", "c16.index.int", "c16.index.negint",
    "c16.operands.sparse-sparse", "c16.operands.sparse-dense", "c16.operands.dense-sparse", "c16.operands.sparse-number",
    "c16.operands.sparse-1x1", "c16.setitem1.real-sparse-into-complex-sparse", "c16.index-beyond-int64", "c16.spdiag.sparse-row-vector", "c16.partial.True", "c16.base.gemm.all-sparse-complex-partial-one-conjugate", "c16.tc.d", "c16.tc.z", "c16.ccs-checks",
    "c16.shape.zero-dim", "c16.pattern-unchanged-checks",
]
WATCHDOG = {"quick": 600, "thorough": 3000}

NAMES = ["S", "T", "U", "W", "D", "E"]


# glibc fills freed blocks with a pattern: a matrix whose buffer was freed behind its back shows
# different values at once (plain build; the asan build reports the access itself)
PERTURB = {"MALLOC_PERTURB_": "85"}


def plan(tier):
    if tier == "thorough":
        return [{"variant": "plain", "workers": 12, "cases": 2000, "name": "plain", "env": PERTURB},
                {"variant": "asan", "workers": 4, "cases": 200, "name": "asan"}]
    return [{"variant": "plain", "workers": 7, "cases": 300, "name": "plain", "env": PERTURB},
            {"variant": "asan", "workers": 1, "cases": 40, "name": "asan"}]


def run(ctx):
    from vlib.oracle import refmat as R
    from vlib.oracle import ccs as CCS
    from vlib.oracle.refmat import Ref, Lockstep
    rnum, rdim, vals_src, lit, divisors = R.rnum, R.rdim, R.vals_src, R.lit, R.divisors
    index_src, primary = R.index_src, R.primary

    assert R.selftest() and CCS.selftest()
    real_base = R.real_namespace()
    ref_base = R.ref_namespace()

    def stc(rng):
        return rng.choice("dddz")

    def sdim(rng):
        return rng.choice([0, 1, 2, 2, 3, 3, 4])

    def splitc(rng, m, n, tc, style=None):
        """source of a spmatrix literal of size (m, n) -> (source, style)"""
        style = style or rng.choice(["random", "random", "random", "empty", "full", "explicit-zeros", "duplicates",
                                     "empty-rows-cols"])
        if m * n == 0:
            return "spmatrix([], [], [], (%d,%d), '%s')" % (m, n, tc), "empty"
        if style == "empty":
            return "spmatrix([], [], [], (%d,%d), '%s')" % (m, n, tc), style
        if style == "full":
            pairs = [(i, j) for j in range(n) for i in range(m)]
            rng.shuffle(pairs)
        elif style == "empty-rows-cols":
            rows = [i for i in range(m) if rng.random() < 0.5] or [0]
            cols = [j for j in range(n) if rng.random() < 0.5] or [0]
            pairs = [(rng.choice(rows), rng.choice(cols)) for _ in range(rng.randint(1, 4))]
            pairs = list(dict.fromkeys(pairs))
        else:
            pairs = [(rng.randrange(m), rng.randrange(n)) for _ in range(rng.randint(1, min(6, m * n + 1)))]
            if style != "duplicates":
                pairs = list(dict.fromkeys(pairs))
            else:
                pairs.append(pairs[0])
                if rng.random() < 0.5:
                    pairs.append(pairs[0])
                rng.shuffle(pairs)
        vals = [rnum(rng, tc) for _ in pairs]
        if style == "explicit-zeros":
            vals[rng.randrange(len(vals))] = rnum(rng, tc) * 0
        return "spmatrix(%s, %s, %s, (%d,%d), '%s')" % (vals_src(vals), [p[0] for p in pairs], [p[1] for p in pairs],
                                                      m, n, tc), style

    def dlit(rng, tc, m, n):
        vals = [rnum(rng, tc) if rng.random() < 0.6 else rnum(rng, tc) * 0 for _ in range(m * n)]
        return "matrix(%s, (%d,%d), '%s')" % (vals_src(vals), m, n, tc)

    def one(c):
        rng = c.rng
        real = dict(real_base)
        ref = dict(ref_base)
        state = {"label": ""}

        def ccs_check(ls, name, obj, r, label):
            if R.kind_of(obj) != "sparse":
                return
            ctx.count("c16.ccs-checks")
            c.check()
            probs = CCS.check(obj)
            if probs:
                cls = label.split(":")[0]
                ls.fail("spmatrix:%s-after-%s" % (probs[0][0], cls),
                        "%s violates the CCS invariants after `%s`: %s" % (name, ls.program[-1], "; ".join(p[1] for p in probs[:3])))

        ls = Lockstep(c, ctx, real, ref, NAMES, "c16", extra_check=ccs_check)
        classes = set()

        def do(src, label, result=None):
            cls = label.split(":")[0]
            ctx.count("c16.class." + cls)
            classes.add(cls)
            return ls.step(src, label, result)

        def live(sp=None):
            return [n for n in ls.live() if sp is None or ls.ref[n].sp == sp]

        def pick(sp=None):
            l = live(sp)
            return rng.choice(l) if l else None

        def target():
            return rng.choice(NAMES)

        def note_shape(r):
            if r.m == 0 or r.n == 0:
                ctx.count("c16.shape.zero-dim")
            ctx.count("c16.tc." + r.tc)

        def mutate_result(name):
            r = ls.ref.get(name)
            if ls.dead or not isinstance(r, Ref) or r.m * r.n == 0:
                return
            k = rng.randrange(r.m * r.n)
            do("%s[%d] = %r" % (name, k, rnum(rng, r.tc if r.tc != "i" else "i")), "mutate-result")

        def pattern_unchanged(name, label, fn):
            """fn() executes one step; the stored pattern of `name` must be the same afterwards"""
            obj = ls.real.get(name)
            before = CCS.pattern(obj) if R.kind_of(obj) == "sparse" else None
            st = fn()
            if st == "ok" and before is not None and not ls.dead and ls.real.get(name) is obj:
                ctx.count("c16.pattern-unchanged-checks")
                c.check()
                after = CCS.pattern(obj)
                if after != before:
                    ls.fail("%s:pattern-changed" % label, "pattern of %s changed from %s to %s by `%s`" %
                            (name, before, after, ls.program[-1]))
            return st

        # ---- constructors ------------------------------------------------
        def g_spmatrix():
            t = target()
            m, n, tc = sdim(rng), sdim(rng), stc(rng)
            kind = rng.choice(["literal", "literal", "literal", "number-x", "matrix-x", "imat-IJ", "range-IJ", "no-size",
                               "no-tc", "tuple-x", "array-x", "invalid"])
            if kind == "literal":
                src, style = splitc(rng, m, n, tc)
                kind = "literal-" + style
                ctx.count({"duplicates": "c16.spmatrix.duplicates", "explicit-zeros": "c16.spmatrix.explicit-zeros",
                           "empty": "c16.spmatrix.empty-pattern"}.get(style, "c16.spmatrix.other"))
                ctx.count("c16.spmatrix.size-argument")
            else:
                mm, nn = max(m, 1), max(n, 1)
                cnt = rng.randint(0, 5)
                I = [rng.randrange(mm) for _ in range(cnt)]
                J = [rng.randrange(nn) for _ in range(cnt)]
                if cnt and rng.random() < 0.3:
                    I.append(I[0]); J.append(J[0]); cnt += 1
                    ctx.count("c16.spmatrix.duplicates")
                vals = [rnum(rng, rng.choice([tc, "d", "i"])) for _ in range(cnt)]
                if kind == "number-x":
                    src = "spmatrix(%r, %s, %s, (%d,%d))" % (rnum(rng, rng.choice(["i", "d", "z"])), I, J, mm, nn)
                elif kind == "matrix-x":
                    xtc = rng.choice("idz")
                    src = "spmatrix(matrix(%s, (%d,1), '%s'), %s, %s, (%d,%d))" % (vals_src([rnum(rng, xtc) for _ in range(cnt)]), cnt, xtc, I, J, mm, nn)
                elif kind == "imat-IJ":
                    src = "spmatrix(%s, matrix(%s, (%d,1), 'i'), matrix(%s, (1,%d), 'i'), (%d,%d))" % (vals_src(vals), I, cnt, J, cnt, mm, nn)
                elif kind == "range-IJ":
                    k = rng.randint(0, 4)
                    src = rng.choice(["spmatrix(%r, range(%d), range(%d))" % (rnum(rng, "d"), k, k),
                                      "spmatrix(%s, range(%d), (%s))" % (vals_src([rnum(rng, tc) for _ in range(k)]), k,
                                                                         "".join("%d, " % rng.randrange(3) for _ in range(k)))])
                elif kind == "no-size":
                    src = "spmatrix(%s, %s, %s)" % (vals_src(vals), I, J)
                elif kind == "no-tc":
                    src = "spmatrix(%s, %s, %s, (%d,%d))" % (vals_src(vals), I, J, mm + rng.choice([0, 2]), nn + rng.choice([0, 1]))
                    ctx.count("c16.spmatrix.size-argument")
                elif kind == "tuple-x":
                    src = "spmatrix(%s, %s, %s, (%d,%d), '%s')" % (tuple(vals), tuple(I), J, mm, nn, tc)
                elif kind == "array-x":
                    src = "spmatrix(array('d', %s), array('i', %s), array('l', %s), (%d,%d))" % (
                        vals_src([float(rnum(rng, "d")) for _ in range(cnt)]), I, J, mm, nn)
                else:
                    src = rng.choice([
                        "spmatrix([1.0, 2.0], [0, -1], [0, 1])", "spmatrix([1.0, 2.0], [0, 3], [0, 1], (2,2))",
                        "spmatrix([1.0, 2.0], [0, 1], [0, 1], (2,2), 'i')", "spmatrix([1.0, 2j], [0, 1], [0, 1], (2,2), 'd')",
                        "spmatrix([1.0], [0, 1], [0, 1])", "spmatrix([1.0, 2.0], [0], [0, 1])", "spmatrix([1.0, 2.0], [0, 1], [0])",
                        "spmatrix([1.0, 'a'], [0, 1], [0, 1])", "spmatrix([1.0, 2.0], [0, 1.0], [0, 1])",
                        "spmatrix([1.0, 2.0], [0, 1], [0, 1], (2,2), 'x')", "spmatrix([1.0, 2.0], [0, 1], [0, 1], (-2,2))",
                        "spmatrix([1.0, 2.0], [0, 1], [0, 1], (2,))", "spmatrix(matrix([1.0, 2.0, 3.0]), [0, 1], [0, 1])",
                        "spmatrix(1.0, matrix([0.0, 1.0]), [0, 1])", "spmatrix('a', [0], [0])", "spmatrix(None, [0], [0])"])
            if do("%s = %s" % (t, src), "spmatrix:" + kind) == "ok":
                note_shape(ls.ref[t])

        def g_sparse():
            t = target()
            kind = rng.choice(["dense", "dense-tc", "sparse", "sparse-tc", "blocks", "blocks", "column", "invalid", "scalars"])
            m, n, tc = sdim(rng), sdim(rng), stc(rng)
            if kind in ("dense", "dense-tc"):
                src = dlit(rng, rng.choice("idz"), m, n) if rng.random() < 0.6 or not live(False) else pick(False)
                src = "sparse(%s)" % src if kind == "dense" else "sparse(%s, '%s')" % (src, rng.choice("dz"))
            elif kind in ("sparse", "sparse-tc"):
                a = pick(True)
                arg = a if a and rng.random() < 0.6 else splitc(rng, m, n, tc, "explicit-zeros")[0]
                src = "sparse(%s)" % arg if kind == "sparse" else "sparse(%s, '%s')" % (arg, rng.choice("dz"))
            elif kind == "blocks":
                a, b = sdim(rng), sdim(rng)
                blocks = [[splitc(rng, m, n, tc)[0], dlit(rng, rng.choice("idz"), a, n)],
                          [dlit(rng, rng.choice("id"), m, b), splitc(rng, a, b, stc(rng))[0]]]
                if a == 1 and b == 1 and rng.random() < 0.5:
                    blocks[1][1] = repr(rnum(rng, rng.choice("id")))
                if rng.random() < 0.15:
                    blocks[1][1] = dlit(rng, "d", a + 1, b)
                src = "sparse([[%s, %s], [%s, %s]])" % (blocks[0][0], blocks[0][1], blocks[1][0], blocks[1][1])
                if rng.random() < 0.2:
                    src = src[:-1] + ", 'z')"
            elif kind == "scalars":
                # Python numbers as 1x1 blocks in ANY position of a block column of width 1 (one or two block columns)
                def col1():
                    items = []
                    for _ in range(rng.randint(2, 4)):
                        r_ = rng.random()
                        if r_ < 0.45:
                            items.append(repr(rnum(rng, rng.choice("id"))))
                        elif r_ < 0.75:
                            items.append(splitc(rng, sdim(rng), 1, stc(rng))[0])
                        else:
                            items.append(dlit(rng, rng.choice("id"), sdim(rng), 1))
                    return items
                c1 = col1()
                if rng.random() < 0.5:
                    src = "sparse([%s])" % ", ".join(c1)
                else:
                    src = "sparse([[%s], [%s]])" % (", ".join(c1), ", ".join(col1()))     # heights usually differ: TypeError both sides
                ctx.count("c16.sparse.scalar-blocks")
            elif kind == "column":
                a = pick(True)
                items = [a if a else splitc(rng, m, n, tc)[0]]
                w = ls.ref[a].n if a else n
                items.append(rng.choice([dlit(rng, "d", sdim(rng), w), splitc(rng, sdim(rng), w, stc(rng))[0]]))
                if w == 1 and rng.random() < 0.5:
                    items.append(repr(rnum(rng, "d")))
                src = "sparse([%s])" % ", ".join(items)
            else:
                src = rng.choice(["sparse(matrix([1.0, 2.0]), 'i')", "sparse(matrix([1.0, 2.0]), 'x')", "sparse([[1.0, 'a']])",
                                  "sparse([[matrix([1.0, 2.0])], [matrix([1.0])]])", "sparse(matrix([1j, 2.0]), 'd')"])
            if do("%s = %s" % (t, src), "sparse:" + kind) == "ok":
                note_shape(ls.ref[t])
                mutate_result(t)

        def g_spdiag():
            t = target()
            kind = rng.choice(["column", "row", "sparse-vector", "sparse-row-vector", "list", "list", "numbers"])
            k = rng.randint(0, 4)
            tc = rng.choice("idz")
            if kind == "column":
                src = "spdiag(%s)" % dlit(rng, tc, k, 1)
            elif kind == "row":
                src = "spdiag(%s)" % dlit(rng, tc, 1, max(k, 1))
            elif kind == "sparse-vector":
                src = "spdiag(%s)" % splitc(rng, max(k, 1), 1, stc(rng))[0]
            elif kind == "sparse-row-vector":
                ctx.count("c16.spdiag.sparse-row-vector")
                src = "spdiag(%s)" % splitc(rng, 1, max(k, 2), stc(rng))[0]
            elif kind == "numbers":
                src = "spdiag(%s)" % vals_src([rnum(rng, rng.choice("id")) for _ in range(k)])
            else:
                items = []
                for _ in range(rng.randint(1, 3)):
                    q = rng.randint(0, 3)
                    items.append(rng.choice([repr(rnum(rng, rng.choice("idz"))), dlit(rng, tc, q, q), splitc(rng, q, q, stc(rng))[0]]))
                src = "spdiag([%s])" % ", ".join(items)
            if do("%s = %s" % (t, src), "spdiag:" + kind) == "ok":
                note_shape(ls.ref[t])

        def g_dense():
            t = target()
            do("%s = %s" % (t, dlit(rng, rng.choice("ddz"), sdim(rng), sdim(rng))), "dense-helper")

        def g_alias():
            p = pick()
            do("%s = %s" % (target(), p), "alias")

        # ---- indexing -----------------------------------------------------
        def g_getitem(two):
            p = pick(True) or pick()
            r = ls.ref[p]
            if two:
                k1, s1, sc1 = index_src(rng, r.m, ls)
                k2, s2, sc2 = index_src(rng, r.n, ls)
                ctx.count("c16.index." + k1); ctx.count("c16.index." + k2)
                src, scalar, label = "%s[%s, %s]" % (p, s1, s2), (sc1 and sc2), "getitem2:" + primary(k1, k2)
            else:
                k1, s1, scalar = index_src(rng, r.m * r.n, ls)
                ctx.count("c16.index." + k1)
                src, label = "%s[%s]" % (p, s1), "getitem1:" + k1
            if scalar:
                do("_ = " + src, label, "_")
            else:
                t = target()
                if do("%s = %s" % (t, src), label) == "ok":
                    note_shape(ls.ref[t])
                    if rng.random() < 0.5:
                        mutate_result(t)

        def g_setitem(two):
            p = pick(True) or pick()
            r = ls.ref[p]
            if two:
                k1, s1, _ = index_src(rng, r.m, ls)
                k2, s2, _ = index_src(rng, r.n, ls)
                ctx.count("c16.index." + k1); ctx.count("c16.index." + k2)
                lhs, kinds, keysrc = "%s[%s, %s]" % (p, s1, s2), primary(k1, k2), s1 + ", " + s2
            else:
                k1, s1, _ = index_src(rng, r.m * r.n, ls)
                ctx.count("c16.index." + k1)
                lhs, kinds, keysrc = "%s[%s]" % (p, s1), k1, s1
            kk, vv = R.evaluate(lambda: r._resolve(eval("_K[%s]" % keysrc, dict(ls.ref, _K=_KeyGrab()))))
            br, bc = vv[2] if kk == "value" else (sdim(rng), 1)
            rk = rng.choice(["num", "num", "num-zero", "num-z", "mat1x1", "list", "tuple", "dense", "dense", "dense-z",
                             "dense-wrongsize", "sparse", "sparse", "sparse-z", "sparse-wrongsize", "pool", "poolslice", "bad"])
            tc = r.tc
            if rk == "num":
                rhs = repr(rnum(rng, rng.choice(["d", "i", tc])))
            elif rk == "num-zero":
                rhs = rng.choice(["0", "0.0"])
            elif rk == "num-z":
                rhs = repr(rnum(rng, "z"))
            elif rk == "mat1x1":
                rhs = "matrix(%r)" % (rnum(rng, rng.choice(["d", "i", tc])),)
            elif rk in ("list", "tuple"):
                cnt = br * bc + rng.choice([0, 0, 0, 0, 1, -1])
                vals = [rnum(rng, rng.choice(["d", "i", tc])) for _ in range(max(cnt, 0))]
                rhs = vals_src(vals) if rk == "list" else repr(tuple(vals))
            elif rk == "dense":
                rhs = dlit(rng, rng.choice(["d", "i", tc]), br, bc)
            elif rk == "dense-z":
                rhs = dlit(rng, "z", br, bc)
            elif rk == "dense-wrongsize":
                rhs = rng.choice([dlit(rng, "d", bc, br + 1), dlit(rng, "d", br + 1, bc), dlit(rng, "d", br * bc, 1) if bc != 1 else dlit(rng, "d", 1, br + 1)])
            elif rk == "sparse":
                rhs = splitc(rng, br, bc, rng.choice(["d", tc]))[0]
            elif rk == "sparse-z":
                rhs = splitc(rng, br, bc, "z")[0]
            elif rk == "sparse-wrongsize":
                rhs = rng.choice([splitc(rng, bc, br + 1, "d")[0], splitc(rng, br + 1, bc, "d")[0]])
            elif rk == "pool":
                rhs = pick()
            elif rk == "poolslice":
                q = pick()
                rhs = rng.choice(["%s[:%d, :%d]" % (q, br, bc), "%s[:%d]" % (q, br * bc), "%s.T" % q])
            else:
                rhs = rng.choice(["'x'", "None", "[1, 'a']"])
            do("%s = %s" % (lhs, rhs), ("setitem2:" if two else "setitem1:") + "rhs-" + rk + ":" + kinds)

        # ---- arithmetic -----------------------------------------------------
        def operand(x, op):
            rx = ls.ref[x]
            k = rng.choice(["num", "num", "m11", "sparse-same", "sparse-same", "dense-same", "dense-same", "pool", "poolT",
                            "self", "bad"])
            if k == "num":
                return "number", repr(rnum(rng, rng.choice("iddz")))
            if k == "m11":
                return "1x1", "matrix(%r)" % (rnum(rng, rng.choice("iddz")),)
            if k == "sparse-same":
                if op == "*":
                    return "sparse", splitc(rng, rx.n, sdim(rng), stc(rng))[0]
                return "sparse", splitc(rng, rx.m, rx.n, stc(rng))[0]
            if k == "dense-same":
                if op == "*":
                    return "dense", dlit(rng, rng.choice("idz"), rx.n, sdim(rng))
                return "dense", dlit(rng, rng.choice("idz"), rx.m, rx.n)
            if k == "pool":
                q = pick()
                return ("sparse" if ls.ref[q].sp else "dense"), q
            if k == "poolT":
                q = pick()
                return ("sparse" if ls.ref[q].sp else "dense"), q + ".T"
            if k == "self":
                return ("sparse" if rx.sp else "dense"), x
            return "bad", rng.choice(["'a'", "None", "[1, 2]"])

        def g_binop():
            x = pick(True) or pick()
            xk = "sparse" if ls.ref[x].sp else "dense"
            op = rng.choice(["+", "+", "-", "-", "*", "*", "*", "/", "/", "%", "**"])
            if op == "**":
                src, pairing = "%s ** %s" % (x, rng.choice(["2", "0.5", "-1"])), xk + "-number"
            elif op in ("/", "%"):
                y = rng.choice(["2", "-4", "0", "2.5", "0.0", "0.5", "(1+1j)", "matrix(2)", "matrix(0.5)", "matrix(0.0)",
                                "matrix(2j)", "matrix([1.0, 2.0])", repr(rnum(rng, "d")), "spmatrix([2.0], [0], [0])"])
                pairing = xk + ("-1x1" if y.startswith("matrix(") else "-number")
                src = "%s %s %s" % (x, op, y) if rng.random() < 0.93 else "%s %s %s" % (rng.choice(["2", "3.0"]), op, x)
            else:
                yk, y = operand(x, op)
                if rng.random() < 0.4 and yk != "bad":
                    src, pairing = "%s %s %s" % (y, op, x), yk + "-" + xk
                else:
                    src, pairing = "%s %s %s" % (x, op, y), xk + "-" + yk
            ctx.count("c16.operands." + pairing)
            ctx.count("c16.binop." + op)
            t = target()
            if do("%s = %s" % (t, src), "binop:%s:%s" % (op, pairing)) == "ok":
                note_shape(ls.ref[t])
                if rng.random() < 0.6:
                    mutate_result(t)

        def g_inplace():
            x = pick(True) or pick()
            op = rng.choice(["+=", "+=", "-=", "-=", "*=", "*=", "/=", "/=", "%="])
            if rng.random() < 0.2 and pick(False):
                # dense left-hand side: "A += B" with B sparse keeps A dense, so it is an allowed
                # in-place operation and must modify the object that all aliases of A see
                x = pick(False)
                if rng.random() < 0.7:
                    rx = ls.ref[x]
                    y = splitc(rng, rx.m, rx.n, stc(rng))[0] if rng.random() < 0.7 else (pick(True) or "0")
                    op = rng.choice(["+=", "-="])
                    ctx.count("c16.operands.dense-sparse")
                    ctx.count("c16.inplace." + op)
                    ctx.count("c16.inplace-dense-lhs-sparse-rhs")
                    do("%s %s %s" % (x, op, y), "inplace:%s:dense-sparse" % op)
                    return
            xk = "sparse" if ls.ref[x].sp else "dense"
            if op in ("/=", "%=", "*=") and rng.random() < 0.75:
                y = rng.choice(["2", "-4", "0", "2.5", "0.0", "0.5", "(1+1j)", "matrix(2)", "matrix(0.5)", "matrix(2j)",
                                "matrix([1.0, 2.0])", repr(rnum(rng, "d"))])
                pairing = xk + ("-1x1" if y.startswith("matrix(") else "-number")
            else:
                yk, y = operand(x, "+")
                pairing = xk + "-" + yk
            ctx.count("c16.operands." + pairing)
            ctx.count("c16.inplace." + op)
            do("%s %s %s" % (x, op, y), "inplace:%s:%s" % (op, pairing))

        def g_unary():
            p, t = (pick(True) or pick()), target()
            f, lab = rng.choice([("+%s", "pos"), ("-%s", "neg"), ("%s.T", "T"), ("%s.H", "H"), ("%s.trans()", "trans"),
                                 ("%s.ctrans()", "ctrans"), ("%s.real()", "real"), ("%s.imag()", "imag"), ("abs(%s)", "abs")])
            if do("%s = %s" % (t, f % p), "unary:" + lab) == "ok":
                note_shape(ls.ref[t])
                if rng.random() < 0.6:
                    mutate_result(t)

        def g_vassign():
            p = pick(True)
            if p is None:
                return g_spmatrix()
            r = ls.ref[p]
            nnz = len(r.pat) if r.pat is not None else 0
            kind = rng.choice(["same", "same", "same", "wrong-length", "other-tc", "row", "number", "list", "sparse"])
            if kind == "same":
                rhs = lit(rng, r.tc, nnz, 1)
            elif kind == "wrong-length":
                rhs = lit(rng, r.tc, nnz + rng.choice([1, 2]), 1) if nnz == 0 or rng.random() < 0.5 else lit(rng, r.tc, nnz - 1, 1)
            elif kind == "other-tc":
                rhs = lit(rng, rng.choice([t for t in "idz" if t != r.tc]), nnz, 1)
            elif kind == "row":
                rhs = lit(rng, r.tc, 1, nnz)
            elif kind == "number":
                rhs = repr(rnum(rng, "d"))
            elif kind == "list":
                rhs = vals_src([rnum(rng, "d") for _ in range(nnz)])
            else:
                rhs = splitc(rng, max(nnz, 1), 1, r.tc, "full")[0]
            pattern_unchanged(p, "V-assign:" + kind, lambda: do("%s.V = %s" % (p, rhs), "V-assign:" + kind))

        def g_attr():
            p = pick(True)
            if p is None:
                return g_spmatrix()
            a = rng.choice(["V", "I", "J", "V"])
            t = target()
            if do("%s = %s.%s" % (t, p, a), "attr-read:" + a) == "ok":
                mutate_result(t)        # "a *copy* of V is returned"

        def g_size():
            p = pick(True) or pick()
            r = ls.ref[p]
            k = r.m * r.n
            kind = rng.choice(["valid", "valid", "valid", "wrong-product", "negative", "list", "3-tuple"])
            if kind == "valid":
                src = "(%d, %d)" % ((lambda d: (d, k // d))(rng.choice(divisors(k)))) if k else rng.choice(["(0, 0)", "(0, 3)", "(2, 0)"])
            elif kind == "wrong-product":
                src = "(%d, %d)" % (r.m + 1, max(r.n, 1))
            elif kind == "negative":
                src = "(%d, %d)" % (-r.m if r.m else -1, -r.n if r.n else -1)
            elif kind == "list":
                src = "[%d, %d]" % (r.n, r.m)
            else:
                src = "(%d, %d, 1)" % (r.m, r.n)
            do("%s.size = %s" % (p, src), "size:" + kind)

        def g_setitem1_sparse_mixed_tc():
            """A[I] = v, one-argument (linear) index, A complex sparse with stored entries, v a real sparse vector whose
            stored entries hit positions that are already stored in A, newly stored ones and structural zeros"""
            t = target()
            m, n = rng.randint(1, 3), rng.randint(2, 3)
            N = m * n
            cells = [(i, j) for j in range(n) for i in range(m) if rng.random() < 0.6] or [(0, 0)]
            zv = [complex(rng.randint(1, 5), rng.randint(1, 5)) for _ in cells]
            if do("%s = spmatrix(%s, %s, %s, (%d,%d))" % (t, vals_src(zv), [i for i, _ in cells], [j for _, j in cells], m, n),
                  "spmatrix:for-mixed-typecode-assignment") != "ok":
                return
            pos = [k for k in range(N) if rng.random() < 0.7] or [0]
            dv = [float(rng.randint(1, 9) * 10) for _ in pos]
            idx = rng.choice([":", str(list(range(N))), str(list(range(-N, 0)))])
            ctx.count("c16.setitem1.real-sparse-into-complex-sparse")
            do("%s[%s] = spmatrix(%s, %s, %s, (%d,1))" % (t, idx, vals_src(dv), pos, [0] * len(pos), N), "setitem1:rhs-sparse:real-into-complex")

        def g_hugeindex():
            """integer indices beyond the C long range on a sparse matrix: refused, and the matrix is left alone"""
            p = pick(True)
            if p is None:
                return
            r = ls.ref[p]
            if r.m * r.n == 0:
                return
            big = rng.choice([2**70, -2**70, 2**63, 2**64 + 1])
            form = rng.choice(["get1", "get2r", "get2c", "set1", "set2r", "set2c", "set1", "set2r"])
            ctx.count("c16.index-beyond-int64")
            idx = {"1": "%d" % big, "2r": "%d, %d" % (big, rng.randrange(r.n)), "2c": "%d, %d" % (rng.randrange(r.m), big)}[form[3:]]
            if form.startswith("get"):
                do("_ = %s[%s]" % (p, idx), "getitem:index-beyond-int64", "_")
            else:
                do("%s[%s] = %r" % (p, idx, rnum(rng, "d")), "setitem:index-beyond-int64")

        def g_query():
            p = pick(True) or pick()
            r = ls.ref[p]
            q = rng.choice(["len", "bool", "max", "min", "sum", "list", "in", "in", "tuple", "size", "typecode", "emax1", "emin1"])
            if q == "in":
                x = rng.choice(r.v) if (r.v and rng.random() < 0.6) else rnum(rng, rng.choice("dz"))
                src = "%r in %s" % (x, p)
            else:
                src = {"len": "len(%s)", "bool": "bool(%s)", "max": "bmax(%s)", "min": "bmin(%s)", "sum": "bsum(%s)",
                       "list": "list(%s)", "tuple": "tuple(%s)", "size": "%s.size", "typecode": "%s.typecode",
                       "emax1": "emax(%s)", "emin1": "emin(%s)"}[q] % p
            do("_ = " + src, "query:" + q, "_")

        def g_elementwise():
            p, t = (pick(True) or pick()), target()
            rp = ls.ref[p]
            f = rng.choice(["mul", "mul", "div", "emax", "emin"])

            def other():
                k = rng.choice(["sparse", "sparse", "dense", "num", "m11", "pool"])
                if k == "sparse":
                    return splitc(rng, rp.m, rp.n, rng.choice(["d", rp.tc]))[0]
                if k == "dense":
                    return dlit(rng, rng.choice(["d", "i"]), rp.m, rp.n) if f != "div" else lit(rng, "d", rp.m, rp.n)
                if k == "num":
                    return repr(rnum(rng, rng.choice("id")))
                if k == "m11":
                    return "matrix(%r)" % (rnum(rng, "d"),)
                return pick()
            if f == "div":
                src = "div(%s, %s)" % (p, rng.choice([lit(rng, "d", rp.m, rp.n), "2.0", "matrix(0.5)", "4", other()]))
            else:
                args = [p] + [other() for _ in range(rng.choice([1, 1, 2]))]
                rng.shuffle(args)
                src = "%s(%s)" % (f, ", ".join(args)) if rng.random() < 0.8 else "%s([%s])" % (f, ", ".join(args))
            if do("%s = %s" % (t, src), "elementwise:" + f) == "ok" and isinstance(ls.ref.get(t), Ref):
                note_shape(ls.ref[t])

        # ---- cvxopt.base routines used by the solvers --------------------------
        def mat_src(kind, m, n, tc):
            return splitc(rng, m, n, tc)[0] if kind == "s" else lit(rng, tc, m, n)

        def scal_src(tc, allow_none=True):
            ch = [None, None, "1.0", "2.0", "-1.5", "0.0", "2", "0"] if allow_none else ["1.0", "2.0", "-0.5", "0.0"]
            if tc == "z":
                ch += ["(1+2j)", "-1j"]
            return rng.choice(ch)

        def kw(**items):
            return "".join(", %s=%s" % (k, v) for k, v in items.items() if v is not None)

        def fresh(name_hint, kind, m, n, tc):
            """bind a fresh operand to a pool name and return the name"""
            nm = rng.choice(NAMES)
            do("%s = %s" % (nm, mat_src(kind, m, n, tc)), "base-operand")
            return nm

        def g_axpy():
            tc = stc(rng)
            m, n = sdim(rng), sdim(rng)
            kx, ky = rng.choice("sd"), rng.choice("ssd")
            y = fresh("y", ky, m, n, tc)
            if ls.dead:
                return
            x = mat_src(kx, m, n, tc)
            if rng.random() < 0.08:
                x = mat_src(kx, m, n, "z" if tc == "d" else "d")
            partial = rng.choice([None, None, "True", "False"]) if ky == "s" else rng.choice([None, None, "True"])
            if partial == "True":
                ctx.count("c16.partial.True")
            lab = "base.axpy:%s%s:%s" % (kx, ky, "partial" if partial == "True" else "full")
            ctx.count("c16.base.axpy." + lab.split(":", 1)[1])
            f = lambda: do("axpy(%s, %s%s)" % (x, y, kw(alpha=scal_src(tc), partial=partial)), lab)
            if partial == "True" and ky == "s":
                pattern_unchanged(y, lab, f)
            else:
                f()

        def g_gemm():
            tc = stc(rng)
            m, n, k = sdim(rng), sdim(rng), sdim(rng)
            ka, kb, kc = rng.choice("sd"), rng.choice("sd"), rng.choice("ssd")
            tA, tB = rng.choice("NNTC"), rng.choice("NNTC")
            forced = rng.random() < 0.15
            if forced:
                # all-sparse complex product restricted to C's pattern, with exactly one conjugate-transposed factor
                tc, ka, kb, kc = "z", "s", "s", "s"
                tA, tB = rng.choice([("C", "N"), ("N", "C"), ("C", "T"), ("T", "C")])
                m, n, k = max(m, 2), max(n, 2), max(k, 2)
                ctx.count("c16.base.gemm.all-sparse-complex-partial-one-conjugate")
            C = fresh("C", kc, m, n, tc)
            if ls.dead:
                return
            A = mat_src(ka, *((m, k) if tA == "N" else (k, m)), tc)
            B = mat_src(kb, *((k, n) if tB == "N" else (n, k)), tc)
            partial = "True" if forced else rng.choice([None, None, "True", "False"])
            if partial == "True":
                ctx.count("c16.partial.True")
            lab = "base.gemm:%s%s%s:%s" % (ka, kb, kc, "partial" if partial == "True" else "full")
            ctx.count("c16.base.gemm.%s%s%s.%s%s" % (ka, kb, kc, tA, tB))
            f = lambda: do("gemm(%s, %s, %s%s)" % (A, B, C, kw(transA=repr(tA) if tA != "N" or rng.random() < 0.3 else None,
                                                               transB=repr(tB) if tB != "N" or rng.random() < 0.3 else None,
                                                               alpha=scal_src(tc), beta=scal_src(tc), partial=partial)), lab)
            if partial == "True" and kc == "s":
                pattern_unchanged(C, lab, f)
            else:
                f()

        def g_syrk():
            tc = stc(rng)
            n, k = sdim(rng), sdim(rng)
            ka, kc = rng.choice("sd"), rng.choice("ssd")
            trans, uplo = rng.choice("NT"), rng.choice("LU")
            C = fresh("C", kc, n, n, tc)
            if ls.dead:
                return
            A = mat_src(ka, *((n, k) if trans == "N" else (k, n)), tc)
            partial = rng.choice([None, None, "True", "False"])
            if partial == "True":
                ctx.count("c16.partial.True")
            lab = "base.syrk:%s%s:%s" % (ka, kc, "partial" if partial == "True" else "full")
            ctx.count("c16.base.syrk.%s%s.%s%s" % (ka, kc, uplo, trans))
            f = lambda: do("syrk(%s, %s%s)" % (A, C, kw(uplo=repr(uplo) if uplo != "L" or rng.random() < 0.3 else None,
                                                       trans=repr(trans) if trans != "N" or rng.random() < 0.3 else None,
                                                       alpha=scal_src(tc), beta=scal_src(tc), partial=partial)), lab)
            if partial == "True" and kc == "s":
                pattern_unchanged(C, lab, f)
            else:
                f()

        def g_gemv():
            tc = stc(rng)
            M, N = rng.choice([1, 2, 3, 4]), rng.choice([1, 2, 3, 4])
            if rng.random() < 0.15:
                M, N = sdim(rng), sdim(rng)
            ka = rng.choice("ssd")
            trans = rng.choice("NNTC")
            sub = rng.random() < 0.35 and M > 0 and N > 0
            if sub:
                i0, j0 = rng.randrange(M), rng.randrange(N)
                m, n = rng.randint(0, M - i0), rng.randint(0, N - j0)
                offA = i0 + j0 * M
            else:
                m, n, offA = M, N, 0
            lx, ly = (n, m) if trans == "N" else (m, n)
            incx, incy = rng.choice([1, 1, 2, -1]), rng.choice([1, 1, 2, -1])
            ox, oy = rng.choice([0, 0, 1, 2]), rng.choice([0, 0, 1])
            xlen = ox + max(lx - 1, 0) * abs(incx) + 1 + rng.choice([0, 0, 2])
            ylen = oy + max(ly - 1, 0) * abs(incy) + 1 + rng.choice([0, 0, 1])
            y = fresh("y", "d", ylen, 1, tc)
            if ls.dead:
                return
            A = mat_src(ka, M, N, tc)
            x = lit(rng, tc, xlen, 1)
            args = kw(trans=repr(trans) if trans != "N" or rng.random() < 0.3 else None, alpha=scal_src(tc), beta=scal_src(tc),
                      m=m if sub else rng.choice([None, None, -1]), n=n if sub else None,
                      incx=incx if incx != 1 else None, incy=incy if incy != 1 else None,
                      offsetA=offA if sub else None, offsetx=ox if ox else None, offsety=oy if oy else None)
            ctx.count("c16.base.gemv.%s.%s%s" % (ka, trans, ".sub" if sub else ""))
            if incx < 0 or incy < 0:
                ctx.count("c16.base.gemv.negative-increment")
            do("gemv(%s, %s, %s%s)" % (A, x, y, args), "base.gemv:%s" % ("sparse-A" if ka == "s" else "dense-A"))

        def g_symv():
            n = rng.choice([0, 1, 2, 3, 4])
            ka = rng.choice("ssd")
            uplo = rng.choice("LU")
            incx, incy = rng.choice([1, 1, 2, -1]), rng.choice([1, 1, 2])
            ox, oy = rng.choice([0, 0, 1]), rng.choice([0, 0, 2])
            xlen = ox + max(n - 1, 0) * abs(incx) + 1
            ylen = oy + max(n - 1, 0) * abs(incy) + 1 + rng.choice([0, 1])
            y = fresh("y", "d", ylen, 1, "d")
            if ls.dead:
                return
            sub = rng.random() < 0.4 and n > 0
            if sub:
                # the symmetric block sits inside a larger (not necessarily square) matrix: order n and offsetA explicit,
                # row offset and column offset drawn independently
                Mh, Nh = n + rng.randint(0, 2), n + rng.randint(0, 2)
                i0, j0 = rng.randint(0, Mh - n), rng.randint(0, Nh - n)
                A = mat_src(ka, Mh, Nh, "d")
                offA = i0 + j0 * Mh
                ctx.count("c16.base.symv.sub-block")
            else:
                A = mat_src(ka, n, n, "d")
            x = lit(rng, "d", xlen, 1)
            args = kw(uplo=repr(uplo) if uplo != "L" or rng.random() < 0.3 else None, alpha=scal_src("d"), beta=scal_src("d"),
                      n=n if sub else None, offsetA=offA if sub else None,
                      incx=incx if incx != 1 else None, incy=incy if incy != 1 else None,
                      offsetx=ox if ox else None, offsety=oy if oy else None)
            ctx.count("c16.base.symv.%s.%s" % (ka, uplo))
            do("symv(%s, %s, %s%s)" % (A, x, y, args), "base.symv:%s" % ("sparse-A" if ka == "s" else "dense-A"))

        GENS = [(g_hugeindex, 1.0), (g_setitem1_sparse_mixed_tc, 1.5), (g_spmatrix, 10), (g_sparse, 5), (g_spdiag, 3), (g_dense, 2), (g_alias, 3),
                (lambda: g_getitem(False), 7), (lambda: g_getitem(True), 8), (lambda: g_setitem(False), 8),
                (lambda: g_setitem(True), 10), (g_binop, 14), (g_inplace, 9), (g_unary, 6), (g_vassign, 4), (g_attr, 2),
                (g_size, 3), (g_query, 5), (g_elementwise, 5), (g_axpy, 3), (g_gemm, 4), (g_syrk, 3), (g_gemv, 4), (g_symv, 2)]
        tot = sum(w for _, w in GENS)

        for nm in NAMES[:3]:
            src, style = splitc(rng, sdim(rng), sdim(rng), stc(rng))
            ctx.count("c16.class.spmatrix")
            ls.step("%s = %s" % (nm, src), "spmatrix:initial-" + style)
            if nm in ls.ref:
                note_shape(ls.ref[nm])
        do("D = %s" % dlit(rng, rng.choice("dz"), sdim(rng), sdim(rng)), "dense-helper")
        nsteps = rng.randint(8, 30)
        while len(ls.program) < nsteps and not ls.dead:
            for nm in ls.live():
                r = ls.ref[nm]
                if any(not (abs(x) <= 1e6) for x in r.v):
                    ls.step("%s = %s" % (nm, splitc(rng, min(r.m, 3), min(r.n, 3), r.tc if r.tc != "i" else "d")[0]), "spmatrix:renew")
            x = rng.uniform(0, tot)
            for g, w in GENS:
                x -= w
                if x <= 0:
                    g()
                    break
        c.desc["program"] = list(ls.program)
        c.desc["unspecified_steps"] = ls.nunspec
        c.cls(",".join(sorted(classes)))
        if c.k < 2:
            ctx.sample({"program": ls.program[:10]})

    class _KeyGrab(object):
        def __getitem__(self, key):
            return key

    runner = R.ForkRunner(ctx, one)
    try:
        for k in ctx.cases():
            ctx.run_case(k, {}, runner.run)
    finally:
        runner.close()
