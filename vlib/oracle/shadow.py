"""SHADOW of a cvxopt.modeling expression tree (written from doc/source/modeling.rst).

Every Node carries
  fn    closure: {var idx -> 1-D numpy array} -> 1-D numpy array (the formula)
  mg    closure: same formula on absolute values (rounding scale of fn)
  L     length by the documented broadcasting rule
  curv  'affine' | 'convex' | 'concave'  (composition rules of modeling.rst)
  vars  frozenset of variable indices the formula mentions
  bad   None, or the reason the documentation refuses the combination
        ('dim:...', 'curv:...', 'index:...'); a bad node has no fn.
Constant operands are K objects (python numbers, dense/sparse matrices).

The tree is generated and judged without importing cvxopt; `realize` applies
the real operators bottom-up and reports every node to a hook.
"""
import numpy as np

AFF, CVX, CCV = "affine", "convex", "concave"


# ----------------------------------------------------------------------
class Var:
    def __init__(self, idx, n, name):
        self.idx, self.n, self.name = idx, n, name

    def __repr__(self):
        return "Var(%s,%d)" % (self.name, self.n)


def _num(v):
    v = float(v)
    if v == int(v) and abs(v) < 1e6:
        return "%d." % int(v)
    return repr(v)


class K:
    """constant operand.  kind: int float d11 col spcol row sprow mat spmat sp11"""

    def __init__(self, kind, arr):
        self.kind = kind
        self.a = np.array(arr, dtype=float)
        if self.a.ndim == 0:
            self.a = self.a.reshape(1, 1)
        elif self.a.ndim == 1:
            self.a = self.a.reshape(-1, 1)
        self._real = None

    @property
    def shape(self):
        return self.a.shape

    @property
    def is_scalar(self):            # documented scalars: number or dense 1x1
        return self.kind in ("int", "float", "d11")

    @property
    def is_sparse(self):
        return self.kind in ("spcol", "sprow", "spmat", "sp11")

    @property
    def is_matrix(self):
        return self.kind not in ("int", "float")

    @property
    def s(self):
        return float(self.a[0, 0])

    def real(self):
        """the cvxopt / python object (one per K: the same object is handed to the operator
        and, later, mutated by the aliasing test)"""
        if self._real is None:
            from cvxopt import matrix, spmatrix
            if self.kind == "int":
                self._real = int(self.a[0, 0])
            elif self.kind == "float":
                self._real = float(self.a[0, 0])
            elif self.is_sparse:
                m, n = self.a.shape
                I, J, V = [], [], []
                for j in range(n):
                    for i in range(m):
                        if self.a[i, j] != 0.0:
                            I.append(i); J.append(j); V.append(float(self.a[i, j]))
                self._real = spmatrix(V, I, J, (m, n), "d")
            else:
                m, n = self.a.shape
                self._real = matrix([float(v) for v in self.a.reshape(-1, order="F")], (m, n), "d")
        return self._real

    def src(self):
        if self.kind == "int":
            return "%d" % int(self.a[0, 0])
        if self.kind == "float":
            return repr(float(self.a[0, 0]))
        m, n = self.a.shape
        body = "[" + ",".join(_num(v) for v in self.a.reshape(-1, order="F")) + "]"
        s = "matrix(%s,(%d,%d))" % (body, m, n)
        if self.is_sparse:
            s = "sparse(%s)" % s
        return s

    def __repr__(self):
        return "K(%s)" % self.src()


class Node:
    __slots__ = ("op", "kids", "L", "curv", "vars", "fn", "mg", "bad", "meta", "var")

    def __init__(self, op, kids, L, curv, fn, mg, bad=None, meta=None, var=None):
        self.op, self.kids, self.L, self.curv, self.fn, self.mg = op, kids, L, curv, fn, mg
        self.bad, self.meta, self.var = bad, meta, var
        vs = set()
        if var is not None:
            vs.add(var.idx)
        for k in kids:
            if isinstance(k, Node):
                vs |= k.vars
        self.vars = frozenset(vs)

    def nodes(self):
        for k in self.kids:
            if isinstance(k, Node):
                for n in k.nodes():
                    yield n
        yield self

    def depth(self):
        if self.bad is not None and self.L is None:
            return 1 + max([k.depth() for k in self.kids if isinstance(k, Node)] + [0])
        d = 0
        for k in self.kids:
            if isinstance(k, Node):
                d = max(d, k.depth())
        return d + (0 if self.op == "var" else 1)

    def ispwl(self):
        return self.curv != AFF


def _bad(op, kids, reason, meta=None):
    return Node(op, kids, None, None, None, None, bad=reason, meta=meta)


def _len(o):
    """length of an operand as a column vector; None if it is not a column"""
    if isinstance(o, Node):
        return o.L
    if o.kind in ("int", "float"):
        return 1
    return o.shape[0] if o.shape[1] == 1 else None


def _ev(o):
    if isinstance(o, Node):
        return o.fn
    v = o.a.reshape(-1, order="F").copy()
    return lambda vals: v


def _mgf(o):
    if isinstance(o, Node):
        return o.mg
    v = np.abs(o.a.reshape(-1, order="F"))
    return lambda vals: v


def _curv(o):
    return o.curv if isinstance(o, Node) else AFF


def _flip(c):
    return {AFF: AFF, CVX: CCV, CCV: CVX}[c]


def _bc(v, L):
    return v if len(v) == L else np.full(L, v[0])


# ----------------------------------------------------------------------
# constructors (documentation rules)
def n_var(v):
    return Node("var", [], v.n, AFF, lambda vals: vals[v.idx], lambda vals: np.abs(vals[v.idx]), var=v)


def n_pos(f):
    return Node("pos", [f], f.L, f.curv, f.fn, f.mg)


def n_neg(f):
    fn = f.fn
    return Node("neg", [f], f.L, _flip(f.curv), lambda vals: -fn(vals), f.mg)


def n_add(a, b, sign=1, inplace=False):
    op = ("i" if inplace else "") + ("add" if sign > 0 else "sub")
    kids = [a, b]
    for o in kids:
        if isinstance(o, K):
            if o.is_matrix and o.shape[1] != 1:
                return _bad(op, kids, "dim:constant-not-a-column")
            if o.kind == "sp11":
                pass
    la, lb = _len(a), _len(b)
    if not (la == lb or la == 1 or lb == 1):
        return _bad(op, kids, "dim:length-mismatch")
    for o, lo, lother in ((a, la, lb), (b, lb, la)):
        if isinstance(o, K) and o.is_sparse and lo == 1 and lother != 1:
            return _bad(op, kids, "unjudged:sparse-1x1-broadcast")
    if inplace and lb not in (la, 1):
        return _bad(op, kids, "dim:inplace-changes-length")
    L = max(la, lb)
    ca, cb = _curv(a), _curv(b)
    if sign < 0:
        cb = _flip(cb)
    if ca == AFF:
        cv = cb
    elif cb == AFF or cb == ca:
        cv = ca
    else:
        return _bad(op, kids, "curv:convex-with-concave")
    fa, fb, ma, mb = _ev(a), _ev(b), _mgf(a), _mgf(b)
    if sign > 0:
        fn = lambda vals: _bc(fa(vals), L) + _bc(fb(vals), L)
    else:
        fn = lambda vals: _bc(fa(vals), L) - _bc(fb(vals), L)
    mg = lambda vals: _bc(ma(vals), L) + _bc(mb(vals), L)
    return Node(op, kids, L, cv, fn, mg)


def _scaled(op, kids, f, alpha, meta=None):
    fn, mgf = f.fn, f.mg
    if alpha > 0:
        cv = f.curv
    elif alpha < 0:
        cv = _flip(f.curv)
    else:
        cv = AFF
    a = float(alpha)
    return Node(op, kids, f.L, cv, lambda vals: a * fn(vals), lambda vals: abs(a) * mgf(vals), meta=meta)


def n_smul(k, f, side="l", inplace=False):
    """scalar k (int, float, dense 1x1) times f"""
    op = "imul" if inplace else ("smul" if side == "l" else "smulr")
    kids = [k, f] if side == "l" and not inplace else [f, k]
    if not k.is_scalar:
        return _bad(op, kids, "dim:not-a-scalar")
    return _scaled(op, kids, f, k.s)


def n_div(f, k, inplace=False):
    op = "idiv" if inplace else "div"
    if not k.is_scalar:
        return _bad(op, [f, k], "dim:not-a-scalar")
    return _scaled(op, [f, k], f, 1.0 / k.s)


def n_mmul(A, f):
    """A * f with A a matrix constant"""
    kids = [A, f]
    if A.kind == "sp11" and f.L != 1:
        return _bad("mmul", kids, "unjudged:sparse-1x1")
    if A.shape == (1, 1) and (A.kind == "d11" or f.L == 1):
        return _scaled("mmul", kids, f, A.s)
    if A.shape[1] != f.L:
        return _bad("mmul", kids, "dim:matrix-columns")
    if f.curv != AFF:
        return _bad("mmul", kids, "curv:matrix-times-pwl")
    M, aM, fn, mgf = A.a.copy(), np.abs(A.a), f.fn, f.mg
    return Node("mmul", kids, A.shape[0], AFF, lambda vals: M @ fn(vals), lambda vals: aM @ mgf(vals))


def n_rmul(f, a):
    """f * a with a matrix constant (only len(f)==1 and one column is documented)"""
    kids = [f, a]
    if a.kind == "sp11" and f.L != 1:
        return _bad("rmul", kids, "unjudged:sparse-1x1")
    if a.shape == (1, 1) and (a.kind == "d11" or f.L == 1):
        return _scaled("rmul", kids, f, a.s)
    if f.L != 1 or a.shape[1] != 1:
        return _bad("rmul", kids, "dim:function-times-matrix")
    if f.curv != AFF:
        return _bad("rmul", kids, "curv:matrix-times-pwl")
    v, av, fn, mgf = a.a[:, 0].copy(), np.abs(a.a[:, 0]), f.fn, f.mg
    return Node("rmul", kids, len(v), AFF, lambda vals: v * fn(vals)[0], lambda vals: av * mgf(vals)[0])


def key_list(key, L):
    """index list selected by a single-argument index on a length-L vector; None = out of range"""
    kind, val = key
    if kind == "int":
        if -L <= val < L:
            return [val % L]
        return None
    if kind in ("list", "imat"):
        out = []
        for i in val:
            if not (-L <= i < L):
                return None
            out.append(i % L)
        return out
    if kind == "slice":
        return list(range(L))[slice(*val)]
    raise ValueError(kind)


def key_real(key):
    kind, val = key
    if kind == "int":
        return int(val)
    if kind == "list":
        return [int(i) for i in val]
    if kind == "imat":
        from cvxopt import matrix
        return matrix([int(i) for i in val], (len(val), 1), "i")
    return slice(*val)


def key_src(key):
    kind, val = key
    if kind == "int":
        return "%d" % val
    if kind == "list":
        return "[" + ",".join("%d" % i for i in val) + "]"
    if kind == "imat":
        return "matrix([" + ",".join("%d" % i for i in val) + "],tc='i')"
    a, b, c = val
    return "%s:%s%s" % ("" if a is None else a, "" if b is None else b, "" if c is None else ":%d" % c)


def n_index(f, key):
    idx = key_list(key, f.L)
    if idx is None:
        return _bad("index", [f], "index:out-of-range", meta=key)
    if not idx:
        return _bad("index", [f], "unjudged:empty-index", meta=key)
    ii, fn, mgf = np.array(idx, dtype=int), f.fn, f.mg
    return Node("index", [f], len(idx), f.curv, lambda vals: fn(vals)[ii], lambda vals: mgf(vals)[ii], meta=key)


def n_sum(f):
    fn, mgf = f.fn, f.mg
    return Node("sum", [f], 1, f.curv, lambda vals: np.array([fn(vals).sum()]),
                lambda vals: np.array([mgf(vals).sum()]))


def n_dot(u, f, order="uf"):
    kids = [u, f] if order == "uf" else [f, u]
    if u.shape != (f.L, 1):
        return _bad("dot", kids, "dim:dot-length", meta=order)
    if f.curv != AFF:
        return _bad("dot", kids, "curv:dot-of-pwl", meta=order)
    v, av, fn, mgf = u.a[:, 0].copy(), np.abs(u.a[:, 0]), f.fn, f.mg
    return Node("dot", kids, 1, AFF, lambda vals: np.array([v @ fn(vals)]),
                lambda vals: np.array([av @ mgf(vals)]), meta=order)


def n_minmax(which, args):
    """max(a1, a2, ...) / min(...) with >= 2 arguments, at least one Node"""
    lens = [_len(a) for a in args]
    if any(l is None for l in lens):
        return _bad(which, list(args), "dim:constant-not-a-column")
    L = max(lens)
    if any(l not in (1, L) for l in lens):
        return _bad(which, list(args), "dim:length-mismatch")
    want = (AFF, CVX) if which == "max" else (AFF, CCV)
    if any(_curv(a) not in want for a in args):
        return _bad(which, list(args), "curv:%s-of-%s" % (which, "concave" if which == "max" else "convex"))
    fs, ms = [_ev(a) for a in args], [_mgf(a) for a in args]
    red = np.maximum if which == "max" else np.minimum

    def fn(vals):
        r = _bc(fs[0](vals), L)
        for g in fs[1:]:
            r = red(r, _bc(g(vals), L))
        return r

    def mg(vals):
        r = _bc(ms[0](vals), L)
        for g in ms[1:]:
            r = np.maximum(r, _bc(g(vals), L))
        return r
    return Node(which, list(args), L, CVX if which == "max" else CCV, fn, mg)


def n_single(which, f):
    """max(f) / min(f) with one argument: the largest / smallest component"""
    op = which + "1"
    want = (AFF, CVX) if which == "max" else (AFF, CCV)
    if f.curv not in want:
        return _bad(op, [f], "curv:%s-of-%s" % (which, "concave" if which == "max" else "convex"))
    fn, mgf = f.fn, f.mg
    red = np.max if which == "max" else np.min
    return Node(op, [f], 1, CVX if which == "max" else CCV, lambda vals: np.array([red(fn(vals))]),
                lambda vals: np.array([np.max(mgf(vals))]))


def n_abs(f):
    if f.curv != AFF:
        return _bad("abs", [f], "curv:abs-of-pwl")
    fn, mgf = f.fn, f.mg
    return Node("abs", [f], f.L, CVX, lambda vals: np.abs(fn(vals)), mgf)


# ----------------------------------------------------------------------
# the real operators
def apply_real(node, kids, M):
    """apply the real cvxopt.modeling operator of `node` to the real operands `kids`
    (M = the cvxopt.modeling module)"""
    op = node.op
    if op == "pos":
        return +kids[0]
    if op == "neg":
        return -kids[0]
    if op == "add":
        return kids[0] + kids[1]
    if op == "sub":
        return kids[0] - kids[1]
    if op == "iadd":
        f = kids[0]; f += kids[1]; return f
    if op == "isub":
        f = kids[0]; f -= kids[1]; return f
    if op in ("smul", "mmul", "smulr", "rmul"):
        return kids[0] * kids[1]
    if op == "imul":
        f = kids[0]; f *= kids[1]; return f
    if op == "div":
        return kids[0] / kids[1]
    if op == "idiv":
        f = kids[0]; f /= kids[1]; return f
    if op == "index":
        return kids[0][key_real(node.meta)]
    if op == "sum":
        return M.sum(kids[0])
    if op == "dot":
        return M.dot(kids[0], kids[1])
    if op == "max":
        return M.max(*kids)
    if op == "min":
        return M.min(*kids)
    if op == "max1":
        return M.max(kids[0])
    if op == "min1":
        return M.min(kids[0])
    if op == "abs":
        return abs(kids[0])
    raise ValueError(op)


class Abort(Exception):
    """raised by realize after the hook has been told about a failing node"""


def realize(node, rv, M, hook=None, prehook=None):
    """build the real object bottom-up.  rv: {var idx: cvxopt variable}.
    prehook(node, kids_real) is called before, hook(node, kids_real, result, exc) after the
    real operator of every non-leaf node; when the operator raised, Abort is raised after
    the hook returns (without a hook the original exception propagates)."""
    if node.op == "var":
        return rv[node.var.idx]
    kids = [realize(k, rv, M, hook, prehook) if isinstance(k, Node) else k.real() for k in node.kids]
    if prehook is not None:
        prehook(node, kids)
    try:
        r = apply_real(node, kids, M)
    except Abort:
        raise
    except Exception as e:
        if hook is None:
            raise
        hook(node, kids, None, e)
        raise Abort()
    if hook is not None:
        hook(node, kids, r, None)
    return r


# ----------------------------------------------------------------------
# python source of a tree (for reproducers)
def script(node, lines=None, counter=None):
    """returns (name, lines): statements that build the tree with cvxopt.modeling"""
    if lines is None:
        lines, counter = [], [0]
    if node.op == "var":
        return node.var.name, lines
    names = []
    for k in node.kids:
        if isinstance(k, Node):
            names.append(script(k, lines, counter)[0])
        else:
            names.append(k.src())
    op = node.op
    inpl = {"iadd": "+=", "isub": "-=", "imul": "*=", "idiv": "/="}
    if op in inpl:
        lines.append("%s %s %s" % (names[0], inpl[op], names[1]))
        return names[0], lines
    counter[0] += 1
    t = "t%d" % counter[0]
    if op == "pos":
        e = "+" + names[0]
    elif op == "neg":
        e = "-" + names[0]
    elif op == "add":
        e = "%s + %s" % tuple(names)
    elif op == "sub":
        e = "%s - %s" % tuple(names)
    elif op in ("smul", "mmul", "smulr", "rmul"):
        e = "%s * %s" % tuple(names)
    elif op == "div":
        e = "%s / %s" % tuple(names)
    elif op == "index":
        e = "%s[%s]" % (names[0], key_src(node.meta))
    elif op in ("max1", "min1"):
        e = "%s(%s)" % (op[:3], names[0])
    else:
        e = "%s(%s)" % (op, ", ".join(names))
    lines.append("%s = %s" % (t, e))
    return t, lines


def header(vars_):
    return ["from cvxopt import matrix, sparse", "from cvxopt.modeling import variable, op, max, min, sum, dot"] + \
           ["%s = variable(%d,'%s')" % (v.name, v.n, v.name) for v in vars_]


# ----------------------------------------------------------------------
# random trees
class TreeGen:
    """random expression trees over `vars_`.
    exotic=True additionally generates documented-but-rare operand kinds (sparse column on the
    right of a scalar function, sparse 1x1 times PWL)."""

    def __init__(self, rng, vars_, maxdepth=5, p_sparse=0.3, inplace=True, exotic=False, wide=False,
                 p_const_first=0.35):
        self.rng, self.vars = rng, vars_
        self.maxdepth, self.p_sparse, self.inplace, self.exotic, self.wide = maxdepth, p_sparse, inplace, exotic, wide
        self.p_const_first = p_const_first

    # ---- constants
    def val(self, nz=False):
        r = self.rng
        while True:
            u = r.random()
            if u < 0.35:
                v = float(r.choice([1, 2, 3, -1, -2, -3]))
            elif u < 0.90:
                v = round(r.uniform(-3, 3), 2)
            elif u < 0.95 and not nz:
                v = 0.0
            else:
                v = round(r.uniform(-30, 30), 1)
            if self.wide and r.random() < 0.15:
                v = float("%.5e" % (r.choice([-1, 1]) * 10 ** r.uniform(-5, 5)))
            if v != 0.0 or not nz:
                return v

    def kscalar(self, nz=True, positive=None):
        r = self.rng
        v = self.val(nz=nz)
        if positive is True:
            v = abs(v)
        elif positive is False:
            v = -abs(v)
        kind = r.choice(["float", "float", "int", "d11"])
        if kind == "int":
            v = float(int(round(v))) or (1.0 if positive is not False else -1.0)
            if positive is True:
                v = abs(v)
            elif positive is False:
                v = -abs(v)
        return K(kind, v)

    def kmat(self, m, n, dense_only=False):
        r = self.rng
        sp = (not dense_only) and r.random() < self.p_sparse
        pz = 0.35 if sp else 0.08
        a = np.array([[0.0 if r.random() < pz else self.val(nz=True) for _ in range(n)] for _ in range(m)]).reshape(m, n)
        if (m, n) == (1, 1):
            if a[0, 0] == 0.0:
                a[0, 0] = self.val(nz=True)
            return K("sp11" if sp else "d11", a)
        if n == 1:
            kind = "col"
        elif m == 1:
            kind = "row"
        else:
            kind = "mat"
        return K(("sp" + kind) if sp else kind, a)

    def kaddend(self, L, force_col=False):
        """constant that may be added to a function of length L (scalar or column of length L)"""
        r = self.rng
        if L == 1 or (r.random() < 0.45 and not force_col):
            k = self.kscalar(nz=False)
            return k
        k = self.kmat(L, 1)
        return k

    # ---- keys
    def key(self, m, L):
        """an index selecting exactly L entries of a length-m vector"""
        r = self.rng
        cands = []
        if L == 1:
            i = r.randrange(m)
            cands += [("int", i), ("int", i - m)]
        sl = []
        for a in [None] + list(range(-m, m)):
            for b in [None] + list(range(-m, m + 1)):
                for c in (None, 2, -1, 3):
                    if len(list(range(m))[slice(a, b, c)]) == L:
                        sl.append(("slice", (a, b, c)))
        if sl:
            cands += [r.choice(sl), r.choice(sl)]
        lst = [r.randrange(-m, m) for _ in range(L)]
        cands += [("list", lst), ("imat", lst)]
        return r.choice(cands)

    # ---- leaves
    def leaf(self, L):
        r = self.rng
        exact = [v for v in self.vars if v.n == L]
        if exact and r.random() < 0.7:
            return n_var(r.choice(exact))
        v = r.choice(self.vars)
        if v.n == L:
            return n_var(v)
        if v.n == 1:
            u = r.random()
            if u < 0.4:
                return n_add(n_var(v), self.kmat(L, 1), r.choice([1, -1]))
            if u < 0.7:
                return n_rmul(n_var(v), self.kmat(L, 1, dense_only=True))
            return n_mmul(self.kmat(L, 1), n_var(v))
        if r.random() < 0.5:
            return n_index(n_var(v), self.key(v.n, L))
        if L == 1 and r.random() < 0.4:
            return n_sum(n_var(v))
        return n_mmul(self.kmat(L, v.n), n_var(v))

    def _fobj(self, node):
        """in-place operators need a function object on the left, not a variable"""
        return n_pos(node) if node.op == "var" else node

    def _lens2(self, L):
        r = self.rng
        if L == 1:
            return 1, 1
        return r.choice([(L, L), (L, L), (L, 1), (1, L)])

    # ---- affine
    def affine(self, L, d):
        r = self.rng
        if d <= 0:
            return self.leaf(L)
        prods = [("leaf", 1), ("addsub", 4), ("multi", 2.5), ("smul", 2), ("div", 1), ("neg", 1),
                 ("mmul", 2.5), ("rmul", 0.5), ("index", 2)]
        if L == 1:
            prods += [("sum", 1.5), ("dot", 1.5)]
        p = self._pick(prods)
        if p == "leaf":
            return self.leaf(L)
        if p == "addsub":
            la, lb = self._lens2(L)
            sign = r.choice([1, -1])
            a = self.affine(la, d - 1)
            if r.random() < 0.3:
                b = self.kaddend(lb, force_col=(la != L))
                if r.random() < 0.3:
                    return n_add(b, a, sign)
            else:
                b = self.affine(lb, d - 1)
            if self.inplace and la == L and r.random() < 0.3:
                return n_add(self._fobj(a), b, sign, inplace=True)
            return n_add(a, b, sign)
        if p == "multi":
            return self.multi(L, d)
        if p == "smul":
            f = self.affine(L, d - 1)
            k = self.kscalar(nz=r.random() > 0.04)
            if self.inplace and r.random() < 0.2:
                return n_smul(k, self._fobj(f), inplace=True)
            return n_smul(k, f, r.choice(["l", "r"]))
        if p == "div":
            f = self.affine(L, d - 1)
            k = self.kscalar(nz=True)
            if self.inplace and r.random() < 0.3:
                return n_div(self._fobj(f), k, inplace=True)
            return n_div(f, k)
        if p == "neg":
            f = self.affine(L, d - 1)
            return n_neg(f) if r.random() < 0.7 else n_pos(f)
        if p == "mmul":
            m = r.randint(1, 4)
            f = self.affine(m, d - 1)
            return n_mmul(self.kmat(L, m), f)
        if p == "rmul":
            f = self.affine(1, d - 1)
            return n_rmul(f, self.kmat(L, 1, dense_only=not self.exotic))
        if p == "index":
            m = r.randint(1, 4)
            f = self.affine(m, d - 1)
            return n_index(f, self.key(m, L))
        if p == "sum":
            return n_sum(self.affine(r.randint(1, 4), d - 1))
        if p == "dot":
            m = r.randint(1, 4)
            f = self.affine(m, d - 1)
            return n_dot(self.kmat(m, 1, dense_only=True), f, r.choice(["uf", "fu"]))
        raise AssertionError(p)

    def term(self, v, L):
        """one term coef*v (or an indexed v) of length L or 1 for the multi-occurrence sum"""
        r = self.rng
        opts = []
        if v.n == L or v.n == 1:
            opts += ["scalar", "scalar", "plain"]
        opts += ["index", "row", "matrix", "index1"]
        o = r.choice(opts)
        x = n_var(v)
        if o == "plain":
            return x
        if o == "scalar":
            return n_smul(self.kscalar(), x, r.choice(["l", "r"]))
        if o == "row":
            return n_mmul(self.kmat(1, v.n), x)
        if o == "matrix":
            return n_mmul(self.kmat(L, v.n), x)
        if o == "index":
            return n_index(x, self.key(v.n, L))
        return n_index(x, self.key(v.n, 1))

    def multi(self, L, d):
        """the same variable several times with differently shaped coefficients"""
        r = self.rng
        v = r.choice(self.vars)
        nt = r.randint(2, 4)
        terms = [self.term(v, L) for _ in range(nt)]
        if all(t.L != L for t in terms):
            terms[r.randrange(nt)] = n_mmul(self.kmat(L, v.n), n_var(v))
        if len(self.vars) > 1 and r.random() < 0.3:
            w = r.choice(self.vars)
            terms.insert(r.randrange(nt), self.term(w, L))
        acc = terms[0]
        for t in terms[1:]:
            sign = r.choice([1, 1, -1])
            if self.inplace and acc.op != "var" and t.L in (acc.L, 1) and r.random() < 0.25:
                acc = n_add(acc, t, sign, inplace=True)
            else:
                acc = n_add(acc, t, sign)
        if acc.L != L:           # all-scalar sum broadcast to L through a column constant
            acc = n_add(acc, self.kmat(L, 1), 1)
        return acc

    # ---- convex (s=+1) / concave (s=-1)
    def cvx(self, L, d, s=1):
        r = self.rng
        if d <= 0:
            return self.leaf(L)
        prods = [("affine", 1.5), ("minmax", 4), ("abs", 1.5), ("addsub", 3), ("neg", 1), ("smul", 2), ("index", 1.5)]
        if L == 1:
            prods += [("single", 1.5), ("sum", 2)]
            if self.exotic:
                prods += [("sp11", 0.3)]
        p = self._pick(prods)
        which = "max" if s > 0 else "min"
        if p == "affine":
            return self.affine(L, d)
        if p == "minmax":
            na = r.choice([2, 2, 2, 3, 3, 4])
            nnode = r.randint(1, na)
            args = []
            for i in range(na):
                la = L if (L == 1 or r.random() < 0.7) else 1
                if i < nnode:
                    args.append(self.cvx(la, d - 1, s))
                elif la == 1:
                    args.append(self.kscalar(nz=False))
                else:
                    args.append(self.kmat(L, 1, dense_only=True))
            if all(_len(a) != L for a in args):
                args[0] = self.cvx(L, d - 1, s)
            if r.random() < self.p_const_first:
                r.shuffle(args)
            else:
                args.sort(key=lambda a: 0 if isinstance(a, Node) else 1)
            return n_minmax(which, args)
        if p == "single":
            # len(u) == 1 is left out on purpose: "max(u) = max(u[0])" does not say whether the
            # result is u[0] itself (affine) or a PWL object
            m = r.choice([2, 2, 3, 3, 4])
            return n_single(which, self.cvx(m, d - 1, s))
        if p == "abs":
            f = n_abs(self.affine(L, d - 1))
            return f if s > 0 else n_neg(f)
        if p == "addsub":
            la, lb = self._lens2(L)
            a = self.cvx(la, d - 1, s)
            sign = r.choice([1, -1])
            if r.random() < 0.2:
                b = self.kaddend(lb, force_col=(la != L))
            else:
                b = self.cvx(lb, d - 1, s * sign)
            if self.inplace and la == L and r.random() < 0.3:
                return n_add(self._fobj(a), b, sign, inplace=True)
            return n_add(a, b, sign)
        if p == "neg":
            if r.random() < 0.25:
                return n_pos(self.cvx(L, d - 1, s))
            return n_neg(self.cvx(L, d - 1, -s))
        if p == "smul":
            pos = r.random() < 0.6
            f = self.cvx(L, d - 1, s if pos else -s)
            k = self.kscalar(nz=True, positive=pos)
            u = r.random()
            if self.inplace and r.random() < 0.06:
                # f *= 0 on a piecewise-linear function (its length may be carried by the max/min terms alone)
                return n_smul(K(r.choice(["float", "int", "d11"]), 0.0), self._fobj(f), inplace=True)
            if u < 0.15:
                return n_div(f, k)
            if self.inplace and u < 0.3:
                return n_smul(k, self._fobj(f), inplace=True)
            if self.inplace and u < 0.4:
                return n_div(self._fobj(f), k, inplace=True)
            return n_smul(k, f, r.choice(["l", "r"]))
        if p == "index":
            m = r.randint(1, 4)
            return n_index(self.cvx(m, d - 1, s), self.key(m, L))
        if p == "sum":
            return n_sum(self.cvx(r.randint(1, 4), d - 1, s))
        if p == "sp11":
            pos = r.random() < 0.6
            f = self.cvx(1, d - 1, s if pos else -s)
            a = K("sp11", abs(self.val(nz=True)) * (1 if pos else -1))
            return n_mmul(a, f) if r.random() < 0.5 else n_rmul(f, a)
        raise AssertionError(p)

    def _pick(self, prods):
        tot = sum(w for _, w in prods)
        u = self.rng.random() * tot
        for n, w in prods:
            u -= w
            if u <= 0:
                return n
        return prods[-1][0]

    def tree(self, want="any", L=None, depth=None):
        r = self.rng
        if L is None:
            L = r.randint(1, 4)
        if depth is None:
            depth = r.randint(1, max(1, self.maxdepth - 1))    # leaves may add one operator level
        if want == "any":
            want = r.choice([AFF, CVX, CVX, CCV, CCV])
        for _ in range(100):
            if want == AFF:
                t = self.affine(L, depth)
            else:
                t = self.cvx(L, depth, 1 if want == CVX else -1)
            if t.depth() <= self.maxdepth:
                break
            depth = max(1, depth - 1)
        assert t.depth() <= self.maxdepth
        assert t.bad is None, ("generator produced a refused node", t.op, t.bad)
        assert t.L == L, ("generator length", t.op, t.L, L)
        return t

    def pwl(self, L, d, s):
        """a tree whose curvature class is strictly convex (s>0) / concave PWL"""
        for _ in range(50):
            t = self.cvx(L, max(d, 1), s)
            if t.curv == (CVX if s > 0 else CCV):
                return t
        f = n_abs(self.leaf(L))
        return f if s > 0 else n_neg(f)

    # ---- combinations the documentation refuses
    def invalid(self):
        """a refused combination (root.bad set) over valid operands, depth <= maxdepth"""
        while True:
            t = self._invalid()
            if t.bad is not None and max([k.depth() for k in t.kids if isinstance(k, Node)] + [0]) < self.maxdepth:
                return t

    def _invalid(self):
        r = self.rng
        d = r.randint(0, 2)
        L = r.randint(1, 4)
        kinds = ["curv:add", "curv:sub", "curv:max", "curv:min", "curv:max1", "curv:min1", "curv:abs",
                 "curv:mmul", "curv:rmul", "curv:dot", "curv:imix",
                 "dim:add", "dim:addrow", "dim:iadd", "dim:mmul", "dim:max", "dim:dot", "dim:dotvar",
                 "dim:rmul", "index:int", "index:list"]
        k = r.choice(kinds)
        if k == "curv:add":
            a, b = self.pwl(L, d, 1), self.pwl(r.choice([L, 1]), d, -1)
            if r.random() < 0.5:
                a, b = b, a
            if a.L == L and r.random() < 0.3:
                return n_add(self._fobj(a), b, 1, inplace=True)
            return n_add(a, b, 1)
        if k == "curv:sub":
            s = r.choice([1, -1])
            return n_add(self.pwl(L, d, s), self.pwl(L, d, s), -1)
        if k == "curv:imix":
            s = r.choice([1, -1])
            return n_add(self._fobj(self.pwl(L, d, s)), self.pwl(r.choice([L, 1]), d, s), -1, inplace=True)
        if k in ("curv:max", "curv:min"):
            which = k[5:]
            s = 1 if which == "max" else -1
            args = [self.pwl(L, d, -s)]
            for _ in range(r.randint(1, 2)):
                u = r.random()
                args.append(self.cvx(r.choice([L, 1]), d, s) if u < 0.6 else self.kscalar(nz=False))
            r.shuffle(args)
            if not isinstance(args[0], Node) and r.random() < 0.7:
                args.reverse()
            return n_minmax(which, args)
        if k in ("curv:max1", "curv:min1"):
            which = k[5:8]
            return n_single(which, self.pwl(r.randint(2, 4), d, -1 if which == "max" else 1))
        if k == "curv:abs":
            return n_abs(self.pwl(L, d, r.choice([1, -1])))
        if k == "curv:mmul":
            m = r.randint(2, 4)
            return n_mmul(self.kmat(L, m), self.pwl(m, d, r.choice([1, -1])))
        if k == "curv:rmul":
            return n_rmul(self.pwl(1, d, r.choice([1, -1])), self.kmat(r.randint(2, 4), 1, dense_only=True))
        if k == "curv:dot":
            m = r.randint(1, 4)
            return n_dot(self.kmat(m, 1, dense_only=True), self.pwl(m, d, r.choice([1, -1])), r.choice(["uf", "fu"]))
        if L == 1:
            L = r.randint(2, 4)
        L2 = r.choice([l for l in (2, 3, 4, 5) if l != L])
        if k == "dim:add":
            a = self.tree("any", L, d)
            b = self.tree("any", L2, d) if r.random() < 0.6 and L2 <= 4 else self.kmat(L2, 1)
            if isinstance(b, Node) and a.curv != AFF and b.curv != AFF:
                b = self.affine(L2, d)
            return n_add(a, b, r.choice([1, -1])) if r.random() < 0.5 or isinstance(b, K) else n_add(b, a, r.choice([1, -1]))
        if k == "dim:addrow":
            a = self.tree("any", L, d)
            return n_add(a, self.kmat(1, L) if r.random() < 0.5 else self.kmat(L, 2), r.choice([1, -1]))
        if k == "dim:iadd":
            a = self._fobj(self.tree("any", 1, d))
            b = self.affine(L, d) if r.random() < 0.6 else self.kmat(L, 1)
            return n_add(a, b, r.choice([1, -1]), inplace=True)
        if k == "dim:mmul":
            return n_mmul(self.kmat(r.randint(1, 4), L2), self.affine(L, d))
        if k == "dim:max":
            which = r.choice(["max", "min"])
            s = 1 if which == "max" else -1
            b = self.cvx(L2, d, s) if L2 <= 4 and r.random() < 0.6 else self.kmat(L2, 1, dense_only=True)
            args = [self.cvx(L, d, s), b]
            if r.random() < 0.4:
                args.append(self.kscalar(nz=False))
            if isinstance(b, Node):
                r.shuffle(args)
            return n_minmax(which, args)
        if k == "dim:dot":
            return n_dot(self.kmat(L2, 1, dense_only=True), self._fobj(self.affine(L, max(d, 1))), r.choice(["uf", "fu"]))
        if k == "dim:dotvar":
            vs = [v for v in self.vars if v.n > 1]
            if not vs:
                return n_dot(self.kmat(L2, 1, dense_only=True), self._fobj(self.affine(L, max(d, 1))), "uf")
            v = r.choice(vs)
            m = r.choice([l for l in (1, 1, 2, 3, 4, 5) if l != v.n])
            return n_dot(self.kmat(m, 1, dense_only=True), n_var(v), r.choice(["uf", "fu"]))
        if k == "dim:rmul":
            return n_rmul(self.affine(L, d), self.kmat(r.choice([L, L2]), 1, dense_only=True))
        f = self.tree("any", L, d)
        if k == "index:int":
            return n_index(f, ("int", r.choice([L, L + 1, -L - 1])))
        lst = [r.randrange(-L, L) for _ in range(r.randint(1, 3))]
        lst[r.randrange(len(lst))] = r.choice([L, -L - 1, L + 2])
        return n_index(f, (r.choice(["list", "imat"]), lst))


def gen_vars(rng, nmax=3, lmax=4, named=True):
    nv = rng.randint(1, nmax)
    return [Var(i, rng.randint(1, lmax), "x%d" % i) for i in range(nv)]


def rand_values(rng, vars_, scale=3.0):
    return {v.idx: np.array([round(rng.uniform(-scale, scale), 3) for _ in range(v.n)]) for v in vars_}


# ----------------------------------------------------------------------
# protection of the monitor itself
def risky(node):
    """True if the tree contains `sparse constant (+|-) function` with the constant on the left:
    on the unchanged tree spmatrix.__sub__ with a non-matrix right operand can crash the interpreter."""
    for n in node.nodes():
        if n.op in ("add", "sub") and isinstance(n.kids[0], K) and n.kids[0].is_sparse:
            return True
    return False


def survives(fn):
    """run fn() in a forked child; returns None if the child ended normally (whatever fn did),
    else the signal number that killed it"""
    import os, sys
    sys.stdout.flush(); sys.stderr.flush()
    pid = os.fork()
    if pid == 0:
        try:
            try:
                fn()
            except BaseException:
                pass
        finally:
            os._exit(0)
    _, st = os.waitpid(pid, 0)
    if os.WIFSIGNALED(st):
        return os.WTERMSIG(st)
    return None


def isolated(ctx, c, body):
    """run body() (which records into the harness objects ctx / c) in a forked child and merge what it
    recorded into the parent.  Returns None, or the signal number that killed the child."""
    import os, sys, json, traceback
    from vlib.harness import _jsonable
    sys.stdout.flush(); sys.stderr.flush()
    rd, wr = os.pipe()
    pid = os.fork()
    if pid == 0:
        code = 0
        try:
            os.close(rd)
            c0, nf0, ch0 = dict(ctx.counters), len(c.failed), c.checked
            try:
                body()
            except Exception as e:
                c.fail("harness-exception:%s" % type(e).__name__,
                       "".join(traceback.format_exception(type(e), e, e.__traceback__))[-3000:])
            pay = {"failed": c.failed[nf0:], "checked": c.checked - ch0, "sig": c.sig, "desc": _jsonable(c.desc),
                   "counters": {k: v - c0.get(k, 0) for k, v in ctx.counters.items() if v != c0.get(k, 0)},
                   "maxima": ctx.maxima, "samples": ctx.samples}
            with os.fdopen(wr, "w") as f:
                f.write(json.dumps(pay))
        except BaseException:
            code = 3
        finally:
            os._exit(code)
    os.close(wr)
    with os.fdopen(rd) as f:
        data = f.read()
    _, st = os.waitpid(pid, 0)
    if os.WIFSIGNALED(st):
        return os.WTERMSIG(st)
    pay = json.loads(data)
    c.failed.extend(pay["failed"]); c.checked += pay["checked"]; c.sig = pay["sig"]
    c.desc.update(pay["desc"])
    for k, v in pay["counters"].items():
        ctx.count(k, v)
    for k, v in pay["maxima"].items():
        ctx.maxobs(k, v)
    for smp in pay["samples"][len(ctx.samples):]:
        ctx.sample(smp)
    return None
